#!/usr/bin/env python3
"""print the second-wave seeding prompt for a property: tools/wave2_prompt.py C01"""
import glob, json, os, sys
P = sys.argv[1]
p = P.lower()
tried = []
for d in sorted(glob.glob(f"/verif/seeded/{P}-*")):
    m = json.load(open(os.path.join(d, "meta.json")))
    first = ""
    np_ = os.path.join(d, "notes.md")
    if os.path.exists(np_):
        for line in open(np_):
            if line.strip().startswith("#"):
                first = line.strip("# \n")
                break
    patch = open(os.path.join(d, "patch.diff")).read()
    files = sorted({l.split(" b/")[-1].strip() for l in patch.splitlines() if l.startswith("diff --git")})
    tried.append(f"- {first} [files: {', '.join(os.path.basename(f) for f in files)}; needed: {m.get('needs_to_manifest','')}]")
print(f"""Read /tmp/seed_prompt_wave2.txt and then /tmp/seed_prompt.txt - together they contain your complete instructions. Substitute WORKTREE = /tmp/seed_{p} and ID = {p}w2 (so your scratch directory is /tmp/seedwork_{p}w2). Hard rules: never read or list anything under /verif, never modify /repo, work only in /tmp/seed_{p} and /tmp/seedwork_{p}w2. Run the test suite at most once per change (plus once on the unchanged tree). For numba-jitted code ALWAYS set NUMBA_CACHE_DIR to a fresh empty directory for every run after an edit (numba does not notice changes in callee files).
Already tried for this property (do not repeat these or close variants; pick different mechanisms and, where possible, different functions/files):
""" + "\n".join(tried))
