#!/usr/bin/env python3
"""Run the repository's test-suite with each kept seed applied (scratch worktree) and record the result in meta.json."""
import json, os, subprocess, sys
WT = "/tmp/wt_seedconfirm"
ids = sys.argv[1:] or sorted(os.listdir("/verif/seeded"))
head = subprocess.check_output("git -C /repo rev-parse HEAD", shell=True, text=True).strip()
if not os.path.exists(WT):
    subprocess.check_call(f"git -C /repo worktree add -q --detach {WT} {head}", shell=True)
for sid in ids:
    d = os.path.join("/verif/seeded", sid)
    meta = json.load(open(os.path.join(d, "meta.json")))
    if meta.get("repo_test_suite_with_patch", "pending") != "pending":
        continue
    subprocess.call(f"git -C {WT} checkout -q --detach {head}; git -C {WT} checkout -q -- .", shell=True)
    if subprocess.call(f"git -C {WT} apply {d}/patch.diff", shell=True) != 0:
        meta["repo_test_suite_with_patch"] = "patch does not apply to current HEAD"
    else:
        r = subprocess.run(f"cd {WT} && PYTHONPATH={WT}/src NUMBA_CACHE_DIR=/tmp/nb_seedconfirm /venv/bin/python -m pytest -q -p no:cacheprovider --timeout=900 --continue-on-collection-errors tests 2>&1 | tail -1", shell=True, capture_output=True, text=True)
        meta["repo_test_suite_with_patch"] = r.stdout.strip() + f" (at /repo {head[:7]}; unchanged tree: 1 failed, 62 passed, 1 error)"
    json.dump(meta, open(os.path.join(d, "meta.json"), "w"), indent=1)
    print(sid, meta["repo_test_suite_with_patch"], flush=True)
subprocess.call(f"git -C {WT} checkout -q -- .", shell=True)
