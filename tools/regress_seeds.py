#!/usr/bin/env python3
"""tools/regress_seeds.py [-j N] [seed ids...]: re-run tools/try_seed.py for every kept seed against the current
checks and the current /repo HEAD; prints one line per seed (CAUGHT / MISSED / PATCH DOES NOT APPLY / demo state)."""
import json, os, subprocess, sys
from concurrent.futures import ThreadPoolExecutor

args = sys.argv[1:]
j = 3
if args[:1] == ["-j"]:
    j = int(args[1]); args = args[2:]
ids = args or sorted(os.listdir("/verif/seeded"))


def one(sid):
    d = os.path.join("/verif/seeded", sid)
    prop = json.load(open(os.path.join(d, "meta.json")))["breaks_property"]
    r = subprocess.run(["python3", "/verif/tools/try_seed.py", d, prop, "--workers", "6"], capture_output=True, text=True)
    out = r.stdout
    verdict = "CAUGHT" if "\nCAUGHT" in "\n" + out else ("NOAPPLY" if "DOES NOT APPLY" in out else ("HARNESS-ERROR" if "HARNESS-ERROR" in out else "MISSED"))
    demo = [l for l in out.splitlines() if l.startswith("demo clean")]
    dm = ""
    if demo:
        import re
        m = re.findall(r"exit=(\d+)", demo[0])
        dm = f"demo clean/patched exit={'/'.join(m[:2])}"
    return f"{sid} {prop} {verdict} {dm}"


with ThreadPoolExecutor(j) as ex:
    for line in ex.map(one, ids):
        print(line, flush=True)
