#!/bin/bash
# tools/mk_seed_wt.sh C17 C20 ... : scratch worktrees /tmp/seed_cNN with PROPERTY.txt for independent seeding agents
for P in "$@"; do
  p=$(echo $P | tr A-Z a-z)
  git -C /repo worktree add -q --detach /tmp/seed_$p HEAD
  /venv/bin/python - "$P" <<'PY'
import json, sys
P=sys.argv[1]
for l in open('/verif/properties.jsonl'):
    p=json.loads(l)
    if p['id']==P:
        open(f"/tmp/seed_{P.lower()}/PROPERTY.txt","w").write(f"{p['id']}: {p['title']}\n\nStatement: {p['statement']}\n\nQuantified over: {p['quantifier']['text']}\n\nRelevant files: {p['anchors']['files']}\n")
PY
done
