#!/usr/bin/env python3
"""tools/keep_seed.py <seedwork change dir> <seed id> <PROP> <caught_by text> [needs text]
Copies patch.diff + demo.py (+ notes.md) into /verif/seeded/<seed id>/ and writes meta.json.
The test-suite confirmation is appended later by tools/confirm_seed_tests.py."""
import json
import os
import shutil
import sys


def main():
    src, sid, prop, caught = sys.argv[1:5]
    needs = sys.argv[5] if len(sys.argv) > 5 else ""
    dst = os.path.join("/verif/seeded", sid)
    os.makedirs(dst, exist_ok=True)
    for f in ("patch.diff", "demo.py", "notes.md"):
        if os.path.exists(os.path.join(src, f)):
            shutil.copy(os.path.join(src, f), os.path.join(dst, f))
    meta = {
        "id": sid,
        "breaks_property": prop,
        "written_by": "independent sub-agent given only the property text and a scratch worktree (nothing from /verif)",
        "needs_to_manifest": needs,
        "how_checked": [
            f"tools/try_seed.py {src} {prop}: demo.py exits 0 on the unchanged tree and 1 with the patch; "
            f"VERIF_REPO=<patched worktree> ./check {prop} --no-evidence",
        ],
        "detected_by": caught,
        "repo_test_suite_with_patch": "pending",
    }
    with open(os.path.join(dst, "meta.json"), "w") as fp:
        json.dump(meta, fp, indent=1)
    print("kept", dst)


if __name__ == "__main__":
    main()
