#!/usr/bin/env python3
"""Regenerate the generated tables of DESIGN.md (between the GENERATED markers) from
KNOWN_FINDINGS.json and seeded/*/meta.json."""
import json
import os
import re

V = "/verif"


def findings_tables():
    d = json.load(open(os.path.join(V, "KNOWN_FINDINGS.json")))
    fixed = [e for e in d["findings"] if e["status"] == "fixed"]
    known = [e for e in d["findings"] if e["status"] == "known"]
    out = ["### 7.4 Genuine defects found on the pinned tree (generated from KNOWN_FINDINGS.json)", "",
           f"{len(fixed)} defects were repaired by one small unguarded `fix:` commit each in /repo (the repository's test-suite, "
           "unedited, gives the same 62 passed / 1 failed (optional dependency) / 1 collection error with all of them), "
           f"{len(known)} are recorded as known findings (the check prints `KNOWN-FINDING:` for them and exits 0; any "
           "violation whose key does not match an entry still fails the check).", "",
           "| property | fix commit | what failed |", "|---|---|---|"]
    for e in sorted(fixed, key=lambda e: e["property"]):
        out.append(f"| {e['property']} | `{e['commit']}` | {e['what']} |")
    out += ["", "| property | known finding (match on the violation key) | why it is recorded rather than repaired |", "|---|---|---|"]
    for e in sorted(known, key=lambda e: e["property"]):
        out.append(f"| {e['property']} | {e['what']} — match `{json.dumps(e['match'])}` | {e.get('why_not_fixed', '')} |")
    return "\n".join(out)


def seeds_table():
    rows = []
    base = os.path.join(V, "seeded")
    n = caught = 0
    for sid in sorted(os.listdir(base)):
        mp = os.path.join(base, sid, "meta.json")
        if not os.path.exists(mp):
            continue
        m = json.load(open(mp))
        n += 1
        det = m.get("detected_by", "")
        if det and not det.upper().startswith("MISSED"):
            caught += 1
        rows.append(f"| {sid} | {m['breaks_property']} | {m.get('needs_to_manifest', '')} | {det} |")
    out = ["### 7.5 Seeded property-breaking changes (generated from seeded/*/meta.json)", "",
           "Each change was written by a fresh sub-agent that saw only the property text and its own scratch worktree "
           "(nothing from /verif), keeps the repository's test-suite result unchanged, and comes with a demo script that "
           "passes on the unchanged tree and fails with the change. `tools/try_seed.py seeded/<id> <PROP>` re-applies one in a "
           f"scratch worktree and runs the check. {caught} of {n} are detected by the quick tier of the check named; the "
           "'detected by' column says where a check first had to be strengthened.", "",
           "| seed | property | needs, to manifest | detected by |", "|---|---|---|---|"] + rows
    return "\n".join(out)


def main():
    p = os.path.join(V, "DESIGN.md")
    s = open(p).read()
    block = "<!-- GENERATED:BEGIN -->\n" + findings_tables() + "\n\n" + seeds_table() + "\n<!-- GENERATED:END -->"
    if "<!-- GENERATED:BEGIN -->" in s:
        s = re.sub(r"<!-- GENERATED:BEGIN -->.*<!-- GENERATED:END -->", lambda m: block, s, flags=re.S)
    else:
        s = s.rstrip() + "\n\n" + block + "\n"
    open(p, "w").write(s)
    print("DESIGN.md tables regenerated")


if __name__ == "__main__":
    main()
