#!/usr/bin/env python3
"""Regenerate /verif/MANIFEST.json from the table below (only properties whose module exists in
mc/props are claimed; the rest are listed under not_applicable with the reason 'not built yet')."""
import json
import os
import subprocess

VERIF = os.path.dirname(os.path.dirname(os.path.abspath(__file__)))

E1 = "exhaustive enumeration of a bounded input product space on the real code, compared with an independent reference model and closed metamorphic relations"
CHECKS = {
    "C01": ("exploration", "E1", "3 C01", E1),
    "C02": ("exploration", "E1", "3 C02", E1),
    "C03": ("exploration", "E1", "3 C03", E1),
    "C04": ("exploration", "E1", "3 C04", E1),
    "C05": ("exploration", "E1", "3 C05", E1),
    "C06": ("exploration", "E1", "3 C06", E1),
    "C07": ("exploration", "E1", "3 C07", E1),
    "C08": ("exploration", "E1", "3 C08", E1),
    "C09": ("exploration", "E1", "3 C09", E1),
    "C10": ("exploration", "E1", "3 C10", E1),
    "C11": ("exploration", "E1", "3 C11", E1),
    "C12": ("exploration", "E1", "3 C12", E1),
    "C13": ("exploration", "E1", "3 C13", E1),
    "C14": ("exploration", "E1", "3 C14", E1),
    "C15": ("model_checking", "E2", "3 C15",
            "explicit-state breadth-first search over operation sequences on real spectrum objects; operand snapshots and round-trip invariants evaluated on every transition"),
    "C16": ("exploration", "E1", "3 C16", E1),
    "C17": ("exploration", "E1", "3 C17", E1),
    "C18": ("model_checking", "E2+E3", "3 C18",
            "explicit-state BFS over cache operation histories on a real directory in lock-step with a reference model, plus preemption-bounded exhaustive schedule exploration of the parallel download pool"),
    "C19": ("fault_enumeration", "E3", "3 C19",
            "deviation-bounded exhaustive enumeration of fault kinds x download positions x crash points x follow-ups on the real cache code with a scripted resource"),
    "C20": ("exploration", "E1", "3 C20", E1),
}
TEXT = {
    "exploration": "Every case of a stated finite alphabet (full Cartesian product, no sampling) is executed on the real code and compared with an independent reference; the claim is exhaustive for the lattice listed in the evidence and says nothing between lattice points.",
    "model_checking": "All operation sequences up to the stated depth (and all schedules up to the stated preemption bound) are executed on the real implementation with a reference model in lock-step; every state is checked against the invariants. The exploration is on the implementation itself, so every explored trace is validated against it.",
    "fault_enumeration": "Every fault kind at every download position of every listed history, with every listed follow-up (retry, reopen = simulated crash), is executed on the real cache code; bounded by the number of injected faults per history.",
}
NOTE = "Trusted base: the harness reference models under mc/refmodels and the oracles in mc/props; numpy/xarray/numba as installed; for the cache: a logical clock replaces wall-clock file stamps and process death is modelled as a directory snapshot between library-visible steps (no torn sectors)."


# modules that are finished, reviewed and silent on the unchanged tree (claimed in MANIFEST.json)
READY = ["C01", "C02", "C03", "C04", "C05", "C06", "C07", "C08", "C09", "C10", "C11", "C12", "C13", "C14", "C15", "C16", "C17", "C18", "C19", "C20"]


def main():
    checks = []
    na = []
    for pid, (level, engine, ref, tech) in sorted(CHECKS.items()):
        if pid in READY and os.path.exists(os.path.join(VERIF, "mc", "props", pid.lower() + ".py")):
            checks.append(
                {
                    "property_id": pid,
                    "quick_cmd": f"./check {pid} --tier quick",
                    "thorough_cmd": f"./check {pid} --tier thorough",
                    "evidence_file": f"/verif/evidence/{pid}.json",
                    "replay_cmd_template": f"./check {pid} --replay {{path}}",
                    "engine": engine,
                    "level_claimed": {"category": level, "text": TEXT[level], "design_ref": "DESIGN.md section " + ref},
                    "level_note": NOTE,
                    "technique": "model checking: " + tech,
                }
            )
        else:
            na.append({"property_id": pid, "reason": "check not built yet (planned, see DESIGN.md section 3); no claim is made for this property at this commit"})
    try:
        commits = subprocess.check_output(
            ["git", "-C", "/repo", "log", "--format=%H %s", "--grep=^hook:"], text=True
        ).split("\n")
        commits = [c.split()[0] for c in commits if c.strip()]
    except Exception:
        commits = []
    manifest = {
        "version": 1,
        "setup_cmd": "./setup.sh",
        "hooks": {
            "guard": "OSU_VERIF",
            "enable": "no source hooks are needed: every seam (download pool, file time stamps, remote resource, directive functions) is rebound inside the harness process; OSU_VERIF=1 is exported by ./check for completeness",
            "baseline_off_cmd": "cd /repo && env -u OSU_VERIF /venv/bin/python -m pytest -ra -q -p no:cacheprovider --timeout=900 --continue-on-collection-errors",
            "source_commits": commits,
            "add_only": True,
        },
        "engines": [
            {"name": "E1", "path": "mc/runner.py + mc/props/*.py", "kind_free_text": "product-space enumerator over the real functions, sharded over processes"},
            {"name": "E2", "path": "mc/bfs.py", "kind_free_text": "explicit-state BFS over real objects / directories with canonical state hashing and lock-step reference model"},
            {"name": "E3", "path": "mc/sched.py", "kind_free_text": "stateless deviation-bounded DFS with replay over thread schedules, injected faults and crash points"},
        ],
        "checks": checks,
        "not_applicable": na,
        "notes": "Genuine defects found on the pinned tree are repaired by 'fix:' commits in /repo or listed in KNOWN_FINDINGS.json; see DESIGN.md section 4.",
    }
    with open(os.path.join(VERIF, "MANIFEST.json"), "w") as fp:
        json.dump(manifest, fp, indent=1)
    print(f"claimed {len(checks)} not_applicable {len(na)}")


if __name__ == "__main__":
    main()
