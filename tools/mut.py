#!/usr/bin/env python3
"""Mutation helper:  tools/mut.py <PROP[,PROP..]> <file relative to src/ocean_science_utilities> <old> <new> [--tier T]
Applies ONE textual edit in a scratch worktree of /repo (never /repo itself), runs the checks with
VERIF_REPO pointing at it, prints CAUGHT / MISSED per property, reverts the edit."""
import os
import subprocess
import sys

WT = os.environ.get("MUT_WT", "/tmp/wt_mut_%d" % os.getuid())


def main():
    props, rel, old, new = sys.argv[1:5]
    extra = sys.argv[5:]
    if not os.path.exists(WT):
        subprocess.check_call(["git", "-C", "/repo", "worktree", "add", "-q", "--detach", WT, "HEAD"])
    subprocess.check_call(["git", "-C", WT, "checkout", "-q", "--detach", subprocess.check_output(["git", "-C", "/repo", "rev-parse", "HEAD"], text=True).strip()])
    subprocess.check_call(["git", "-C", WT, "checkout", "-q", "--", "."])
    p = os.path.join(WT, "src/ocean_science_utilities", rel)
    s = open(p).read()
    if s.count(old) != 1:
        print(f"pattern occurs {s.count(old)} times in {rel}", file=sys.stderr)
        sys.exit(3)
    open(p, "w").write(s.replace(old, new))
    env = dict(os.environ, VERIF_REPO=WT)
    for prop in props.split(","):
        r = subprocess.run(["/verif/check", prop, "--no-evidence"] + extra, env=env, capture_output=True, text=True)
        lines = [l for l in r.stdout.splitlines() if l.startswith("VIOLATION")]
        first = [l for l in r.stdout.splitlines() if l.startswith("    ")][:2]
        verdict = "CAUGHT" if r.returncode == 1 and lines else ("HARNESS-ERROR" if r.returncode == 2 else "MISSED")
        print(f"{verdict} {prop} exit={r.returncode} violations_lines={len(lines)}")
        for l in first:
            print("   ", l.strip()[:300])
        if verdict != "CAUGHT":
            print(r.stdout[-1500:])
            print(r.stderr[-1500:])
    subprocess.check_call(["git", "-C", WT, "checkout", "-q", "--", "."])


if __name__ == "__main__":
    main()
