#!/usr/bin/env python3
"""tools/try_seed.py <dir with patch.diff + demo.py> <PROP[,PROP]> [--tests] [--tier T] [extra check args]
Applies the patch in a scratch worktree of /repo HEAD, confirms that demo.py passes without and
fails with the patch, optionally runs the repository's test-suite with the patch, runs the named
checks against the patched worktree (VERIF_REPO) and prints CAUGHT / MISSED."""
import os
import subprocess
import sys

WT = os.environ.get("SEED_WT", "/tmp/wt_seedtest_%d" % os.getpid())
EPHEMERAL = "SEED_WT" not in os.environ


def sh(cmd, **kw):
    return subprocess.run(cmd, shell=True, capture_output=True, text=True, **kw)


def main():
    d = os.path.abspath(sys.argv[1])
    props = sys.argv[2]
    extra = [a for a in sys.argv[3:] if a != "--tests"]
    run_tests = "--tests" in sys.argv
    head = sh("git -C /repo rev-parse HEAD").stdout.strip()
    if not os.path.exists(WT):
        sh(f"git -C /repo worktree add -q --detach {WT} {head}")
    sh(f"git -C {WT} checkout -q --detach {head}; git -C {WT} checkout -q -- .")
    env = dict(os.environ, PYTHONPATH=f"{WT}/src", NUMBA_CACHE_DIR="/tmp/nb_seedtest")
    r0 = sh(f"cd {WT} && /venv/bin/python {d}/demo.py", env=env)
    ap = sh(f"git -C {WT} apply {d}/patch.diff")
    if ap.returncode != 0:
        print("PATCH DOES NOT APPLY:", ap.stderr[:500])
        return 3
    r1 = sh(f"cd {WT} && /venv/bin/python {d}/demo.py", env=env)
    print(f"demo clean: exit={r0.returncode} {r0.stdout.strip()[-60:]!r} | patched: exit={r1.returncode} {r1.stdout.strip()[-80:]!r}")
    if run_tests:
        t = sh(f"cd {WT} && /venv/bin/python -m pytest -q -p no:cacheprovider --timeout=900 --continue-on-collection-errors tests 2>&1 | tail -3", env=env)
        print("tests with patch:", t.stdout.strip().splitlines()[-1] if t.stdout.strip() else t.stderr[-300:])
    for prop in props.split(","):
        r = subprocess.run(["/verif/check", prop, "--no-evidence"] + extra, env=dict(os.environ, VERIF_REPO=WT),
                           capture_output=True, text=True)
        lines = [l for l in r.stdout.splitlines() if l.startswith("VIOLATION")]
        verdict = "CAUGHT" if r.returncode == 1 and lines else ("HARNESS-ERROR" if r.returncode == 2 else "MISSED")
        print(f"{verdict} {prop} exit={r.returncode} violation_lines={len(lines)}")
        for l in [l for l in r.stdout.splitlines() if l.startswith("    ")][:2]:
            print("   ", l.strip()[:260])
        if verdict != "CAUGHT":
            print(r.stdout[-800:], r.stderr[-500:])
    sh(f"git -C {WT} checkout -q -- .")
    if EPHEMERAL:
        sh(f"git -C /repo worktree remove --force {WT}")
    return 0


if __name__ == "__main__":
    sys.exit(main())
