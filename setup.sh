#!/bin/bash
# Offline setup: nothing to build (pure Python harness run by /venv/bin/python against /repo/src).
# Warm the numba on-disk cache for the current tree so the first quick check does not pay for it.
cd "$(dirname "$0")"
mkdir -p evidence replays .cache
/venv/bin/python -c "import numpy, xarray, numba, scipy" || exit 1
exit 0
