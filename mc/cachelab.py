"""
Laboratory for the file cache (properties C18 and C19): every source of nondeterminism of
`ocean_science_utilities.filecache` is owned here.

* ScriptedResource   the only RemoteResource the cache gets; contents, "not found", injected
                     faults and labelled scheduling points inside the download
* logical clock      os.utime(path, None) (what Path.touch does) and every file written by the
                     resource are stamped from a counter, so recency order is deterministic
* ControlledPool     drop-in for multiprocessing.pool.ThreadPool as the cache uses it
                     (`with ThreadPool(processes=..) as pool: pool.imap(fn, items, chunksize=5)`),
                     chunks are real threads that only advance when the Scheduler lets them
* Scheduler          stateless-replay scheduler: choice points, default choice 0, prefix replay,
                     preemption accounting
* World              a real FileCache on a real scratch directory plus observation helpers that do
                     not perturb atime
* Model              the boring reference model (dict uri-key -> content, last-use class)
"""
import hashlib
import os
import shutil
import threading
import warnings

SCRATCH_ROOT = "/dev/shm/osu-verif-%d" % os.getpid()
CLOCK_BASE = 1_000_000.0
MEGABYTE = 1_000_000

# --------------------------------------------------------------------------------------------
# logical clock
# --------------------------------------------------------------------------------------------


class Clock:
    def __init__(self):
        self.t = CLOCK_BASE

    def tick(self):
        self.t += 10.0
        return self.t


CLOCK = Clock()
_real_utime = os.utime
_patched = False


def _utime(path, times=None, *args, **kwargs):
    if times is None and kwargs.get("ns") is None:
        try:
            p = os.fspath(path)
        except TypeError:
            p = None
        if isinstance(p, str) and os.path.abspath(p).startswith("/dev/shm/osu-verif-"):
            t = CLOCK.tick()
            times = (t, t)
    return _real_utime(path, times, *args, **kwargs)


_real_replace = os.replace


def _replace(src, dst, *args, **kwargs):
    w = ControlledPool.world
    kind = None
    if w is not None and isinstance(dst, str) and os.path.abspath(dst).startswith(w.abspath + os.sep):
        n = w.next_index("rp")
        kind = w.plan.get(("rp", n))
        w.log.append(("replace", os.path.basename(dst), n))
        if kind == "crash_before_replace":
            w.fired.append(("rp", n, kind, os.path.basename(dst)))
            w.crash()
    r = _real_replace(src, dst, *args, **kwargs)
    if kind == "crash_after_replace":
        w.fired.append(("rp", n, kind, os.path.basename(dst)))
        w.crash()
    return r


def patch_process():
    """Rebind the seams (idempotent)."""
    global _patched
    if _patched:
        return
    os.utime = _utime
    os.replace = _replace
    warnings.simplefilter("ignore")
    import logging

    logging.disable(logging.CRITICAL)
    from ocean_science_utilities.filecache import cache_object

    cache_object.tqdm = lambda it, **kw: it
    _patched = True


def stamp(path):
    t = CLOCK.tick()
    _real_utime(path, (t, t))


def read_noatime(path):
    fd = os.open(path, os.O_RDONLY | getattr(os, "O_NOATIME", 0))
    try:
        chunks = []
        while True:
            b = os.read(fd, 1 << 16)
            if not b:
                break
            chunks.append(b)
        return b"".join(chunks)
    finally:
        os.close(fd)


def recency(path):
    st = os.stat(path)
    return max(st.st_atime, st.st_mtime)


# --------------------------------------------------------------------------------------------
# remote objects
# --------------------------------------------------------------------------------------------
SCHEME = "mem://"
REMOTE = {
    "a": b"A" * 1000,
    "b": b"B" * 1000,
    "c": b"C" * 1000,
    "d": b"D" * 1000,
    "big": b"G" * 4005,  # > both size limits; 4005 is a byte count that the GB-float config round trip truncates to 4004
}
for _i in range(12):
    REMOTE["s%d" % _i] = bytes([97 + _i]) * (200 + _i)


ALT_SCHEME = "alt://"  # a second resource (sorts before "mem://"): requests may mix resources


def base_of(uri):
    """remote object name of a (directive-free) uri, comment stripped"""
    return uri.split("://", 1)[1].split("<<")[0]


def content_id(b):
    return hashlib.sha256(b).hexdigest()[:10]


class Crash(BaseException):
    """Simulated process death; never caught by library code (BaseException)."""


class InjectedIOError(IOError):
    pass


class ScriptedResource:
    """RemoteResource whose behaviour is scripted by a fault plan.

    plan: dict (site, index) -> kind; for site "dl" the index counts calls of the download
    function in this World since the plan was installed (0-based, in the order the downloads
    *start*).  kinds for "dl":
       'raise_before'  IOError before the file is opened
       'raise_half'    IOError after half of the bytes were written (file left as the code leaves it)
       'crash_open' / 'crash_half' / 'crash_done'   simulated process death at that point
    """

    URI_PREFIX = SCHEME

    def __init__(self, world, prefix=SCHEME):
        self.world = world
        self.URI_PREFIX = prefix

    def valid_uri(self, uri):
        return uri.startswith(self.URI_PREFIX)

    def download(self):
        world = self.world

        def _download(uri, filepath):
            n = world.next_download_index()
            name = base_of(uri)
            _tls.uri = uri
            world.log.append(("download", name, n))
            kind = world.plan.get(("dl", n))
            world.point("dl-enter", n)
            if name not in REMOTE:
                from ocean_science_utilities.filecache.remote_resources import (
                    _RemoteResourceUriNotFound,
                )

                raise _RemoteResourceUriNotFound(f"{uri} not found")
            if kind == "notfound_now":
                # the remote object has disappeared (it may have been fetched successfully before)
                from ocean_science_utilities.filecache.remote_resources import (
                    _RemoteResourceUriNotFound,
                )

                world.fired.append(("dl", n, kind, name))
                raise _RemoteResourceUriNotFound(f"{uri} not found (any more)")
            if kind == "raise_before":
                world.fired.append(("dl", n, kind, name))
                raise InjectedIOError(f"injected failure before write of {uri}")
            data = REMOTE[name]
            half = len(data) // 2
            fp = open(filepath, "wb")
            try:
                world.written.append(filepath)
                if kind == "crash_open":
                    world.fired.append(("dl", n, kind, name))
                    world.crash()
                world.point("dl-open", n)
                fp.write(data[:half])
                fp.flush()
                if kind == "crash_half":
                    world.fired.append(("dl", n, kind, name))
                    world.crash()
                if kind == "raise_half":
                    world.fired.append(("dl", n, kind, name))
                    world.point("dl-half-fault", n)  # the failure becomes visible only after other threads may have run
                    raise InjectedIOError(f"injected failure after half of {uri}")
                world.point("dl-half", n)
                fp.write(data[half:])
            finally:
                fp.close()
                if os.path.exists(filepath):
                    stamp(filepath)
            if kind == "crash_done":
                world.fired.append(("dl", n, kind, name))
                world.crash()
            world.point("dl-done", n)
            return True

        return _download


# --------------------------------------------------------------------------------------------
# Scheduler + ControlledPool
# --------------------------------------------------------------------------------------------
class ReplayDivergence(Exception):
    pass


class Deadlock(Exception):
    pass


class Scheduler:
    """One thread runs at a time. A choice point offers the list of enabled threads in canonical
    order (the running thread first if still enabled, then ascending ids); choice 0 is the
    default.  `prefix` is replayed, an out-of-range choice or a different number of alternatives
    is a hard error."""

    CONSUMER = 0

    def __init__(self, prefix=()):
        self.prefix = list(prefix)
        self.choices = []  # chosen index at every choice point with >1 alternatives
        self.points = []  # dicts: enabled, running_enabled, label
        self.sems = {self.CONSUMER: threading.Semaphore(0)}
        self.state = {self.CONSUMER: "running"}  # running | ready | blocked | done
        self.current = self.CONSUMER
        self.wait_pred = {}
        self.lock = threading.Lock()
        self.trace = []
        self.error = None
        self.threads = []
        self.dead = False

    def kill(self):
        """The (simulated) process died or the execution is abandoned: unwind every parked thread."""
        self.dead = True
        for sem in list(self.sems.values()):
            for _ in range(4):
                sem.release()

    def join(self, timeout=2.0):
        for th in self.threads:
            th.join(timeout)

    # -- registration -----------------------------------------------------------------------
    def add_thread(self, tid, target):
        self.sems[tid] = threading.Semaphore(0)
        self.state[tid] = "ready"

        def body():
            self.sems[tid].acquire()
            if self.dead:
                self.state[tid] = "done"
                return
            try:
                target()
            except BaseException as exc:  # noqa
                self.trace.append(("thread-exc", tid, repr(exc)))
            finally:
                self.state[tid] = "done"
                if not self.dead:
                    self._handoff(tid, finished=True)

        th = threading.Thread(target=body, daemon=True)
        self.threads.append(th)
        th.start()

    # -- choice -----------------------------------------------------------------------------
    def _enabled(self):
        out = []
        for tid in sorted(self.state):
            st = self.state[tid]
            if st in ("ready", "running"):
                out.append(tid)
            elif st == "blocked" and self.wait_pred[tid]():
                out.append(tid)
        return out

    def _choose(self, me, label, me_enabled):
        enabled = self._enabled()
        if me_enabled and me in enabled:
            enabled.remove(me)
            enabled.insert(0, me)
        if not enabled:
            return None
        if len(enabled) == 1:
            return enabled[0]
        i = len(self.choices)
        if i < len(self.prefix):
            c = self.prefix[i]
            if c >= len(enabled):
                raise ReplayDivergence(f"choice {c} out of range {enabled} at point {i} ({label})")
        else:
            c = 0
        self.choices.append(c)
        self.points.append(
            {"n": len(enabled), "running_enabled": bool(me_enabled and enabled[0] == me), "label": label,
             "enabled": list(enabled)}
        )
        return enabled[c]

    def _handoff(self, me, finished=False, blocked_pred=None, label=""):
        """Called by the running thread `me` at a scheduling point."""
        if self.dead:
            raise Crash()
        if blocked_pred is not None:
            self.state[me] = "blocked"
            self.wait_pred[me] = blocked_pred
            me_enabled = blocked_pred()
        elif finished:
            me_enabled = False
        else:
            self.state[me] = "ready"
            me_enabled = True
        try:
            nxt = self._choose(me, label, me_enabled)
        except ReplayDivergence as exc:
            self.error = exc
            nxt = None
        if nxt is None:
            if finished:
                # nobody else to run: wake the consumer if it waits forever (deadlock report)
                if self.state.get(self.CONSUMER) == "blocked":
                    self.error = self.error or Deadlock("no enabled thread")
                    self.state[self.CONSUMER] = "running"
                    self.sems[self.CONSUMER].release()
                return
            if self.error is None:
                self.error = Deadlock(f"no enabled thread at {label}")
            raise self.error
        self.trace.append((label, me, nxt))
        if nxt == me:
            self.state[me] = "running"
            return
        self.state[nxt] = "running"
        self.current = nxt
        self.sems[nxt].release()
        if not finished:
            self.sems[me].acquire()
            if self.dead:
                raise Crash()
            self.state[me] = "running"
            if self.error is not None and me == self.CONSUMER:
                raise self.error

    # -- API used by instrumented code --------------------------------------------------------
    def point(self, tid, label):
        self._handoff(tid, label=label)

    def block_until(self, tid, pred, label):
        self._handoff(tid, blocked_pred=pred, label=label)

    def preemptions(self):
        """number of choices that switched away from a still-runnable running thread"""
        return sum(1 for c, p in zip(self.choices, self.points) if p["running_enabled"] and c != 0)

    def drain(self):
        """Let every remaining thread run to completion (default choices)."""
        while True:
            alive = [t for t, s in self.state.items() if t != self.CONSUMER and s != "done"]
            if not alive:
                return
            self._handoff(self.CONSUMER, blocked_pred=lambda: not any(
                s != "done" for t, s in self.state.items() if t != self.CONSUMER), label="drain")


_tls = threading.local()


class ControlledPool:
    """Reproduces what the cache relies on in multiprocessing.pool.ThreadPool:
    imap(fn, items, chunksize) cuts items into consecutive chunks; one chunk is executed
    sequentially by one worker thread; results are yielded in submission order, a chunk is
    yielded only when complete; an exception inside a chunk aborts the rest of that chunk and is
    raised when the consumer reaches it; other chunks keep running after the consumer left."""

    world = None  # set by World before each request
    unordered = False

    def __init__(self, processes=None):
        self.processes = processes or 10
        self.sched = ControlledPool.world.sched

    def __enter__(self):
        return self

    def __exit__(self, *exc):
        return False

    def _run(self, fn, items, chunksize, unordered):
        sched = self.sched
        world = ControlledPool.world
        items = list(items)
        chunks = [items[i:i + chunksize] for i in range(0, len(items), chunksize)]
        if len(chunks) > self.processes:
            raise AssertionError("more chunks than workers: not modelled")
        results = [None] * len(chunks)
        done = [False] * len(chunks)
        order = []

        def make(ci):
            tid = world.new_tid()

            def body():
                _tls.tid = tid
                out = []
                try:
                    for it in chunks[ci]:
                        sched.point(tid, f"task-start c{ci}")
                        out.append(fn(it))
                    results[ci] = ("ok", out)
                except Crash:
                    results[ci] = ("crash", None)
                    raise
                except Exception as exc:  # noqa
                    results[ci] = ("exc", exc)
                finally:
                    done[ci] = True
                    order.append(ci)

            sched.add_thread(tid, body)

        for ci in range(len(chunks)):
            make(ci)

        def gen():
            if not unordered:
                for ci in range(len(chunks)):
                    sched.block_until(0, lambda ci=ci: done[ci], f"consumer-wait c{ci}")
                    kind, val = results[ci]
                    if kind == "ok":
                        for v in val:
                            yield v
                    elif kind == "exc":
                        raise val
                    else:
                        raise Crash()
            else:
                seen = 0
                while seen < len(chunks):
                    sched.block_until(0, lambda seen=seen: len(order) > seen, f"consumer-wait #{seen}")
                    ci = order[seen]
                    seen += 1
                    kind, val = results[ci]
                    if kind == "ok":
                        for v in val:
                            yield v
                    elif kind == "exc":
                        raise val
                    else:
                        raise Crash()

        return gen()

    def imap(self, fn, items, chunksize=1):
        return self._run(fn, items, chunksize, False)

    def imap_unordered(self, fn, items, chunksize=1):
        return self._run(fn, items, chunksize, True)

    def map(self, fn, items, chunksize=None):
        items = list(items)
        if chunksize is None:
            chunksize, extra = divmod(len(items), self.processes * 4)
            if extra:
                chunksize += 1
        return list(self._run(fn, items, max(1, chunksize), False))


# --------------------------------------------------------------------------------------------
# World
# --------------------------------------------------------------------------------------------
_world_counter = [0]


def fresh_dir():
    _world_counter[0] += 1
    d = os.path.join(SCRATCH_ROOT, "w%d" % _world_counter[0])
    if os.path.exists(d):
        shutil.rmtree(d)
    os.makedirs(d)
    return d


def cleanup_scratch():
    shutil.rmtree(SCRATCH_ROOT, ignore_errors=True)


class CrashSnapshot(Exception):
    def __init__(self, snapshot_dir):
        self.snapshot_dir = snapshot_dir


class World:
    """A real FileCache on a scratch directory, in sequential or controlled-parallel mode."""

    def __init__(self, size_bytes=2500, parallel=False, allow_missing=True, path=None, plan=None,
                 prefix=(), api="object", evict_on_start=False, use_sched=None, relative=False, name="lab"):
        patch_process()
        from ocean_science_utilities.filecache import cache_object

        self.cache_object = cache_object
        self.name = name
        self.path = path or fresh_dir()
        self.abspath = os.path.abspath(self.path)
        if relative:
            # the cache is created with a path relative to the working directory
            os.chdir(os.path.dirname(self.abspath))
            self.path = os.path.basename(self.abspath)
        self.size_gb = size_bytes / 1e9
        self.parallel = parallel
        self.allow_missing = allow_missing
        self.plan = dict(plan or {})
        self.fired = []
        self.log = []
        self.written = []
        self.counters = {}
        self._lock = threading.Lock()
        self.api = api
        self.use_sched = parallel if use_sched is None else use_sched
        self.sched = Scheduler(prefix) if self.use_sched else None
        self._tid = 0
        self.crashed = None
        self.validators = {"v": self._validate}
        self.postprocessors = {"p": self._postprocess}
        if self.use_sched:
            cache_object.ThreadPool = ControlledPool
        ControlledPool.world = self
        self.open(evict_on_start)

    # -- plumbing -----------------------------------------------------------------------------
    def new_tid(self):
        self._tid += 1
        return self._tid

    def next_download_index(self):
        return self.next_index("dl")

    def next_index(self, site):
        with self._lock:
            n = self.counters.get(site, 0)
            self.counters[site] = n + 1
            return n

    def install_plan(self, plan):
        """Install a fault plan; call indices count from now."""
        self.plan = dict(plan)
        self.counters = {}
        self.fired = []

    # scripted directive functions -------------------------------------------------------------
    def _postprocess(self, path):
        n = self.next_index("pp")
        kind = self.plan.get(("pp", n))
        self.log.append(("postprocess", os.path.basename(path), n))
        self.point("pp-enter", n)
        name = base_of(getattr(_tls, "uri", SCHEME + "?"))
        if kind == "pp_raise_before":
            self.fired.append(("pp", n, kind, name))
            raise InjectedIOError("injected failure in post-processing (file untouched)")
        data = read_noatime(path)
        if kind in ("pp_raise_half", "pp_crash_half"):
            with open(path, "wb") as fp:
                fp.write(data[: len(data) // 2] + b"|p")
            stamp(path)
            self.fired.append(("pp", n, kind, name))
            if kind == "pp_crash_half":
                self.crash()
            raise InjectedIOError("injected failure in post-processing (file half rewritten)")
        with open(path, "wb") as fp:
            fp.write(data + b"|pp")
        stamp(path)
        self.point("pp-done", n)
        return None

    def _validate(self, path):
        n = self.next_index("val")
        kind = self.plan.get(("val", n))
        self.log.append(("validate", os.path.basename(path), n))
        if kind == "invalid":
            self.fired.append(("val", n, kind, os.path.basename(path)))
            return False
        if kind == "val_raise":
            self.fired.append(("val", n, kind, os.path.basename(path)))
            raise InjectedIOError("injected failure in validation")
        if kind == "val_raise_eio":
            # a validator that rejects by raising an OSError that carries an errno (I/O error on read)
            import errno

            self.fired.append(("val", n, kind, os.path.basename(path)))
            raise OSError(errno.EIO, "injected I/O error while validating")
        # like a real validator: open the file (IOError if it is gone) and accept it only if it holds one of the
        # remote objects (optionally post-processed); anything else is a corrupted / foreign file
        data = read_noatime(path)
        if data.endswith(b"|pp"):
            data = data[:-3]
        return any(data == v for v in REMOTE.values())

    def point(self, label, n):
        if self.sched is None:
            return
        tid = getattr(_tls, "tid", None)
        if tid is None:
            # the consumer (the thread that issues requests): a scheduling point only matters while
            # orphaned pool threads of an earlier, failed request are still alive
            if any(s != "done" for t, s in self.sched.state.items() if t != 0):
                self.sched.point(0, f"{label} d{n}")
            return
        self.sched.point(tid, f"{label} d{n}")

    def crash(self):
        """Process death: the directory as it is *now* is what a restarted process finds."""
        snap = fresh_dir()
        shutil.rmtree(snap)
        # the time stamps are taken BEFORE copying: reading a file to copy it moves its access time
        stamps = {}
        for root, _, files in os.walk(self.path):
            for f in files:
                st = os.stat(os.path.join(root, f))
                stamps[os.path.relpath(os.path.join(root, f), self.path)] = (st.st_atime, st.st_mtime)
        shutil.copytree(self.path, snap)
        for rel, times in stamps.items():
            if os.path.exists(os.path.join(snap, rel)):
                _real_utime(os.path.join(snap, rel), times)
        self.crashed = snap
        if self.sched is not None:
            self.sched.kill()
        raise Crash()

    def open(self, evict_on_start=False):
        co = self.cache_object
        ControlledPool.world = self
        if self.api == "object":
            self.cache = co.FileCache(
                self.path, size_GB=self.size_gb, do_cache_eviction_on_startup=evict_on_start,
                resources=[ScriptedResource(self), ScriptedResource(self, ALT_SCHEME)], parallel=self.parallel,
                allow_for_missing_files=self.allow_missing,
            )
        else:
            from ocean_science_utilities.filecache import filecache as fc

            fc._ACTIVE_FILE_CACHES.pop(self.name, None)
            fc.create_cache(
                self.name, self.path, cache_size_GB=self.size_gb,
                do_cache_eviction_on_startup=evict_on_start, download_in_parallel=self.parallel,
                resources=[ScriptedResource(self), ScriptedResource(self, ALT_SCHEME)],
            )
            self.cache = fc.get_cache(self.name)
        self.cache.disable_progress_bar = True
        for name, fn in self.validators.items():
            self.cache.set_directive_function("validate", name, fn)
        for name, fn in self.postprocessors.items():
            self.cache.set_directive_function("postprocess", name, fn)

    # -- operations ---------------------------------------------------------------------------
    def get(self, uris):
        ControlledPool.world = self
        start = len(self.log)
        if self.api == "object":
            paths = self.cache[list(uris)]
        else:
            from ocean_science_utilities.filecache import filecache as fc

            paths = fc.filepaths(list(uris), self.name)
        contacted = sorted(e[1] for e in self.log[start:] if e[0] == "download")
        return paths, contacted

    def remove(self, uri):
        if self.api == "object":
            self.cache.remove(uri)
        else:
            from ocean_science_utilities.filecache import filecache as fc

            fc.delete_files(uri, self.name)

    def purge(self):
        if self.api == "object":
            self.cache.purge()
        else:
            from ocean_science_utilities.filecache import filecache as fc

            fc.delete_cache(self.name)
            self.open(False)

    def reopen(self, evict_on_start=False):
        self.open(evict_on_start)

    # -- observation (never perturbs atime) -----------------------------------------------------
    def key_of(self, uri):
        from ocean_science_utilities.filecache.cache_object import parse_directive

        u, _ = parse_directive(uri)
        return "cachefile_" + hashlib.md5(u.encode()).hexdigest() + "_cachefile"

    def disk(self):
        """{filename: (content_id, size, recency)} for every file in the directory (config excluded)"""
        out = {}
        for f in sorted(os.listdir(self.path)):
            p = os.path.join(self.path, f)
            if f == "file_cache_config.json" or not os.path.isfile(p):
                continue
            b = read_noatime(p)
            st = os.stat(p)
            out[f] = (content_id(b), len(b), max(st.st_atime, st.st_mtime), st.st_atime, st.st_mtime)
        return out

    @staticmethod
    def is_cache_name(f):
        return f.startswith("cachefile_") and f.endswith("_cachefile")

    def close(self):
        if self.sched is not None:
            self.sched.kill()
            self.sched.join()
        shutil.rmtree(self.abspath, ignore_errors=True)
        if self.crashed:
            shutil.rmtree(self.crashed, ignore_errors=True)


# --------------------------------------------------------------------------------------------
# Reference model
# --------------------------------------------------------------------------------------------
class Model:
    """uri-key -> (content bytes, last-use class).  Knows nothing about md5 names or stamps."""

    def __init__(self, max_bytes):
        self.files = {}  # uri (directive free, comment included) -> [content, last]
        self.max_bytes = max_bytes
        self.foreign = {}
        self.tick = 0

    def expected_get(self, uris):
        """returns (misses, expected contacted names, expected result uris, contents)"""
        misses = [u for u in uris if u not in self.files]
        contacted = sorted(base_of(u) for u in misses)
        ok = [u for u in uris if u in self.files or base_of(u) in REMOTE]
        return misses, contacted, ok

    def content(self, uri):
        return self.files[uri][0] if uri in self.files else REMOTE[base_of(uri)]
