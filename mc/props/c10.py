"""C10  Roughness lengths satisfy their defining implicit equations.

Engine E1 (product-space enumeration).

Charnock part.  Lattice U (log-spaced in [0.1, 80] m/s) x Charnock constant x viscous constant x
input form {ndarray, 1-d DataArray, 2-d DataArray, python float, 0-d array, 1-element array,
all pairs (U_i, U_j)} x NaN placement {none, every single position}.  The fixed-point solver stops
when *all* elements of the input moved less than its step tolerance in the same iteration, so the
number of iterations an element receives depends on the other elements of the batch: singletons,
pairs and full arrays are therefore all enumerated.  Oracle: independent `math` arithmetic.

Janssen part.  Parametric wind seas (JONSWAP / Pierson-Moskowitz x Hs x fp x mean direction x
directional width x depth x spectral grid) x winds (U10 or friction velocity x direction relative
to the waves).  For every case the balance F(z0) = rho_a u*^2 - tau_total(z0) is scanned on 200
log-spaced z0 in (e^-20, 1) through the public `WindGeneration.stress(..., roughness_length=z0)`;
the returned roughness is held against F only when the scan is completely evaluable and shows
exactly one sign change (the premise of the property).
"""
import math
import traceback

import numpy as np

from mc.common import Collector, make_2d

ID = "C10"
LEVEL = "exploration"
RULE = (
    "Charnock: full product U-lattice (log-spaced in [0.1,80]) x charnock constant x viscous constant x input form "
    "{ndarray, DataArray 1-d, DataArray 2-d, float, 0-d array, 1-element array, every pair (U_i,U_j) of the pair lattice} "
    "x NaN placement {none, each single position}; an element is non-trivial when the solver's first guess (Wu drag law) "
    "does not already satisfy the Charnock equation within the tolerance, i.e. iterations were needed; distinct = distinct "
    "(alpha, viscous constant, U). Janssen: full product grid x shape x Hs x fp x mean direction x width x depth x wind "
    "(U10 or u*) x wind direction relative to the waves (every 30 degrees); a case is non-trivial when the 200-point scan of "
    "the stress balance is evaluable everywhere, shows exactly one sign change and the returned roughness is finite (the "
    "oracle |F(z0)| <= 1e-4 rho u*^2 is then applied); distinct = distinct case tuples."
)
ASSUMPTIONS = [
    "lattice, not continuum: nothing is claimed between lattice points",
    "library defaults: g = 9.81, kappa = 0.4, nu_air = 1.48e-5, rho_air = 1.225, reference height 10 m",
    "the Charnock residual tolerance is the one implied by the solver's documented stop rule (every element moved less "
    "than min(atol, rtol*max(|z|, atol)), atol = rtol = 1e-4, in the last plain iteration), propagated through the "
    "iteration function; for z0 << 1e-4 m this is an absolute 1e-8 m, i.e. coarse in relative terms at very low winds",
    "'single root' is decided on a 200-point log-spaced scan of (e^-20, 1); roots closer than one scan step (0.0995 in "
    "ln z0) are not resolved; a scan with a point at which stress() raises or returns NaN is undecidable and skipped",
    "Janssen roughness is exercised for the ST4 wind input with the WAM tail stress (the only generation term with a "
    "tail parametrisation wired to roughness()), default parameters",
]
REQUIRED_CATEGORIES = [
    "charnock_elements", "charnock_nan_in_nan_out", "charnock_iterations_needed", "charnock_viscous",
    "charnock_monotone_pairs", "charnock_scalar_input", "charnock_dataarray_input", "charnock_histories",
    "charnock_history_prior_call_raised", "janssen_ustar_alias_compared", "tail_cases", "tail_compared",
    "tail_ratio<0.5", "tail_0.5<=ratio<1", "tail_1<=ratio<2", "tail_ratio>=2", "tail_no_critical_height_zero",
    "janssen_cases", "janssen_single_root_checked", "janssen_wind_opposing",
    "janssen_finite_depth", "janssen_ustar_input",
]

# ------------------------------------------------------------------------------------------
# constants of the reference model (library defaults, restated - not imported)
# ------------------------------------------------------------------------------------------
G = 9.81
KAPPA = 0.4
NU_AIR = 1.48e-5
RHO_AIR = 1.225
ZREF = 10.0
FP_ATOL = 1e-4  # tools.solvers.Configuration defaults
FP_RTOL = 1e-4


# ------------------------------------------------------------------------------------------
# Charnock reference
# ------------------------------------------------------------------------------------------
def ch_rhs(z, U, alpha, cvisc):
    """alpha u*^2/g + c nu/u* with u* = kappa U / ln(10/z)  (plain math)."""
    us = KAPPA * U / math.log(ZREF / z)
    r = alpha * us * us / G
    if cvisc != 0.0:
        r += cvisc * NU_AIR / us
    return r


def ch_step_bound(z):
    """largest last step the stop rule admits for an iterate near z (p within 1e-4 relative of z)."""
    return 1.001 * min(FP_ATOL, FP_RTOL * max(abs(z), FP_ATOL))


def ch_tolerance(z, U, alpha, cvisc):
    """The returned z is F(p) for a previous iterate p with |z-p| < step bound, hence
    |F(z) - z| = |F(z) - F(p)| <= sup over admissible p of |F(z) - F(p)|.  The supremum is evaluated
    on a 65-point grid of the admissible interval (F is smooth with at most one extremum there)."""
    s = ch_step_bound(z)
    lo, hi = z - s, z + s
    fz = ch_rhs(z, U, alpha, cvisc)
    sup = 0.0
    if lo <= 0.0:
        if cvisc != 0.0:
            return math.inf  # F unbounded towards 0 with a viscous term (never reached on the lattice)
        sup = abs(fz)  # F(p) -> 0 for p -> 0+
        lo = z * 1e-6
    for i in range(65):
        p = lo + (hi - lo) * i / 64.0
        if p <= 0.0 or p >= ZREF:
            continue
        sup = max(sup, abs(fz - ch_rhs(p, U, alpha, cvisc)))
    return sup * (1.0 + 1e-9) + 1e-300


def wu_guess(U):
    return ZREF / math.exp(KAPPA / math.sqrt((0.8 + 0.065 * U) / 1000.0))


def charnock_lattice(tier):
    n = 40 if tier == "quick" else 120
    return [math.exp(math.log(0.1) + (math.log(80.0) - math.log(0.1)) * i / (n - 1)) for i in range(n)]


def charnock_pair_lattice(tier):
    U = [math.exp(math.log(0.1) + (math.log(80.0) - math.log(0.1)) * i / 39) for i in range(40)]
    return U[::4] + [U[-1]] if tier == "quick" else U


ALPHAS = {"quick": [0.005, 0.012, 0.04], "thorough": [0.005, 0.0085, 0.012, 0.0185, 0.025, 0.04]}
VISCS = {"quick": [0.0, 0.11], "thorough": [0.0, 0.11, 0.5]}


def run_charnock(unit):
    import xarray
    from ocean_science_utilities.wavephysics.roughness import (
        charnock_roughness_length_from_u10 as zfun,
        drag_coefficient_charnock as cdfun,
    )

    c = Collector()
    alpha, cvisc, tier = unit["alpha"], unit["visc"], unit["tier"]
    U = charnock_lattice(tier)
    n = len(U)
    stats = {"max_rel_residual": 0.0, "max_residual_over_tol": 0.0}

    def tb():
        return traceback.format_exc()[-1500:]

    def check_call(form, values, build, nanpos):
        """values: list of floats (NaN allowed); build(values) -> library input."""
        key0 = {"part": "charnock", "alpha": alpha, "visc": cvisc, "form": form, "nan_at": nanpos}
        try:
            z = zfun(build(values), charnock_constant=alpha, viscous_constant=cvisc)
            cd = cdfun(build(values), charnock_constant=alpha, viscous_constant=cvisc)
        except Exception as exc:  # noqa
            c.violation(dict(key0, check="raises", n=len(values)),
                        f"Charnock roughness raised {type(exc).__name__}: {exc} (form={form}, n={len(values)})",
                        traceback=tb(), U=values[:8])
            return None
        want_shape = np.shape(build(values))
        zv = np.asarray(getattr(z, "values", z), dtype=float)
        cv = np.asarray(getattr(cd, "values", cd), dtype=float)
        if zv.shape != want_shape or cv.shape != want_shape:
            c.violation(dict(key0, check="shape", n=len(values)),
                        f"result shape {zv.shape}/{cv.shape} for input shape {want_shape} (form={form})")
            return None
        zf, cf = zv.ravel(), cv.ravel()
        for i, u in enumerate(values):
            c.evaluations += 1
            c.cat("charnock_elements")
            key = dict(key0, U=u, check=None)
            if u != u:
                c.cat("charnock_nan_in_nan_out")
                if not (zf[i] != zf[i] and cf[i] != cf[i]):
                    key["check"] = "nan_in"
                    c.violation(key, f"missing wind speed gave z0={zf[i]!r}, Cd={cf[i]!r} (form={form}, position {i})")
                continue
            zi = float(zf[i])
            if not (math.isfinite(zi) and 0.0 < zi < ZREF):
                key["check"] = "z0_missing_or_not_positive"
                c.violation(key, f"z0={zi!r} for U={u:.6g} (form={form}, nan_at={nanpos})", z0=zi)
                continue
            res = abs(ch_rhs(zi, u, alpha, cvisc) - zi)
            tol = ch_tolerance(zi, u, alpha, cvisc)
            stats["max_rel_residual"] = max(stats["max_rel_residual"], res / zi)
            if math.isfinite(tol):
                stats["max_residual_over_tol"] = max(stats["max_residual_over_tol"], res / tol)
            if tol > 1e-3 * zi:
                c.cat("charnock_tolerance_coarser_than_1e-3_relative")
            if not res <= tol:
                key["check"] = "implicit_equation"
                c.violation(key, f"|z0 - (alpha u*^2/g + c nu/u*)| = {res:.3e} > {tol:.3e} at U={u:.6g}, z0={zi:.6e} "
                                 f"(form={form}, nan_at={nanpos})", z0=zi, residual=res, tolerance=tol, relative=res / zi)
            cref = (KAPPA / math.log(ZREF / zi)) ** 2
            if not abs(float(cf[i]) - cref) <= 1e-12 * cref:
                key["check"] = "drag_coefficient"
                c.violation(key, f"Cd={cf[i]!r} != (kappa/ln(10/z0))^2={cref!r} at U={u:.6g} (form={form})", z0=zi)
        # monotone without the viscous term, along the finite elements of this call
        if cvisc == 0.0:
            idx = [i for i, u in enumerate(values) if u == u and math.isfinite(zf[i]) and math.isfinite(cf[i])]
            for a, b in zip(idx[:-1], idx[1:]):
                if not values[b] > values[a]:
                    continue
                c.cat("charnock_monotone_pairs")
                if not (zf[b] > zf[a] and cf[b] > cf[a]):
                    c.violation(dict(key0, U=values[a], U2=values[b], check="monotone"),
                                f"z0/Cd not increasing from U={values[a]:.6g} to U={values[b]:.6g}: z0 {zf[a]!r}->{zf[b]!r}, "
                                f"Cd {cf[a]!r}->{cf[b]!r} (form={form})")
        return zf

    forms = {
        "ndarray": lambda v: np.array(v, dtype=float),
        "dataarray": lambda v: xarray.DataArray(np.array(v, dtype=float), dims=("x",)),
        "dataarray2d": lambda v: xarray.DataArray(np.array(v, dtype=float).reshape(-1, 8), dims=("a", "b")),
    }
    nan = float("nan")
    for form, build in forms.items():
        if "dataarray" in form:
            c.cat("charnock_dataarray_input", n)
        check_call(form, list(U), build, None)
        for k in range(n):
            vals = list(U)
            vals[k] = nan
            check_call(form, vals, build, k)
        c.case({"form": form, "n": n})

    # singletons: python float, 0-d array, 1-element array (+ the missing value alone)
    scalar_forms = {
        "float": lambda v: float(v[0]),
        "0d": lambda v: np.array(float(v[0])),
        "1el": lambda v: np.array([float(v[0])]),
    }
    for form, build in scalar_forms.items():
        zs = []
        for u in U:
            c.cat("charnock_scalar_input")
            zf = check_call(form, [u], build, None)
            zs.append(float(zf[0]) if zf is not None else nan)
        check_call(form, [nan], build, 0)
        if cvisc == 0.0:
            for a in range(n - 1):
                if zs[a] == zs[a] and zs[a + 1] == zs[a + 1]:
                    c.cat("charnock_monotone_pairs")
                    if not zs[a + 1] > zs[a]:
                        c.violation({"part": "charnock", "alpha": alpha, "visc": cvisc, "form": form, "U": U[a],
                                     "U2": U[a + 1], "check": "monotone"},
                                    f"singleton z0 not increasing from U={U[a]:.6g} to {U[a + 1]:.6g}: {zs[a]!r}->{zs[a + 1]!r}")
        c.case({"form": form, "n": n})

    # all pairs of the pair lattice (the coupling of elements through the common stop rule)
    P = charnock_pair_lattice(tier)
    for i in range(len(P)):
        for j in range(i + 1, len(P)):
            check_call("pair", [P[i], P[j]], forms["ndarray"], None)
            check_call("pair", [P[j], P[i]], forms["ndarray"], None)
    c.case({"pairs": len(P)})

    # histories: the solver keeps module state (a recursion-depth counter that is not restored when an exception
    # leaves it); every ordered sequence of <= 2 prior calls from the alphabet below is followed by the reduced
    # lattice (array and singletons) with the same oracle.  Prior calls may raise - that is their purpose.
    from ocean_science_utilities.tools.solvers import Configuration

    def prior(kind):
        try:
            if kind == "empty_array":
                zfun(np.array([]), charnock_constant=alpha, viscous_constant=cvisc)
            elif kind == "empty_dataarray":
                zfun(xarray.DataArray(np.array([]), dims=("x",)), charnock_constant=alpha, viscous_constant=cvisc)
            elif kind == "not_converged_error":
                zfun(np.array([0.5, 30.0]), charnock_constant=alpha, viscous_constant=cvisc,
                     configuration=Configuration(max_iter=1, error_if_not_converged=True))
            elif kind == "wrong_type":
                zfun("ten", charnock_constant=alpha, viscous_constant=cvisc)
            elif kind == "normal":
                zfun(np.array([7.0, 21.0]), charnock_constant=alpha, viscous_constant=cvisc)
        except Exception:  # noqa
            c.cat("charnock_history_prior_call_raised")

    KINDS = ["empty_array", "empty_dataarray", "not_converged_error", "wrong_type", "normal"]
    Ured = U[:: max(1, n // 10)]
    histories = [()] + [(a,) for a in KINDS] + [(a, b) for a in KINDS for b in KINDS]
    for hist in histories:
        for k in hist:
            prior(k)
        tag = "after[" + ",".join(hist) + "]"
        c.cat("charnock_histories")
        check_call(tag + ":ndarray", list(Ured), forms["ndarray"], None)
        for u in Ured:
            check_call(tag + ":float", [u], scalar_forms["float"], None)
    c.case({"histories": len(histories), "n": len(Ured)})

    for u in U:
        g = wu_guess(u)
        if abs(ch_rhs(g, u, alpha, cvisc) - g) > ch_tolerance(g, u, alpha, cvisc):
            c.nontriv((alpha, cvisc, round(u, 12)))
    c.cat("charnock_iterations_needed", len(c.nontrivial))
    if cvisc != 0.0:
        c.cat("charnock_viscous", n)
    c.sample({"part": "charnock", "alpha": alpha, "visc": cvisc, "U": U[n // 2],
              "max_relative_residual": stats["max_rel_residual"],
              "max_residual_over_tolerance": stats["max_residual_over_tol"]})
    r = c.result()
    r["stats"] = {"charnock_max_relative_residual": stats["max_rel_residual"],
                  "charnock_max_residual_over_tolerance": stats["max_residual_over_tol"]}
    return r


# ------------------------------------------------------------------------------------------
# Janssen part: inputs
# ------------------------------------------------------------------------------------------
GRIDS = {
    "g12x16": (0.04, 0.6, 12, 16),
    "g20x24": (0.04, 0.6, 20, 24),
}
HS = [0.5, 2.0, 5.0]
FP = [0.08, 0.15, 0.3]
WIDTHS = [15.0, 40.0]
DEPTHS = [float("inf"), 20.0, 5.0]
# C08 winds; u* = 2 and 2.5 m/s are added because stress() is not evaluable on all of (e^-20, 1) for u* < 1.66 m/s or
# U10 < 9.6 m/s (the WAM tail-stress Newton solve raises when z0 g/u*^2 > 3.58), so that those winds never
# have a decidable premise; the thorough tier adds U10 = 15 and 30 m/s for the same reason.
U10S = {"quick": [1.0, 5.0, 10.0, 20.0, 40.0], "thorough": [1.0, 5.0, 10.0, 15.0, 20.0, 30.0, 40.0]}
USTARS = [0.1, 0.5, 1.5, 2.0, 2.5]
OFFSETS = [30.0 * k for k in range(12)]
NSCAN = 200
LOGZ = np.linspace(-20.0, 0.0, NSCAN + 2)[1:-1]


def grid_axes(g):
    f0, f1, nf, nd = GRIDS[g]
    f = np.exp(np.linspace(np.log(f0), np.log(f1), nf))
    d = np.arange(nd) * 360.0 / nd
    return f, d


def frequency_shape(shape, f, fp, hs):
    m0 = (hs / 4.0) ** 2
    pm = f ** -5 * np.exp(-1.25 * (fp / f) ** 4)
    if shape == "pm":
        return 5.0 * m0 * fp ** 4 * pm
    gamma = 3.3
    sig = np.where(f <= fp, 0.07, 0.09)
    pe = gamma ** np.exp(-0.5 * ((f / fp - 1.0) / sig) ** 2)
    # JONSWAP with the Yamaguchi normalisation of the total variance
    return m0 * fp ** 4 * pm * pe / (0.06533 * gamma ** 0.8015 + 0.13467)


def raised_cosine(d, mean, width):
    p = 4.0 / ((math.pi * width / 90.0) ** 2) - 2.0
    norm = math.pi / 180.0 * math.gamma(p / 2 + 1) / (math.gamma(p / 2 + 0.5) * math.sqrt(math.pi))
    a = (d - mean + 180.0) % 360.0 - 180.0
    return np.where(np.abs(a) <= 90.0, norm * np.abs(np.cos(np.radians(a))) ** p, 0.0)


def janssen_axes(tier):
    if tier == "quick":
        return {"grids": ["g20x24"], "shapes": ["jonswap"], "means": [45.0]}
    # mean directions: two on the direction grids (rotated copies of each other up to rounding, C09) and two off the
    # grids (asymmetric discretisation of the directional distribution)
    return {"grids": ["g12x16", "g20x24"], "shapes": ["jonswap", "pm"], "means": [0.0, 45.0, 100.0, 235.0]}


def units(tier):
    us = []
    for a in ALPHAS[tier]:
        for v in VISCS[tier]:
            us.append({"name": f"charnock:alpha={a}:visc={v}", "kind": "charnock", "alpha": a, "visc": v, "cost": 1})
    ax = janssen_axes(tier)
    for g in ax["grids"]:
        for dep in ([float("inf")] if tier == "quick" else DEPTHS):
            us.append({"name": f"tail:{g}:depth={dep}", "kind": "tail", "grid": g, "depth": dep, "shapes": ax["shapes"],
                       "mean": 45.0, "width": 40.0, "cost": 20})
    for g in ax["grids"]:
        for sh in ax["shapes"]:
            for dep in DEPTHS:
                for w in WIDTHS:
                    # thorough: one unit per Hs as well, so that 16 workers stay evenly loaded (numba compiles
                    # the stress chain once per worker process, ~25 s, not once per unit)
                    for hs_set in ([HS] if tier == "quick" else [[h] for h in HS]):
                        tag = "" if tier == "quick" else f":hs={hs_set[0]}"
                        us.append({"name": f"janssen:{g}:{sh}:depth={dep}:width={w}{tag}", "kind": "janssen", "grid": g,
                                   "shape": sh, "depth": dep, "width": w, "means": ax["means"], "hs": hs_set,
                                   "cost": 50})
    return us


def count_sign_changes(v):
    s = np.sign(v)
    return int(np.sum(s[1:] * s[:-1] < 0))


def run_janssen(unit):
    import xarray
    from ocean_science_utilities.wavephysics.balance.factory import create_balance
    from ocean_science_utilities.wavephysics.roughness import janssen_roughness_length

    c = Collector()
    g, shape, depth, width = unit["grid"], unit["shape"], float(unit["depth"]), unit["width"]  # "inf" after a replay
    dkey = "inf" if math.isinf(depth) else depth  # json-friendly, matchable from KNOWN_FINDINGS.json
    f, d = grid_axes(g)
    balance = create_balance("st4", "st4")
    gen = balance.generation
    zscan = np.exp(LOGZ)
    worst = 0.0

    for hs in unit["hs"]:
        for fp in FP:
            for mean in unit["means"]:
                E = frequency_shape(shape, f, fp, hs)[:, None] * raised_cosine(d, mean, width)[None, :]
                s1 = make_2d(f, d, E[None], depth=depth)
                sN = make_2d(f, d, np.broadcast_to(E, (NSCAN,) + E.shape).copy(), depth=depth)

                def da(spec, x):
                    return xarray.DataArray(np.asarray(x, dtype=float), dims=spec.dims_space_time,
                                            coords=spec.coords_space_time)

                # input-type alphabet {"u10", "friction_velocity", "ustar"}: "ustar" is the documented alias of
                # "friction_velocity" (TWindInputType) and must give the identical roughness
                winds = ([("u10", u) for u in U10S[unit["tier"]]] + [("friction_velocity", u) for u in USTARS]
                         + [("ustar", u) for u in USTARS])
                z_fv = {}
                for wtype, w in winds:
                    # the balance is evaluated with stress(..., "u10" / "friction_velocity"), never through the alias
                    stype = "u10" if wtype == "u10" else "friction_velocity"
                    for off in OFFSETS:
                        wd = (mean + off) % 360.0
                        key = {"part": "janssen", "grid": g, "shape": shape, "hs": hs, "fp": fp, "mean": mean,
                               "width": width, "depth": dkey, "wind_type": wtype, "wind": w, "offset": off}
                        c.evaluations += 1
                        c.cat("janssen_cases")
                        c.case([hs, fp, mean, wtype, w, off])
                        try:
                            if wtype in ("u10", "ustar"):
                                z = gen.roughness(da(s1, [w]), da(s1, [wd]), s1, wind_speed_input_type=wtype)
                            else:
                                z = janssen_roughness_length(da(s1, [w]), s1, balance, da(s1, [wd]))
                            z = float(np.asarray(z.values).ravel()[0])
                        except Exception as exc:  # noqa
                            c.violation(dict(key, check="raises"),
                                        f"Janssen roughness raised {type(exc).__name__}: {exc}",
                                        traceback=traceback.format_exc()[-1500:])
                            continue
                        if wtype == "friction_velocity":
                            z_fv[(w, off)] = z
                        elif wtype == "ustar":
                            c.cat("janssen_ustar_alias_compared")
                            zf = z_fv.get((w, off))
                            if zf is not None and not (z == zf or (z != z and zf != zf)):
                                c.violation(dict(key, check="ustar_alias"),
                                            f'roughness for wind_speed_input_type="ustar" is {z!r} but {zf!r} for '
                                            f'"friction_velocity" (documented aliases) [{shape} Hs={hs} fp={fp} mean={mean} '
                                            f"width={width} depth={depth} u*={w} offset={off}]", z0_ustar=z, z0_friction_velocity=zf)
                        if z != z:
                            c.cat("janssen_result_missing")
                            continue
                        if not (math.isfinite(z) and z > 0.0):
                            c.violation(dict(key, check="positive"), f"Janssen roughness {z!r} is neither NaN nor a positive length")
                            continue
                        c.cat("janssen_result_positive")

                        def ustar2(z0):
                            return (KAPPA * w / np.log(ZREF / z0)) ** 2 if wtype == "u10" else np.full(np.shape(z0), w * w)

                        # independent scan of the balance (all 200 points in one stacked call: the library
                        # evaluates them one after another; an exception means one point is not evaluable)
                        try:
                            st = gen.stress(sN, da(sN, np.full(NSCAN, w)), da(sN, np.full(NSCAN, wd)),
                                            roughness_length=da(sN, zscan), wind_speed_input_type=stype)
                            tau = np.asarray(st["stress"].values, dtype=float)
                        except Exception:  # noqa
                            c.cat("janssen_scan_not_evaluable")
                            continue
                        F = RHO_AIR * ustar2(zscan) - tau
                        if not np.all(np.isfinite(F)) or np.any(F == 0.0):
                            c.cat("janssen_scan_not_evaluable")
                            continue
                        nsc = count_sign_changes(F)
                        if nsc != 1:
                            c.cat("janssen_scan_no_sign_change" if nsc == 0 else "janssen_scan_several_sign_changes")
                            continue
                        try:
                            st = gen.stress(s1, da(s1, [w]), da(s1, [wd]), roughness_length=da(s1, [z]),
                                            wind_speed_input_type=stype)
                            tz = float(np.asarray(st["stress"].values).ravel()[0])
                        except Exception:  # noqa
                            c.cat("janssen_returned_value_not_evaluable")
                            continue
                        if tz != tz:
                            c.cat("janssen_returned_value_not_evaluable")
                            continue
                        ref = RHO_AIR * float(ustar2(np.float64(z)))
                        res = abs(ref - tz) / ref
                        c.cat("janssen_single_root_checked")
                        c.cat(f"janssen_checked:{wtype}={w:g}")
                        c.nontriv((g, shape, hs, fp, mean, width, depth, wtype, w, off))
                        if 90.0 < off < 270.0:
                            c.cat("janssen_wind_opposing")
                        if math.isfinite(depth):
                            c.cat("janssen_finite_depth")
                        if wtype != "u10":
                            c.cat("janssen_ustar_input")
                        worst = max(worst, res) if res <= 1e-4 else worst
                        if not res <= 1e-4:
                            i = int(np.nonzero(np.sign(F[1:]) * np.sign(F[:-1]) < 0)[0][0])
                            c.violation(
                                dict(key, check="balance"),
                                f"Janssen roughness z0={z:.6e} misses rho u*^2 = tau(z0) by {res:.3g} (relative) although the "
                                f"scan has a single sign change between z0={zscan[i]:.4e} and {zscan[i + 1]:.4e} "
                                f"[{shape} Hs={hs} fp={fp} mean={mean} width={width} depth={depth} {wtype}={w} offset={off}]",
                                z0=z, rho_ustar2=ref, tau=tz, relative_residual=res,
                                root_between=[float(zscan[i]), float(zscan[i + 1])],
                                returned_is_first_guess=bool(wtype == "u10" and abs(z - wu_guess(w)) <= 1e-9 * z),
                            )
                if len(c.samples) < 1:
                    c.sample({"part": "janssen", "grid": g, "shape": shape, "hs": hs, "fp": fp, "mean": mean,
                              "width": width, "depth": dkey})
    r = c.result()
    r["stats"] = {"janssen_max_accepted_relative_residual": worst}
    return r


def finalize(coverage, results, tier):
    agg = {}
    for r in results:
        for k, v in (r.get("stats") or {}).items():
            agg[k] = max(agg.get(k, 0.0), float(v))
    coverage.update(agg)


# ------------------------------------------------------------------------------------------
# WAM tail stress: independent transcription (IFS documentation Cy47r1 part VII ch. 5, as restated in the
# docstrings of wam_tail_stress.py; plain numpy/math, nothing imported from the library)
# ------------------------------------------------------------------------------------------
BETAMAX = 1.52
ZALPHA = 0.006
CHARNOCK_ST4 = 0.01
TAIL_USTAR = [0.26, 0.65, 1.0, 1.3, 1.6, 2.0, 2.4, 2.6, 2.8, 3.2, 4.0, 5.2, 6.5, 7.8]   # u* w_max/g = 0.1 ... 3 at 0.6 Hz
TAIL_U10 = [5.0, 10.0, 20.0, 33.0, 45.0, 60.0, 80.0]
TAIL_Z0 = [1e-5, 1e-4, 1e-3, 1e-2, 5e-2, 2e-1]


def log_z(x, ceff):
    return math.log(ceff) + 2.0 * x + KAPPA / (math.exp(x) + ZALPHA)


def boole(x0, ceff):
    v = []
    for t in (1.0, 0.75, 0.5, 0.25, 0.0):
        h = log_z(x0 * t, ceff)
        v.append(h ** 4 * math.exp(h))
    return 2.0 / 45.0 * (-x0 / 4.0) * (7 * v[0] + 32 * v[1] + 12 * v[2] + 32 * v[3] + 7 * v[4])


def tail_frequency_integral(lower_bound, ceff):
    """(integral, tolerance, status).  x0 = first zero of log Z on (-10, 0) (the library finds it with a Newton
    solve that stops on a 1e-4 step; the tolerance propagates an x0 error of 2e-4 through Boole's rule), clamped
    to ln(lower_bound); 0 if the integration interval is empty or log Z has no zero (Z >= 1 everywhere)."""
    # stationary points of log Z: 2 (y + a)^2 = kappa y, y = e^x
    disc = (KAPPA - 4 * ZALPHA) ** 2 - 16 * ZALPHA ** 2
    if disc <= 0:
        return 0.0, 0.0, "not_comparable"
    ymin = ((KAPPA - 4 * ZALPHA) + math.sqrt(disc)) / 4.0
    ymax = ((KAPPA - 4 * ZALPHA) - math.sqrt(disc)) / 4.0
    xmin, xmax = math.log(ymin), math.log(ymax)
    if log_z(xmin, ceff) > 0.0:
        return 0.0, 0.0, "no_zero"
    if not (log_z(xmax, ceff) > 0.0 and xmax > -10.0):
        return 0.0, 0.0, "not_comparable"
    a, b = xmax, xmin   # log Z decreases from > 0 to <= 0
    for _ in range(200):
        m = 0.5 * (a + b)
        if log_z(m, ceff) > 0:
            a = m
        else:
            b = m
    x0 = 0.5 * (a + b)
    llb = math.log(lower_bound)
    if llb > x0 + 2e-4:
        if llb > 0.0:
            return 0.0, 0.0, "empty_interval"
        return boole(llb, ceff), 0.0, "clamped"
    if llb > x0 - 2e-4:
        return 0.0, 0.0, "not_comparable"   # clamp decision within the solver tolerance
    i0 = boole(x0, ceff)
    tol = max(abs(boole(x0 + 2e-4, ceff) - i0), abs(boole(x0 - 2e-4, ceff) - i0))
    return i0, tol, "zero"


def run_tail(unit):
    import xarray
    from ocean_science_utilities.wavephysics.balance.factory import create_wind_source_term

    c = Collector()
    c.MAX_LISTED = 5000
    g = unit["grid"]
    f, d = grid_axes(g)
    nd = len(d)
    dd = 360.0 / nd
    wmax = 2 * math.pi * f[-1]
    gen = create_wind_source_term("st4")
    depth = float(unit["depth"])
    dkey = "inf" if math.isinf(depth) else depth
    winds = [("friction_velocity", u) for u in TAIL_USTAR] + [("ustar", u) for u in TAIL_USTAR[::3]] \
        + [("u10", u) for u in TAIL_U10]
    combos = [(wt, w, z0, off) for wt, w in winds for z0 in TAIL_Z0 for off in OFFSETS]
    worst = 0.0
    for shape in unit["shapes"]:
        for hs in HS:
            for fp in FP:
                mean, width = unit["mean"], unit["width"]
                E = frequency_shape(shape, f, fp, hs)[:, None] * raised_cosine(d, mean, width)[None, :]
                for wt in ("friction_velocity", "ustar", "u10"):
                    cs = [x for x in combos if x[0] == wt]
                    n = len(cs)
                    sN = make_2d(f, d, np.broadcast_to(E, (n,) + E.shape).copy(), depth=depth)

                    def da(x):
                        return xarray.DataArray(np.asarray(x, dtype=float), dims=sN.dims_space_time,
                                                coords=sN.coords_space_time)

                    wd = np.array([(mean + x[3]) % 360.0 for x in cs])
                    try:
                        r = gen.tail_stress(sN, da([x[1] for x in cs]), da(wd), roughness_length=da([x[2] for x in cs]),
                                            wind_speed_input_type=wt)
                        lib = np.asarray(r["stress"].values, dtype=float)
                    except Exception as exc:  # noqa
                        c.violation({"part": "tail", "grid": g, "shape": shape, "hs": hs, "fp": fp, "depth": dkey,
                                     "wind_type": wt, "check": "raises"},
                                    f"tail_stress raised {type(exc).__name__}: {exc}", traceback=traceback.format_exc()[-1200:])
                        continue
                    for k, (_, w, z0, off) in enumerate(cs):
                        c.evaluations += 1
                        c.cat("tail_cases")
                        c.case([shape, hs, fp, wt, w, z0, off])
                        us = KAPPA * w / math.log(ZREF / z0) if wt == "u10" else w
                        ratio = us * wmax / G
                        c.cat("tail_ratio<0.5" if ratio < 0.5 else "tail_0.5<=ratio<1" if ratio < 1 else
                              "tail_1<=ratio<2" if ratio < 2 else "tail_ratio>=2")
                        ceff = z0 * G / us ** 2
                        integ, tol, status = tail_frequency_integral(ratio, ceff)
                        if status == "not_comparable":
                            c.cat("tail_not_comparable")
                            continue
                        if status == "no_zero":
                            c.cat("tail_no_critical_height_zero")
                        cosm = np.cos(np.radians(d - wd[k]))
                        m = cosm > 0.0
                        de = float(np.sum((cosm ** 2 * np.cos(np.radians(d)) * E[-1, :] * dd)[m]))
                        dn = float(np.sum((cosm ** 2 * np.sin(np.radians(d)) * E[-1, :] * dd)[m]))
                        const = wmax ** 5 / (2 * math.pi * G ** 2) * us ** 2 * BETAMAX / KAPPA ** 2 * RHO_AIR
                        bg = (us ** 2 / G * CHARNOCK_ST4) ** 2 / z0 ** 2 * RHO_AIR * us ** 2
                        cw, sw = math.cos(math.radians(wd[k])), math.sin(math.radians(wd[k]))

                        def mag(i):
                            return math.hypot(de * i * const + cw * bg, dn * i * const + sw * bg)

                        ref = mag(integ)
                        t = max(abs(mag(integ + tol) - ref), abs(mag(integ - tol) - ref)) + 1e-9 * (ref + abs(integ) * const * math.hypot(de, dn))
                        c.cat("tail_compared")
                        key = {"part": "tail", "grid": g, "shape": shape, "hs": hs, "fp": fp, "depth": dkey, "mean": mean,
                               "width": width, "wind_type": wt, "wind": w, "z0": z0, "offset": off, "critical_height": status}
                        if integ < 0:
                            c.violation(dict(key, check="harness"), "reference tail integral negative")
                        c.nontriv((g, shape, hs, fp, wt, w, z0, off))
                        if not abs(lib[k] - ref) <= t:
                            c.violation(dict(key, check="tail_stress"),
                                        f"tail stress {lib[k]!r} differs from the reference {ref!r} (tolerance {t:.2e}); "
                                        f"u* w_max/g = {ratio:.3g}, frequency integral of the reference {integ:.6g} ({status}) "
                                        f"[{shape} Hs={hs} fp={fp} {wt}={w} z0={z0} offset={off} {g}]",
                                        library=float(lib[k]), reference=ref, ustar=us, ratio=ratio)
                        elif ref > 0:
                            worst = max(worst, abs(lib[k] - ref) / ref)
    c.sample({"part": "tail", "grid": g, "depth": dkey, "u_star_lattice": TAIL_USTAR, "z0_lattice": TAIL_Z0})
    r = c.result()
    r["stats"] = {"tail_max_relative_deviation_from_reference": worst}
    return r


def run_unit(unit):
    if unit["kind"] == "charnock":
        return run_charnock(unit)
    return run_tail(unit) if unit["kind"] == "tail" else run_janssen(unit)
