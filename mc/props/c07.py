"""C07  Wavenumber solver inverts the dispersion relation; group velocity is consistent.

Engine E1 (product-space enumeration).  Alphabet: an (omega, depth) lattice covering
kd from 1e-5 to 1e5 plus infinite depth, evaluated through every call shape of the public
function (scalar/scalar, array with scalar depth, array/array, and one mixed-regime array in
which the solver's np.all convergence test couples all elements), and spectrum objects with
per-point depths {NaN, inf, 5, 50, 5000} in three layouts.  Oracle: independent numpy/math
formulas (no library import).
"""
import math

import numpy as np

from mc.common import Collector, make_1d

ID = "C07"
LEVEL = "exploration"
RULE = (
    "full Cartesian lattice omega (log-spaced in [3e-3,50]) x depth (log-spaced in [1e-2,1e4] plus inf) "
    "x call shape {scalar, array+scalar depth, array+array depth, one mixed-regime array, transposed mixed array}; "
    "plus fine sweeps (one variable in relative steps of 5e-5 quick / 1e-5 thorough across w^2 d/g in [2e-3, 8], six sweeps x "
    "{scalar calls, one array call, array/array call}) for monotonicity below the solver tolerance; "
    "plus spectrum objects x layouts x per-point depth patterns (incl. depths rounding to one metre, sub-metre depths) x four "
    "frequency grids (incl. 4.8e-4..8e-3 Hz); plus every history of length <= 3 over {read wavenumber, "
    "group_velocity, wavelength, wave_speed} and four in-place changes of the depth on one object. A lattice point is non-trivial when the "
    "solver's closed-form first guess does not already satisfy the 1e-3 tolerance (a Newton step is needed); "
    "distinct = distinct (omega, depth) pairs."
)
ASSUMPTIONS = [
    "lattice, not continuum: nothing is claimed between lattice points",
    "g = 9.81 (library default)",
]
REQUIRED_CATEGORIES = ["kd<0.3", "0.3<=kd<=5", "kd>5", "newton_needed", "inf_depth", "spectrum_nan_depth",
                       "history_executed", "history_read_mutate_read"]

G = 9.81
SHAPES = ["scalar", "arr_scalar_depth", "arr_arr", "mixed", "mixed_T"]
# fine sweeps: one variable moves in relative steps of 5e-5 (quick) / 1e-5 (thorough) across the whole
# transition region w^2 d / g in [2e-3, 8] (the solver's first-guess switch, the borders between "n" and "n+1"
# Newton steps and the kd = 5 derivative switch all lie inside), the other variable is fixed.
FINE_SHAPES = ["fine_scalar", "fine_arr_scalar_depth", "fine_arr_arr"]
FINE_SWEEPS = [("w_at_d", 0.5), ("w_at_d", 10.0), ("w_at_d", 200.0), ("d_at_w", 0.3), ("d_at_w", 1.0), ("d_at_w", 3.0)]


def lattice(tier):
    n = 40 if tier == "quick" else 120
    w = np.exp(np.linspace(math.log(3e-3), math.log(50.0), n))
    d = np.concatenate([np.exp(np.linspace(math.log(1e-2), math.log(1e4), n)), [np.inf]])
    return w, d


def units(tier):
    us = [{"name": f"fn:{s}", "kind": "fn", "shape": s} for s in SHAPES]
    for shape in FINE_SHAPES:
        for sw in FINE_SWEEPS:
            us.append({"name": f"fine:{shape}:{sw[0]}{sw[1]:g}", "kind": "fine", "shape": shape, "sweep": list(sw)})
    for layout in ("scalar", "time", "time_lat", "flat"):
        us.append({"name": f"spectrum:{layout}", "kind": "spectrum", "layout": layout})
        us.append({"name": f"history:{layout}", "kind": "history", "layout": layout})
    return us


def disp(k, d):
    with np.errstate(over="ignore", invalid="ignore"):
        return np.sqrt(G * k * np.tanh(k * d))


def first_guess_needs_newton(w, d):
    kdeep = w * w / G
    kshal = w / math.sqrt(G * d) if math.isfinite(d) else 0.0
    k0 = kdeep if w > math.sqrt(G / d) else kshal
    if k0 <= 0:
        return True
    return abs(float(disp(np.float64(k0), d)) - w) / w >= 1e-3


def check_table(c, K, CG, w, d, shape):
    """K, CG: arrays (nd, nw) for the lattice; evaluate all oracles."""
    nd, nw = K.shape
    W = np.broadcast_to(w[None, :], K.shape)
    D = np.broadcast_to(d[:, None], K.shape)
    c.evaluations += K.size

    def viol(mask, what, **extra):
        for i, j in zip(*np.nonzero(mask)):
            c.violation(
                {"shape": shape, "omega": float(w[j]), "depth": float(d[i]), "check": what},
                f"{what} (shape={shape}, omega={w[j]:.6g}, depth={d[i]:.6g}, k={K[i, j]!r})",
                k=float(K[i, j]), cg=float(CG[i, j]), **{n: float(v[i, j]) for n, v in extra.items()},
            )

    bad = ~(np.isfinite(K) & (K > 0))
    viol(bad, "k not positive/finite")
    Ks = np.where(bad, 1.0, K)
    res = np.abs(disp(Ks, D) - W) / W
    viol(~bad & ~(res <= 1e-3), "dispersion residual > 1e-3", residual=res)
    # monotone in omega (strict along the lattice)
    inc = np.zeros_like(bad)
    inc[:, 1:] = ~(Ks[:, 1:] > Ks[:, :-1])
    viol(~bad & inc, "k not increasing in omega")
    # non-increasing in depth within the propagated solver tolerance
    dec = np.zeros_like(bad)
    dec[1:, :] = ~(Ks[1:, :] <= Ks[:-1, :] * (1 + 4e-3))
    viol(~bad & dec, "k increasing with depth")
    # asymptotes
    with np.errstate(over="ignore", invalid="ignore"):
        deep = (W * W * D / G) >= 20
        shallow = (W * np.sqrt(D / G)) <= 0.05
        kd = Ks * D
    e_deep = np.abs(Ks * G / (W * W) - 1)
    viol(~bad & deep & ~(e_deep <= 2.1e-3), "deep-water asymptote", err=e_deep)
    with np.errstate(invalid="ignore", over="ignore"):
        e_sh = np.abs(Ks * np.sqrt(G * np.where(np.isfinite(D), D, 1.0)) / W - 1)
        tol_sh = 2e-3 + np.where(np.isfinite(kd), kd, 0.0) ** 2 / 6
    viol(~bad & shallow & np.isfinite(D) & ~(e_sh <= tol_sh), "shallow-water asymptote", err=e_sh)
    # group velocity against a central difference of the dispersion relation at the returned k
    h = 1e-5 * Ks
    ref_cg = (disp(Ks + h, D) - disp(Ks - h, D)) / (2 * h)
    e_cg = np.abs(CG - ref_cg) / ref_cg
    viol(~bad & ~(e_cg <= 2e-3), "group velocity vs d omega/dk", err=e_cg, ref=ref_cg)
    ratio = CG / (disp(Ks, D) / Ks)
    viol(~bad & ~((ratio >= 0.5 - 1e-9) & (ratio <= 1 + 1e-9)), "cg/c outside [0.5,1]", ratio=ratio)

    c.cat("kd<0.3", int(np.sum(kd < 0.3)))
    c.cat("0.3<=kd<=5", int(np.sum((kd >= 0.3) & (kd <= 5))))
    c.cat("kd>5", int(np.sum(kd > 5)))
    c.cat("inf_depth", int(np.sum(np.isinf(D))))
    c.cat("deep_asymptote_checked", int(np.sum(deep)))
    c.cat("shallow_asymptote_checked", int(np.sum(shallow & np.isfinite(D))))


def run_fn(unit):
    from ocean_science_utilities.wavetheory.lineardispersion import (
        inverse_intrinsic_dispersion_relation as kfun,
        intrinsic_group_velocity as cgfun,
    )

    c = Collector()
    w, d = lattice(unit["tier"])
    shape = unit["shape"]
    nd, nw = len(d), len(w)
    K = np.empty((nd, nw))
    CG = np.empty((nd, nw))
    if shape == "scalar":
        for i in range(nd):
            for j in range(nw):
                k = kfun(float(w[j]), float(d[i]))
                if np.shape(k) != (1,):
                    c.violation({"shape": shape, "check": "return shape"}, f"scalar call returned shape {np.shape(k)}")
                K[i, j] = np.ravel(k)[0]
                CG[i, j] = np.ravel(cgfun(np.array([K[i, j]]), float(d[i])))[0]
    elif shape == "arr_scalar_depth":
        for i in range(nd):
            K[i] = kfun(w.copy(), float(d[i]))
            CG[i] = cgfun(K[i].copy(), float(d[i]))
    elif shape == "arr_arr":
        for i in range(nd):
            dd = np.full(nw, d[i])
            K[i] = kfun(w.copy(), dd)
            CG[i] = cgfun(K[i].copy(), dd)
    elif shape == "mixed":
        W, D = np.meshgrid(w, d)
        K[:] = kfun(W.ravel().copy(), D.ravel().copy()).reshape(nd, nw)
        CG[:] = cgfun(K.ravel().copy(), D.ravel().copy()).reshape(nd, nw)
    elif shape == "mixed_T":
        # 2-d arrays in the other memory order, as spectrum objects pass them
        W, D = np.meshgrid(w, d, indexing="ij")  # (nw, nd)
        K[:] = kfun(W.copy(), D.copy()).T
        CG[:] = cgfun(K.T.copy(), D.copy()).T
    check_table(c, K, CG, w, d, shape)
    for i in range(nd):
        for j in range(nw):
            if first_guess_needs_newton(float(w[j]), float(d[i])):
                c.nontriv((j, i))
    c.cat("newton_needed", len(c.nontrivial))
    c.case({"shape": shape, "nw": nw, "nd": nd, "w0": w[0], "w1": w[-1]})
    c.sample({"shape": shape, "omega": float(w[nw // 3]), "depth": float(d[nd // 3]), "k": float(K[nd // 3, nw // 3]),
              "cg": float(CG[nd // 3, nw // 3])})
    r = c.result()
    if shape != "scalar":
        r["distinct_nontrivial"] = 0  # the same lattice points; counted once (by the scalar unit)
    return r


def run_fine(unit):
    """Monotonicity at a resolution far below the solver tolerance.  Inside ONE array call every element receives
    the same number of Newton steps, so k is a smooth function of (w, d) there and must be strictly increasing in w
    and non-increasing in d at any spacing; across separate scalar calls the number of steps differs (see the
    known finding), which the key records as within_solver_tolerance."""
    from ocean_science_utilities.wavetheory.lineardispersion import inverse_intrinsic_dispersion_relation as kfun

    c = Collector()
    shape = unit["shape"]
    kind, fixed = unit["sweep"]
    step = 5e-5 if unit["tier"] == "quick" else 1e-5
    x = np.exp(np.arange(math.log(2e-3), math.log(8.0), (2.0 if kind == "w_at_d" else 1.0) * step))
    if kind == "w_at_d":
        w = np.sqrt(x * G / fixed)
        d = np.full(len(w), fixed)
    else:
        d = x * G / fixed ** 2
        d = d[d >= 1e-2]
        w = np.full(len(d), fixed)
    if shape == "fine_scalar":
        K = np.array([np.ravel(kfun(float(a), float(b)))[0] for a, b in zip(w, d)])
    elif shape == "fine_arr_scalar_depth":
        if kind == "w_at_d":
            K = np.asarray(kfun(w.copy(), float(fixed)), dtype=float)
        else:
            # a scalar depth cannot sweep the depth: pass the depth array in descending order instead
            K = np.asarray(kfun(w.copy(), d.copy()[::-1].copy()), dtype=float)[::-1]
    else:
        K = np.asarray(kfun(w.copy(), d.copy()), dtype=float)
    c.evaluations += K.size
    key0 = {"shape": shape, "sweep": f"{kind}={fixed:g}"}
    bad = ~(np.isfinite(K) & (K > 0))
    if bad.any():
        i = int(np.argmax(bad))
        c.violation(dict(key0, check="k not positive/finite"), f"k={K[i]!r} at omega={w[i]!r}, depth={d[i]!r}")
        return c.result()
    res = np.abs(disp(K, d) - w) / w
    if not (res <= 1e-3).all():
        i = int(np.argmax(res))
        c.violation(dict(key0, check="dispersion residual > 1e-3"), f"residual {res[i]:.4g} at omega={w[i]!r}, depth={d[i]!r}",
                    omega=float(w[i]), depth=float(d[i]), k=float(K[i]))
    rel = np.diff(K) / K[1:]
    if kind == "w_at_d":
        wrong = rel <= 0
        what = "k not increasing in omega"
    else:
        wrong = rel > 1e-12
        what = "k increasing with depth"
    for within in (True, False):
        m = wrong & ((np.abs(rel) <= 4e-3) == within)
        if m.any():
            i = int(np.argmax(np.where(m, np.abs(rel), 0)))
            c.violation(dict(key0, check=what, within_solver_tolerance=within),
                        f"{what} at relative spacing {step:g}: k({w[i]!r}, {d[i]!r}) = {K[i]!r} but k({w[i + 1]!r}, {d[i + 1]!r}) = "
                        f"{K[i + 1]!r} (relative change {rel[i]:.3g}; {int(m.sum())} such neighbours in this sweep; shape={shape})",
                        omega=[float(w[i]), float(w[i + 1])], depth=[float(d[i]), float(d[i + 1])], k=[float(K[i]), float(K[i + 1])],
                        count=int(m.sum()))
    xx = w * w * d / G
    c.cat("fine_neighbours_checked", int(len(rel)))
    c.cat("fine_transition_region", int(np.sum((xx > 0.05) & (xx < 5))))
    c.nontrivial_count += int(np.sum((xx > 0.05) & (xx < 5))) if shape == "fine_scalar" else 0
    c.case(dict(key0, n=len(K), step=step))
    c.sample(dict(key0, omega=float(w[len(w) // 2]), depth=float(d[len(d) // 2]), k=float(K[len(K) // 2])))
    return c.result()


DEPTH_PATTERNS = [
    [np.nan, np.inf, 5.0, 50.0, 5000.0, 0.5],
    [5000.0, 0.5, np.nan, 5.0, np.inf, 50.0],
    [10.0] * 6,
    [np.inf] * 6,
    [np.nan] * 6,
    # depths that differ but round to the same whole metre (a "one deployment" look-alike), and sub-metre depths
    [20.4, 19.6, 20.0, 20.3, 19.7, 20.1],
    [0.2, 0.3, 0.4, 0.1, 0.45, 0.25],
    [1.6, 2.4, 2.0, np.nan, 1.7, 2.3],
]
FGRIDS = [
    np.array([0.01, 0.02, 0.05, 0.1, 0.2, 0.5, 1.0, 2.0]),
    np.linspace(0.03, 0.6, 12),
    np.array([0.05, 0.3]),
    # the low end of the property's domain (omega = 3e-3 rad/s ... ): even 5 km is shallow here, only inf/NaN is deep
    np.array([4.8e-4, 1e-3, 2e-3, 3e-3, 5e-3, 8e-3]),
]


def run_spectrum(unit):
    c = Collector()
    layout = unit["layout"]
    for gi, f in enumerate(FGRIDS):
        for pi, pat in enumerate(DEPTH_PATTERNS):
            if layout == "scalar":
                cases = [(np.ones(len(f)), dep) for dep in pat]
            elif layout == "time":
                cases = [(np.ones((6, len(f))), np.array(pat))]
            else:
                cases = [(np.ones((3, 2, len(f))), np.array(pat).reshape(3, 2))]
            for E, dep in cases:
                s = make_1d(f, E, depth=dep, flat=(layout == "flat"))
                depv = np.asarray(dep, dtype=float)
                depv = np.where(np.isnan(depv), np.inf, depv)
                if layout == "flat":
                    depv = depv.reshape(-1)
                lead = depv.shape
                names = {
                    "scalar": (), "time": ("time",), "time_lat": ("time", "latitude"), "flat": ("linear_index",),
                }[layout]
                k = s.wavenumber
                cg = s.group_velocity
                wl = s.wavelength
                ws = s.wave_speed()
                key0 = {"layout": layout, "grid": gi, "pattern": pi, "depth": [float(x) for x in np.ravel(dep)]}
                for nm, arr in (("wavenumber", k), ("group_velocity", cg), ("wavelength", wl), ("wave_speed", ws)):
                    if tuple(arr.dims) != names + ("frequency",):
                        c.violation(dict(key0, check=nm + " dims"), f"{nm} dims {arr.dims} != {names + ('frequency',)}")
                    if arr.shape != lead + (len(f),):
                        c.violation(dict(key0, check=nm + " shape"), f"{nm} shape {arr.shape}")
                if k.shape != lead + (len(f),):
                    continue
                W = np.broadcast_to(2 * np.pi * f, k.shape)
                D = np.broadcast_to(depv[..., None], k.shape)
                kv = k.values
                c.evaluations += kv.size
                for idx in np.ndindex(kv.shape):
                    kk, w_, d_ = kv[idx], W[idx], D[idx]
                    key = dict(key0, index=list(idx))
                    if not (np.isfinite(kk) and kk > 0):
                        c.violation(dict(key, check="k positive"), f"spectrum.wavenumber={kk!r}")
                        continue
                    res = abs(float(disp(kk, d_)) - w_) / w_
                    if not res <= 1e-3:
                        c.violation(dict(key, check="residual"), f"spectrum.wavenumber residual {res:.3g} at depth {d_}")
                    h = 1e-5 * kk
                    rcg = (float(disp(kk + h, d_)) - float(disp(kk - h, d_))) / (2 * h)
                    if not abs(cg.values[idx] - rcg) <= 2e-3 * rcg:
                        c.violation(dict(key, check="cg"), f"spectrum.group_velocity {cg.values[idx]!r} vs {rcg!r} depth {d_}")
                    if not abs(wl.values[idx] - 2 * np.pi / kk) <= 1e-12 * wl.values[idx]:
                        c.violation(dict(key, check="wavelength"), "wavelength != 2pi/k")
                    # wave speed is w/k with a k from a separate solve: compare through the dispersion relation
                    cref = float(disp(kk, d_)) / kk
                    if not abs(ws.values[idx] - cref) <= 3e-3 * cref:
                        c.violation(dict(key, check="wave_speed"), f"wave_speed {ws.values[idx]!r} vs {cref!r}")
                    if first_guess_needs_newton(float(w_), float(d_)):
                        c.nontriv((gi, float(w_), float(d_)))
                c.cat("spectrum_nan_depth", int(np.sum(np.isnan(np.asarray(dep, dtype=float)))))
                c.cat("spectrum_inf_depth", int(np.sum(np.isinf(np.asarray(dep, dtype=float)))))
                c.case(key0)
    c.sample({"layout": layout, "grid": FGRIDS[0].tolist(), "depths": [str(x) for x in DEPTH_PATTERNS[0]]})
    r = c.result()
    if layout != "scalar":
        r["distinct_nontrivial"] = 0
    return r


HIST_READS = ["wavenumber", "group_velocity", "wavelength", "wave_speed"]
HIST_MUTATORS = ["setitem_depth", "dataset_depth", "depth_nan", "values_write"]


def run_history(unit):
    """Histories on ONE spectrum object: every sequence of length <= 3 over the read operations and the
    in-place changes of the depth (a result cached on the object would survive them).  After every
    read the result must be the dispersion functions at the depth the object holds *now*."""
    import itertools

    c = Collector()
    layout = unit["layout"]
    f = FGRIDS[0]
    ops = HIST_READS + HIST_MUTATORS
    for n in (1, 2, 3):
        for hist in itertools.product(ops, repeat=n):
            if not any(h in HIST_READS for h in hist):
                continue
            if layout == "scalar":
                s = make_1d(f, np.ones(len(f)), depth=50.0)
            elif layout == "time":
                s = make_1d(f, np.ones((3, len(f))), depth=np.array([5.0, 50.0, np.inf]))
            else:
                s = make_1d(f, np.ones((2, 2, len(f))), depth=np.array([[5.0, 50.0], [np.inf, 0.5]]), flat=(layout == "flat"))
            step = 0
            for h in hist:
                step += 1
                cur = np.asarray(s.dataset["depth"].values, dtype=float)
                if h == "setitem_depth":
                    s["depth"] = s.dataset["depth"] * 0.5 + 1.0
                elif h == "dataset_depth":
                    s.dataset["depth"] = s.dataset["depth"] * 3.0
                elif h == "depth_nan":
                    s.dataset["depth"] = s.dataset["depth"] * np.nan
                elif h == "values_write":
                    new = np.where(np.isfinite(cur), cur + 7.0, 20.0)
                    s.dataset["depth"] = s.dataset["depth"].copy(data=new)
                else:
                    depv = np.asarray(s.dataset["depth"].values, dtype=float)
                    depv = np.where(np.isnan(depv), np.inf, depv)
                    arr = getattr(s, h)
                    arr = arr() if callable(arr) else arr
                    vals = np.asarray(arr.values, dtype=float)
                    W = np.broadcast_to(2 * np.pi * f, vals.shape)
                    D = np.broadcast_to(depv[..., None], vals.shape)
                    c.evaluations += vals.size
                    key = {"family": "history", "layout": layout, "history": list(hist), "step": step, "read": h}
                    for idx in np.ndindex(vals.shape):
                        w_, d_ = float(W[idx]), float(D[idx])
                        if h == "wavenumber":
                            kk = vals[idx]
                        elif h == "wavelength":
                            kk = 2 * np.pi / vals[idx]
                        elif h == "wave_speed":
                            kk = w_ / vals[idx]
                        else:
                            kk = None
                        if kk is not None:
                            ok = np.isfinite(kk) and kk > 0 and abs(float(disp(kk, d_)) - w_) <= 1e-3 * w_
                        else:
                            # group velocity: compare with d omega / dk at the k that solves the relation at d_
                            k0 = w_ * w_ / G if not np.isfinite(d_) else None
                            if k0 is None:
                                lo, hi = 1e-12, max(w_ * w_ / G, w_ / np.sqrt(G * d_)) * 4 + 1.0
                                for _ in range(200):
                                    mid = 0.5 * (lo + hi)
                                    if float(disp(mid, d_)) < w_:
                                        lo = mid
                                    else:
                                        hi = mid
                                k0 = 0.5 * (lo + hi)
                            hh = 1e-5 * k0
                            ref = (float(disp(k0 + hh, d_)) - float(disp(k0 - hh, d_))) / (2 * hh)
                            ok = np.isfinite(vals[idx]) and abs(vals[idx] - ref) <= 4e-3 * ref
                        if not ok:
                            c.violation(key, f"{h} after history {list(hist)[:step]} is not the dispersion function at the "
                                             f"object's current depth {d_!r} (omega {w_:.4g}, got {vals[idx]!r})")
                            break
            c.cat("history_executed")
            if any(hist[i] in HIST_READS and any(m in HIST_MUTATORS for m in hist[i + 1:]) and any(r in HIST_READS for r in hist[i + 2:]) for i in range(len(hist))):
                c.cat("history_read_mutate_read")
                c.nontriv((layout, hist))
            c.case({"layout": layout, "hist": list(hist)})
    c.sample({"family": "history", "layout": layout, "example": ["wavenumber", "setitem_depth", "wavenumber"]})
    return c.result()


def run_unit(unit):
    if unit["kind"] == "fn":
        return run_fn(unit)
    if unit["kind"] == "fine":
        return run_fine(unit)
    if unit["kind"] == "history":
        return run_history(unit)
    return run_spectrum(unit)
