"""C11  Wind inversion closes the source-term balance.

Engine E1 (product-space enumeration).  Alphabet: JONSWAP wind seas on the C08 (Hs, fp) lattice x mean
direction every 45 degrees x depth {inf, 20 m} x spectral grid x source-term pair {st4/st4, st4/st6} x
rate-of-change spectrum {none, +/-10 % of the bulk dissipation inside the forced half plane, +/-10 %
outside it}, inverted through `estimate_u10_from_source_terms` in batches of 1..8 spectra (the members
with exactly zero dissipation, bimodal seas and the empty spectrum are part of the batches; every batch mixes
depths).

Oracle: the balance B(u) = generation.bulk_rate(u, dir) + dissipation.bulk_rate - dE/dt|forced bins is
re-evaluated through the public API (allowed: the property is the consistency of the inversion with
these functions) at u10 and at u10 +- delta/2, +- delta, delta = 0.05 m/s.
"""
import math
import traceback

import numpy as np

from mc.common import Collector, make_2d, angle_diff

ID = "C11"
LEVEL = "exploration"
RULE = (
    "full product grid x (Hs, fp) x mean direction (every 45 deg) x depth x generation/dissipation pair x dE/dt variant, "
    "plus bimodal seas, a seam family (weakly breaking (Hs, fp) lattice x mean direction {0, 90, 180, 270, 0.001, 359.999}) "
    "and a marginal-breaking family (40 Hs values around the onset of breaking x 2 (fp, depth) x 2 directions), the last "
    "two without dE/dt; every member is also inverted with direction iteration; "
    "members are inverted in consecutive batches of 1,2,...,8 spectra. A case is non-trivial when its bulk dissipation is "
    "non-zero and the oracle could be decided: finite result with the reference balance evaluable on [u10-0.05, u10+0.05], "
    "or missing result with the 2..40 m/s root scan decided; distinct = distinct (grid, Hs, fp, direction, depth, pair, "
    "dE/dt variant)."
)
ASSUMPTIONS = [
    "lattice, not continuum: nothing is claimed between lattice points",
    "the reference balance is evaluated through the public generation.roughness/bulk_rate/rate and dissipation.bulk_rate "
    "(roughness solved from the library's default first guess); the forced region of dE/dt is the set of bins with "
    "generation.rate > 0 at the same wind",
    "a reference value is used only where the roughness it is built on satisfies rho u*^2 = tau(z0) to 1e-4 (checked "
    "through generation.stress); where generation.roughness() stalls on a non-root (property C10) the balance is 'not "
    "evaluable'. An open balance is reported only if the stress balance has exactly one root at that wind on a 200-point "
    "scan of (e^-20, 1) (otherwise the inversion may sit on another roughness branch than the reference)",
    "reported direction: compared with dissipation.mean_direction_degrees (1e-9 deg) and with an independent "
    "wavenumber-weighted resultant of the public dissipation.rate field (1e-6 deg in deep water, 0.12 deg at finite "
    "depth = the library's wavenumber tolerance); bimodal members make the weighting observable",
    "harness seam: wind_inversion.ProgressBar is rebound to a context manager yielding None (no updater thread)",
    "delta = 0.05 m/s (five solver step tolerances, DESIGN section C11): a sign change of B on [u10-delta, u10+delta] or "
    "|B(u10)| <= 1e-3 |bulk dissipation| is accepted",
    "non-degeneracy premise: two adjacent points of a 0.5 m/s scan of B over [2, 40] m/s with finite values of opposite "
    "sign, confirmed by bisection down to 1e-3 m/s with |B| <= 0.05 |target| at both ends (excludes jumps of the inner "
    "roughness solution); only then a missing result is a violation",
    "direction iteration (direction_iteration=True, no dE/dt) is exercised for the clauses that still apply: u10 = 0 for "
    "zero dissipation; a finite result closes the balance evaluated AT THE REPORTED DIRECTION (same sign-change oracle); "
    "if the estimate without iteration is finite and the balance at the dissipation direction has a root in 2..40 m/s "
    "the iterated estimate is finite. The reported direction itself is not constrained with iteration",
    "marginal-breaking family: per (fp, depth) the largest Hs with exactly zero public bulk dissipation and the smallest "
    "with non-zero dissipation are located by bisection to adjacent floats; the Hs lattice is hs+(1+x), x in {0, 34 "
    "log-spaced values in [1e-6, 0.32]} and hs-(1-x), x in {1e-12,1e-6,1e-4,1e-2,1e-1}: bulk dissipation from exactly 0 "
    "through 1e-70 ... 1e-8 to ordinary values. Oracle: u10 == 0 iff the public bulk dissipation is exactly 0",
    "the seam and marginal families are run without a rate-of-change spectrum only",
    "roots of the stress balance (single-root guard) are sign changes that survive 12 bisections with |F| <= 1e-3 rho u*^2 "
    "(the tail stress jumps in z0 at low wind; a sign change across a jump is not a root)",
    "first guess: the equilibrium-range estimate computed inside estimate_u10_from_source_terms",
]
REQUIRED_CATEGORIES = [
    "members", "zero_dissipation_u10_zero", "finite_result", "balance_checked", "balance_closed_by_sign_change",
    "direction_checked", "direction_checked_bimodal", "batch_size_1", "batch_size_8", "finite_depth", "dedt_inside", "dedt_outside",
    "pair_st4/st4", "pair_st4/st6", "root_in_2_40_and_finite",
    "marginal_diss_zero", "marginal_0<|diss|<1e-12", "marginal_1e-12<=|diss|<1e-10", "marginal_1e-10<=|diss|<1e-8",
    "marginal_below_1e-10_finite_result", "family_seam", "diriter_members", "diriter_finite_result",
    "diriter_balance_checked", "diriter_mean_direction_on_the_0/360_seam", "diriter_direction_moved",
    "diriter_zero_dissipation_u10_zero", "zero_dissipation_nonzero_dedt_u10_zero", "dedt_absolute_rate",
]

DELTA = 0.05
RHO_AIR = 1.225
KAPPA = 0.4
GRIDS = {
    "g20x24": (0.04, 0.6, 20, 24),
    "g12x16": (0.04, 0.6, 12, 16),
    "g24x36": (0.035, 0.8, 24, 36),
}
HS = {"quick": [0.5, 2.0, 5.0], "thorough": [0.5, 1.0, 2.0, 3.5, 5.0]}
FP = {"quick": [0.08, 0.15, 0.3], "thorough": [0.08, 0.1, 0.15, 0.2, 0.3]}
WIDTHS = {"quick": [30.0], "thorough": [15.0, 30.0, 40.0]}
MEANS = [45.0 * k for k in range(8)]
DEPTHS = [float("inf"), 20.0]
PAIRS = ["st4/st4", "st4/st6"]
# "E/+6h": dE/dt = +E/(6 h) (growing sea), "E/-6h", "E/-1h": decaying; these do not scale with the dissipation, so
# they are non-zero for the seas below the breaking threshold (oracle there: u10 == 0 exactly)
VARIANTS = ["none", "in+10", "in-10", "out+10", "out-10", "E/+6h", "E/-6h", "E/-1h"]
GRID_TIERS = {"quick": ["g20x24"], "thorough": ["g20x24", "g12x16", "g24x36"]}


def grid_axes(g):
    f0, f1, nf, nd = GRIDS[g]
    return np.exp(np.linspace(np.log(f0), np.log(f1), nf)), np.arange(nd) * 360.0 / nd


def jonswap(f, fp, hs, gamma=3.3):
    m0 = (hs / 4.0) ** 2
    sig = np.where(f <= fp, 0.07, 0.09)
    pe = gamma ** np.exp(-0.5 * ((f / fp - 1.0) / sig) ** 2)
    return m0 * fp ** 4 * f ** -5 * np.exp(-1.25 * (fp / f) ** 4) * pe / (0.06533 * gamma ** 0.8015 + 0.13467)


def raised_cosine(d, mean, width):
    p = 4.0 / ((math.pi * width / 90.0) ** 2) - 2.0
    norm = math.pi / 180.0 * math.gamma(p / 2 + 1) / (math.gamma(p / 2 + 0.5) * math.sqrt(math.pi))
    a = (d - mean + 180.0) % 360.0 - 180.0
    return np.where(np.abs(a) <= 90.0, norm * np.abs(np.cos(np.radians(a))) ** p, 0.0)


def units(tier):
    us = []
    for g in GRID_TIERS[tier]:
        for pair in PAIRS:
            # one unit per (grid, pair): the numba compilation of the inversion chain (about 1-2 min per
            # process, cache=False) dominates, the enumeration itself takes seconds
            us.append({"name": f"{g}:{pair}", "grid": g, "pair": pair, "variants": VARIANTS, "cost": 100})
    return us


# weakly breaking lattice for the direction-iteration / seam family (mean directions on and next to the 0/360 seam)
SEAM_MEANS = [0.0, 90.0, 180.0, 270.0, 0.001, 359.999]
SEAM_FP = {"quick": [0.09, 0.1, 0.11, 0.12], "thorough": [0.08, 0.09, 0.1, 0.11, 0.12, 0.13, 0.14, 0.15]}
SEAM_HS = {"quick": [2.0, 2.5, 3.0, 3.5, 4.0], "thorough": [1.5 + 0.25 * k for k in range(15)]}
# marginal-breaking family: (fp, depth) for which the onset of breaking is located, and the offsets from it
MARGINAL_CASES = [(0.1, float("inf")), (0.15, 20.0)]
MARGINAL_MEANS = [45.0, 0.0]
MARGINAL_ABOVE = [0.0] + [10.0 ** k for k in np.linspace(-6.0, -0.5, 34)]   # hs = hs_onset+ * (1 + x)
MARGINAL_BELOW = [1e-12, 1e-6, 1e-4, 1e-2, 1e-1]                            # hs = hs_onset- * (1 - x)


def members_of(unit):
    """the static member list of a unit: (hs, fp, mean, depth, width, family).
    lattice: the (hs, fp, mean, depth, width) product; bimodal: a second JONSWAP lobe with Hs/4, 2 fp, 60 degrees to
    the left (the only members whose dissipation-weighted direction is not fixed by symmetry; negative width);
    seam: weakly breaking seas with mean directions exactly 0/90/180/270 and +-1e-3 degrees around the 0/360 seam;
    empty: the all-zero spectrum.  Depth varies fastest so that every batch mixes depths.  (The marginal-breaking
    family is appended in run_unit: its Hs lattice is positioned relative to the onset of breaking, which is located
    through the public dissipation.bulk_rate.)"""
    t = unit["tier"]
    ms = [(hs, fp, mean, dep, w, "lattice") for w in WIDTHS[t] for hs in HS[t] for fp in FP[t] for mean in MEANS
          for dep in DEPTHS]
    ms += [(2.0, 0.15, mean, dep, -30.0, "bimodal") for mean in MEANS for dep in DEPTHS]
    ms += [(hs, fp, mean, float("inf"), 30.0, "seam") for fp in SEAM_FP[t] for hs in SEAM_HS[t] for mean in SEAM_MEANS]
    ms += [(hs, fp, 0.0, 20.0, 30.0, "seam") for fp in SEAM_FP[t] for hs in SEAM_HS[t]]
    ms.append((0.0, 0.15, 0.0, float("inf"), 30.0, "empty"))
    return ms


def member_spectrum(f, d, hs, fp, mean, w):
    if hs <= 0:
        return np.zeros((len(f), len(d)))
    E = jonswap(f, fp, hs)[:, None] * raised_cosine(d, mean, abs(w))[None, :]
    if w < 0:  # bimodal
        E = E + jonswap(f, 2 * fp, hs / 4)[:, None] * raised_cosine(d, (mean + 60.0) % 360.0, abs(w))[None, :]
    return E


def wavenumber(omega, depth, g=9.81):
    """omega^2 = g k tanh(k d) by Newton iteration in plain numpy (reference, not the library's solver)."""
    k = omega ** 2 / g
    if not math.isfinite(depth):
        return k
    k = np.maximum(k, omega / math.sqrt(g * depth))
    for _ in range(60):
        t = np.tanh(k * depth)
        fk = g * k * t - omega ** 2
        dfk = g * t + g * k * depth * (1 - t * t)
        k = k - fk / dfk
    return k


def dkey(depth):
    return "inf" if math.isinf(depth) else depth  # json-friendly, matchable from KNOWN_FINDINGS.json


def steps(f, d):
    """frequency / direction steps as the spectrum object defines them (restated, plain numpy)."""
    df = np.empty_like(f)
    df[1:-1] = 0.5 * (f[2:] - f[:-2])
    df[0] = f[1] - f[0]
    df[-1] = f[-1] - f[-2]
    dd = np.full(len(d), 360.0 / len(d))
    return df, dd


class _NoProgressBar:
    def __init__(self, *args, **kwargs):
        pass

    def __enter__(self):
        return None

    def __exit__(self, *exc):
        return False


def run_unit(unit):
    import xarray
    from ocean_science_utilities.wavephysics.balance.factory import create_balance
    from ocean_science_utilities.wavephysics.windestimate import estimate_u10_from_source_terms

    # seam (harness process only): numba_progress starts and joins an updater thread per call even when the bar is
    # disabled (~0.4 s per inversion call); the bar is replaced by a context manager that hands None to the jitted
    # loop, which the library code explicitly allows (`if progress_bar is not None`).
    import ocean_science_utilities.wavephysics.balance.wind_inversion as _wi

    _wi.ProgressBar = _NoProgressBar

    c = Collector()
    c.MAX_LISTED = 2000  # the low-wind class (see KNOWN_FINDINGS) must not crowd other violations out of the listing
    g, pair = unit["grid"], unit["pair"]
    f, d = grid_axes(g)
    df, dd = steps(f, d)
    w2 = df[:, None] * dd[None, :]
    nd = len(d)
    bal = create_balance(*pair.split("/"))
    gen, dis = bal.generation, bal.dissipation

    def da(spec, x):
        return xarray.DataArray(np.asarray(x, dtype=float), dims=spec.dims_space_time, coords=spec.coords_space_time)

    # ---- marginal-breaking family: Hs lattice positioned at the onset of breaking ------------------------------
    def bulk_of(hs, fp, dep):
        s1 = make_2d(f, d, member_spectrum(f, d, hs, fp, 45.0, 30.0)[None], depth=dep)
        return float(dis.bulk_rate(s1).values[0])

    mem = members_of(unit)
    for fp, dep in MARGINAL_CASES:
        lo, hi = 0.05, 0.08 * 9.81 / (2 * math.pi * fp ** 2)
        if not (bulk_of(lo, fp, dep) == 0.0 and bulk_of(hi, fp, dep) < 0.0):
            c.cat("marginal_onset_not_bracketed")
            continue
        for _ in range(200):
            mid = 0.5 * (lo + hi)
            if mid <= lo or mid >= hi:
                break
            if bulk_of(mid, fp, dep) == 0.0:
                lo = mid
            else:
                hi = mid
        # lo: largest located Hs with exactly zero dissipation, hi: smallest with non-zero dissipation (adjacent floats)
        hss = [hi * (1.0 + x) for x in MARGINAL_ABOVE] + [lo * (1.0 - x) for x in MARGINAL_BELOW]
        mem += [(hs, fp, mean, dep, 30.0, "marginal") for mean in MARGINAL_MEANS for hs in hss]
    n = len(mem)
    E = np.array([member_spectrum(f, d, m[0], m[1], m[2], m[4]) for m in mem])
    depth = np.array([m[3] for m in mem])
    spec_all = make_2d(f, d, E, depth=depth)

    diss = np.asarray(dis.bulk_rate(spec_all).values, dtype=float)
    mdir = np.asarray(dis.mean_direction_degrees(spec_all).values, dtype=float)
    # independent reference for the dissipation-weighted mean wave direction: the public dissipation field weighted
    # with the wavenumber of the reference dispersion solve
    S = np.asarray(dis.rate(spec_all).values, dtype=float)
    kref = np.array([wavenumber(2 * np.pi * f, dep) for dep in depth])
    wgt = -S * kref[:, :, None] * w2[None]
    kx = np.sum(wgt * np.cos(np.radians(d))[None, None, :], axis=(1, 2))
    ky = np.sum(wgt * np.sin(np.radians(d))[None, None, :], axis=(1, 2))
    refdir = np.degrees(np.arctan2(ky, kx)) % 360.0
    m0 = np.sum(E * w2[None], axis=(1, 2))
    worst = {"max_abs_root_error_estimate": 0.0}
    for i, m in enumerate(mem):
        if m[5] == "marginal":
            a = abs(diss[i])
            c.cat("marginal_diss_zero" if a == 0 else "marginal_0<|diss|<1e-12" if a < 1e-12 else
                  "marginal_1e-12<=|diss|<1e-10" if a < 1e-10 else "marginal_1e-10<=|diss|<1e-8" if a < 1e-8 else
                  "marginal_|diss|>=1e-8")

    def mkey(key0, i):
        hs, fp, mean, dep, w, fam = mem[i]
        return dict(key0, hs=hs, fp=fp, mean=mean, depth=dkey(dep), width=w, family=fam)

    def mtxt(i):
        hs, fp, mean, dep, w, fam = mem[i]
        return f"{pair} {g} {fam} Hs={hs!r} fp={fp} mean={mean} depth={dep} width={w}"

    # ---- reference balance through the public API ---------------------------------------------------------
    def balance(spec, dspec_vals, dsv, u, wdir):
        """B(u) for every member of `spec`; NaN where not evaluable, which includes the winds at which the
        roughness returned by the public generation.roughness() does not satisfy the stress balance it is
        defined by (property C10; the solver can stall on a non-root): a reference built on such a roughness
        says nothing about the inversion."""
        uu, ww = da(spec, u), da(spec, wdir)
        z = gen.roughness(uu, ww, spec)
        bulk = np.asarray(gen.bulk_rate(spec, uu, ww, roughness_length=z).values, dtype=float)
        b = bulk + dsv
        zv = np.asarray(z.values, dtype=float)
        tau = np.asarray(gen.stress(spec, uu, ww, roughness_length=z)["stress"].values, dtype=float)
        with np.errstate(invalid="ignore", divide="ignore"):
            rus2 = RHO_AIR * (KAPPA * np.asarray(u, dtype=float) / np.log(10.0 / zv)) ** 2
            z_is_root = np.abs(rus2 - tau) <= 1e-4 * rus2
        nbad = int(np.sum(np.isfinite(zv) & ~z_is_root))
        if nbad:
            c.cat("reference_roughness_not_a_root_of_the_stress_balance", nbad)
        b = np.where(z_is_root, b, np.nan)
        if dspec_vals is not None:
            rate = np.asarray(gen.rate(spec, uu, ww, roughness_length=z).values, dtype=float)
            with np.errstate(invalid="ignore"):
                active = rate > 0.0
            b = b - np.sum(np.where(active, dspec_vals, 0.0) * w2[None], axis=(1, 2))
            b = np.where(np.all(np.isfinite(rate), axis=(1, 2)), b, np.nan)
        return b

    def balance_members(idx, dedt, u, wdir):
        """balance() for the members idx (one stacked call; member by member if the stacked call raises)."""
        idx = np.asarray(idx)
        try:
            return balance(make_2d(f, d, E[idx], depth=depth[idx]), None if dedt is None else dedt[idx], diss[idx], u, wdir)
        except Exception:  # noqa  (roughness / stress may raise for some member)
            row = np.full(len(idx), np.nan)
            for k, i in enumerate(idx):
                s1 = make_2d(f, d, E[[i]], depth=depth[[i]])
                try:
                    row[k] = balance(s1, None if dedt is None else dedt[[i]], diss[[i]], u[[k]], wdir[[k]])[0]
                except Exception:  # noqa
                    pass
            return row

    def stress_balance_roots(i, u, wdir):
        """number of roots of F(z0) = rho u*^2 - tau(z0) on (e^-20, 1): sign changes between adjacent evaluable
        points of a 200-point scan that survive 12 bisections with |F| <= 1e-3 rho u*^2 at both ends of the narrowed
        bracket (the tail stress is discontinuous in z0 at low winds; a sign change across a jump is not a root the
        roughness iteration could return).  Points at which stress() raises are outside the domain of F."""
        zs = np.exp(np.linspace(-20.0, 0.0, 202)[1:-1])

        def tau_of(z):
            z = np.asarray(z, dtype=float)
            sN = make_2d(f, d, np.broadcast_to(E[i], (len(z),) + E[i].shape).copy(), depth=np.full(len(z), depth[i]))
            try:
                return np.asarray(gen.stress(sN, da(sN, np.full(len(z), u)), da(sN, np.full(len(z), wdir)),
                                             roughness_length=da(sN, z))["stress"].values, dtype=float)
            except Exception:  # noqa  (some point is not evaluable: evaluate one at a time)
                s1 = make_2d(f, d, E[[i]], depth=depth[[i]])
                t = np.full(len(z), np.nan)
                for j, z0 in enumerate(z):
                    try:
                        t[j] = float(gen.stress(s1, da(s1, [u]), da(s1, [wdir]),
                                                roughness_length=da(s1, [z0]))["stress"].values[0])
                    except Exception:  # noqa
                        pass
                return t

        def F_of(z):
            return RHO_AIR * (KAPPA * u / np.log(10.0 / np.asarray(z))) ** 2 - tau_of(z)

        F = F_of(zs)
        js = [j for j in range(199) if np.isfinite(F[j]) and np.isfinite(F[j + 1]) and F[j] * F[j + 1] < 0]
        if not js:
            return 0
        a, b = np.log(zs[js]), np.log(zs[[j + 1 for j in js]])
        fa, fb = F[js].copy(), F[[j + 1 for j in js]].copy()
        for _ in range(12):
            mid = 0.5 * (a + b)
            fm = F_of(np.exp(mid))
            with np.errstate(invalid="ignore"):
                left = fm * fa > 0
            a, fa = np.where(left, mid, a), np.where(left, fm, fa)
            b, fb = np.where(left, b, mid), np.where(left, fb, fm)
        ref = RHO_AIR * (KAPPA * u / np.log(10.0 / np.exp(0.5 * (a + b)))) ** 2
        with np.errstate(invalid="ignore"):
            return int(np.sum((np.abs(fa) <= 1e-3 * ref) & (np.abs(fb) <= 1e-3 * ref)))

    OFFS = [-DELTA, -DELTA / 2, 0.0, DELTA / 2, DELTA]

    def check_closure(ip, u10, wdir, dedt, key0, pre, what_dir):
        """the sign-change oracle for the members ip (finite positive u10) at the wind direction wdir.
        Returns the boolean array 'closed' (per member of ip)."""
        closed = np.zeros(len(ip), dtype=bool)
        Bs = np.array([balance_members(ip, dedt, np.maximum(u10[ip] + o, 1e-3), wdir[ip]) for o in OFFS])
        for k, i in enumerate(ip):
            b = Bs[:, k]
            dep = mem[i][3]
            if not np.all(np.isfinite(b)):
                c.cat(pre + "balance_not_evaluable")
                continue
            c.cat(pre + "balance_checked")
            c.nontriv((pre, g, pair, key0.get("dedt"), mem[i][0], mem[i][1], mem[i][2], dkey(dep), mem[i][4]))
            if mem[i][5] == "marginal" and abs(diss[i]) < 1e-10:
                c.cat(pre + "balance_checked_marginal_below_1e-10")
            if 2.0 <= u10[i] <= 40.0:
                c.cat(pre + "root_in_2_40_and_finite")
            sign_change = (b.min() <= 0.0 <= b.max())
            small = abs(b[2]) <= 1e-3 * abs(diss[i])
            if sign_change:
                closed[k] = True
                c.cat(pre + "balance_closed_by_sign_change")
                slope = (b[4] - b[0]) / (2 * DELTA)   # linear estimate of the distance to the root (evidence only)
                if slope != 0:
                    worst["max_abs_root_error_estimate"] = max(worst["max_abs_root_error_estimate"],
                                                               min(DELTA, abs(b[2] / slope)))
            elif small:
                closed[k] = True
                c.cat(pre + "balance_closed_by_small_residual")
            else:
                # the reference is unambiguous only if the stress balance that defines the roughness has one
                # root at this wind (otherwise the inversion may legitimately sit on another branch)
                nroots = stress_balance_roots(i, float(u10[i]), float(wdir[i]))
                if nroots != 1:
                    c.cat(pre + ("balance_open_but_roughness_ambiguous" if nroots > 1 else "balance_open_but_no_roughness_root_on_scan"))
                    continue
                flat = bool(np.all(np.abs(b - diss[i]) <= 1e-9 * abs(diss[i])))
                c.violation(
                    # u10 (one decimal) lets a known-findings entry address e.g. the low-wind class by interval
                    # and 'flat' the stops in the part of the balance where the wind input is identically zero
                    dict(mkey(key0, i), check=pre + "balance", u10=round(float(u10[i]), 1), flat=flat),
                    f"u10={u10[i]:.4f} m/s does not close the balance{what_dir}: B(u10)/|dissipation| = "
                    f"{b[2] / abs(diss[i]):+.3g}, no sign change of B on [u10-0.05, u10+0.05]"
                    + (" (wind input is identically zero there: B = dissipation)" if flat else "")
                    + f" [{mtxt(i)} dedt={key0.get('dedt')}]",
                    u10=float(u10[i]), direction=float(wdir[i]), bulk_dissipation=float(diss[i]),
                    B=[float(x) for x in b], offsets=OFFS, flat_part=flat,
                )
        return closed

    def find_roots(im, dedt, pre):
        """does the balance at the dissipation direction have a root in [2, 40] m/s?  Two adjacent points of a
        0.5 m/s scan with finite values of opposite sign, narrowed by 9 bisections (< 1e-3 m/s); continuity: after
        narrowing the bracket 512-fold |B| at its ends must have dropped well below the larger of the target and the
        values at the ends of the 0.5 m/s bracket (a jump of the inner roughness solution would not).
        Returns has, lo, hi, B(lo), B(hi) per member of im."""
        us = np.arange(2.0, 40.0 + 1e-9, 0.5)

        def bal_m(u):
            return balance_members(im, dedt, u, mdir[im])

        scan = np.array([bal_m(np.full(len(im), u)) for u in us])  # (nu, members)
        lo = np.full(len(im), np.nan)
        hi = np.full(len(im), np.nan)
        span = np.full(len(im), 0.0)
        for k in range(len(im)):
            col = scan[:, k]
            for j in range(len(us) - 1):
                if np.isfinite(col[j]) and np.isfinite(col[j + 1]) and col[j] * col[j + 1] < 0:
                    lo[k], hi[k] = us[j], us[j + 1]
                    span[k] = max(abs(col[j]), abs(col[j + 1]))
                    break
        has = np.isfinite(lo)
        found = has.copy()
        blo = np.full(len(im), np.nan)
        bhi = np.full(len(im), np.nan)
        if np.any(has):
            l = np.where(has, lo, 5.0)
            h = np.where(has, hi, 5.5)
            blo, bhi = bal_m(l), bal_m(h)
            for _ in range(9):  # 0.5 / 2^9 < 1e-3
                mid = 0.5 * (l + h)
                bm = bal_m(mid)
                with np.errstate(invalid="ignore"):
                    left = np.sign(bm) == np.sign(blo)
                has &= np.isfinite(bm)
                l = np.where(left, mid, l)
                blo = np.where(left, bm, blo)
                h = np.where(left, h, mid)
                bhi = np.where(left, bhi, bm)
            lo, hi = l, h
        for k, i in enumerate(im):
            if not has[k]:
                c.cat(pre + ("_no_root_shown_in_2_40" if not found[k] else "_root_bracket_not_evaluable"))
                continue
            scale = max(abs(diss[i]) * 1.1, span[k])
            if not (abs(blo[k]) <= 0.05 * scale and abs(bhi[k]) <= 0.05 * scale):
                c.cat(pre + "_sign_change_is_a_jump")
                has[k] = False
        return has, lo, hi, blo, bhi

    def invert(dedt, iteration, key0, act):
        """the inversion of the members act in consecutive batches of 1..8 (others: marked failed/not run)."""
        u10 = np.full(n, np.nan)
        rdir = np.full(n, np.nan)
        failed = np.ones(n, dtype=bool)
        failed[act] = False
        start, size = 0, 1
        while start < len(act):
            idx = [int(j) for j in act[start:start + size]]
            c.cat(f"batch_size_{len(idx)}")
            sb = make_2d(f, d, E[idx], depth=depth[idx])
            db = None if dedt is None else make_2d(f, d, dedt[idx], depth=depth[idx])
            try:
                r = estimate_u10_from_source_terms(sb, bal, time_derivative_spectrum=db, direction_iteration=iteration)
                u10[idx] = np.asarray(r["u10"].values, dtype=float)
                rdir[idx] = np.asarray(r["direction"].values, dtype=float)
            except Exception as exc:  # noqa
                failed[idx] = True
                c.violation(dict(key0, check="raises", direction_iteration=iteration, members=[list(mem[i]) for i in idx]),
                            f"estimate_u10_from_source_terms raised {type(exc).__name__}: {exc}",
                            traceback=traceback.format_exc()[-1500:])
            start += len(idx)
            size = size % 8 + 1
        return u10, rdir, failed

    closed_plain = np.zeros(n, dtype=bool)   # variant 'none', no iteration: finite result that closes the balance
    u10_plain = np.full(n, np.nan)

    for variant in unit["variants"]:
        # ---- the rate-of-change spectrum of this variant --------------------------------------
        zero_only = variant.startswith("E/")
        if variant == "none":
            dedt = None
        elif zero_only:
            hours = float(variant[2:-1])
            dedt = E / (hours * 3600.0)
            c.cat("dedt_absolute_rate")
        else:
            amp = (0.1 if variant.endswith("+10") else -0.1) * np.abs(diss)
            shape = E / np.where(m0 > 0, m0, 1.0)[:, None, None]
            if variant.startswith("out"):
                shape = np.roll(shape, nd // 2, axis=2)
            dedt = amp[:, None, None] * shape
            c.cat("dedt_inside" if variant.startswith("in") else "dedt_outside")

        key0 = {"grid": g, "pair": pair, "dedt": variant}
        # the seam and marginal-breaking families are run without a rate-of-change spectrum only
        act = np.array([i for i, m in enumerate(mem) if variant == "none" or m[5] in ("lattice", "bimodal", "empty")])
        u10, rdir, failed = invert(dedt, False, key0, act)
        if variant == "none":
            u10_plain = u10.copy()

        for i in act:
            m = mem[i]
            c.evaluations += 1
            c.cat("members")
            c.cat("pair_" + pair)
            c.cat("family_" + m[5])
            c.case([variant, m[0], m[1], m[2], dkey(m[3]), m[4], m[5]])
            if math.isfinite(m[3]):
                c.cat("finite_depth")

        ok = ~failed
        pos = ok & np.isfinite(u10) & (u10 > 0) & (diss != 0.0) & (not zero_only)
        for i in np.nonzero(ok)[0]:
            hs, fp, mean, dep, w, fam = mem[i]
            key = mkey(key0, i)
            if diss[i] == 0.0:
                if u10[i] == 0.0:
                    c.cat("zero_dissipation_u10_zero")
                else:
                    c.violation(dict(key, check="zero_dissipation"),
                                f"bulk dissipation is exactly 0 but u10={u10[i]!r} [{mtxt(i)}]")
                if zero_only and u10[i] == 0.0:
                    c.cat("zero_dissipation_nonzero_dedt_u10_zero" if np.any(dedt[i] != 0.0) else "zero_dissipation_empty_spectrum")
                continue
            if zero_only:
                # absolute-rate variants: only the zero-dissipation clause is decided here (the breaking members are in
                # the batches so that zero-dissipation seas sit next to breaking ones)
                c.cat("absolute_rate_variant_breaking_member_not_evaluated")
                continue
            # direction (well conditioned: dissipation is non-zero)
            c.cat("direction_checked")
            # tolerance of the reference direction: exact arithmetic in deep water; at finite depth the library's
            # wavenumber carries its solver tolerance (relative error <= 2e-3, C07), which can turn the resultant
            # by at most 2e-3 rad = 0.115 degrees.  (That the direction of a symmetric sea is its axis of symmetry
            # is not demanded: the ST4 dissipation field is not exactly symmetric for N = 36, see C09.)
            tol_ref = 1e-6 if math.isinf(dep) else 0.12
            if w < 0:
                c.cat("direction_checked_bimodal")
            if not (np.isfinite(rdir[i]) and float(angle_diff(rdir[i], mdir[i])) <= 1e-9
                    and float(angle_diff(rdir[i], refdir[i])) <= tol_ref):
                c.violation(dict(key, check="direction"),
                            f"reported direction {rdir[i]!r}: dissipation.mean_direction_degrees gives {mdir[i]!r}, the "
                            f"reference weighted direction is {refdir[i]!r} [{mtxt(i)} dedt={variant}]")
            if u10[i] != u10[i]:
                c.cat("missing_result")
                continue
            if not (math.isfinite(u10[i]) and u10[i] > 0):
                c.violation(dict(key, check="positive"),
                            f"u10={u10[i]!r} is neither missing nor positive although the bulk dissipation is "
                            f"{diss[i]:.3e} (not zero) [{mtxt(i)} dedt={variant}]")
                continue
            c.cat("finite_result")
            if fam == "marginal" and abs(diss[i]) < 1e-10:
                c.cat("marginal_below_1e-10_finite_result")

        # balance at u10 + {-1,-1/2,0,1/2,1} delta for all members with a positive finite result at once
        if np.any(pos):
            ip = np.nonzero(pos)[0]
            closed = check_closure(ip, u10, rdir, dedt, key0, "", "")
            if variant == "none":
                closed_plain[ip] = closed

        # non-degeneracy: members with non-zero dissipation and a missing result
        miss = ok & (diss != 0.0) & np.isnan(u10) & (not zero_only)
        if np.any(miss):
            im = np.nonzero(miss)[0]
            has, lo, hi, blo, bhi = find_roots(im, dedt, "missing_result")
            for k, i in enumerate(im):
                if not has[k]:
                    continue
                c.cat("missing_result_root_in_2_40")
                c.nontriv(("", g, pair, variant, mem[i][0], mem[i][1], mem[i][2], dkey(mem[i][3]), mem[i][4]))
                c.violation(
                    dict(mkey(key0, i), check="degenerate", root=round(float(0.5 * (lo[k] + hi[k])), 1)),
                    f"u10 is missing (NaN) although the balance has a root at {0.5 * (lo[k] + hi[k]):.3f} m/s "
                    f"[{mtxt(i)} dedt={variant}]",
                    root_bracket=[float(lo[k]), float(hi[k])], B_at_bracket=[float(blo[k]), float(bhi[k])],
                    bulk_dissipation=float(diss[i]),
                )
        if len(c.samples) < 2:
            j = int(np.nonzero(pos)[0][0]) if np.any(pos) else 0
            c.sample(dict(mkey(key0, j), u10=float(u10[j]), direction=float(rdir[j]), bulk_dissipation=float(diss[j])))

    # ---- direction iteration (no dE/dt): the clauses that still apply ---------------------------------------
    if "none" in unit["variants"]:
        key0 = {"grid": g, "pair": pair, "dedt": "none", "direction_iteration": True}
        u_it, d_it, failed = invert(None, True, key0, np.arange(n))
        ok = ~failed
        for i in np.nonzero(ok)[0]:
            c.evaluations += 1
            c.cat("diriter_members")
            c.case(["diriter", mem[i][0], mem[i][1], mem[i][2], dkey(mem[i][3]), mem[i][4], mem[i][5]])
            key = mkey(key0, i)
            if diss[i] == 0.0:
                if u_it[i] == 0.0:
                    c.cat("diriter_zero_dissipation_u10_zero")
                else:
                    c.violation(dict(key, check="diriter_zero_dissipation"),
                                f"direction iteration: bulk dissipation is exactly 0 but u10={u_it[i]!r} [{mtxt(i)}]")
                continue
            if mem[i][2] in (0.0, 0.001, 359.999):
                c.cat("diriter_mean_direction_on_the_0/360_seam")
            if u_it[i] != u_it[i]:
                c.cat("diriter_missing_result")
                continue
            if not (math.isfinite(u_it[i]) and u_it[i] > 0 and math.isfinite(d_it[i])):
                c.violation(dict(key, check="diriter_positive"),
                            f"direction iteration: u10={u_it[i]!r}, direction={d_it[i]!r} is neither missing nor a "
                            f"positive speed with a direction [{mtxt(i)}]")
                continue
            c.cat("diriter_finite_result")
            if float(angle_diff(d_it[i], mdir[i])) > 1e-6:
                c.cat("diriter_direction_moved")
        # non-degeneracy with iteration: the plain estimate is finite and the balance at the dissipation direction has
        # a root in 2..40 m/s (the plain estimate closes it there, or the scan shows one) -> the iterated estimate
        # must be finite too
        missi = ok & (diss != 0.0) & np.isnan(u_it) & np.isfinite(u10_plain)
        if np.any(missi):
            im = np.nonzero(missi)[0]
            known = closed_plain[im] & (u10_plain[im] >= 2.0) & (u10_plain[im] <= 40.0)
            has = known.copy()
            root = u10_plain[im].copy()
            if np.any(~known):
                sub = im[~known]
                h2, lo2, hi2, _, _ = find_roots(sub, None, "diriter_missing_result")
                has[~known] = h2
                root[~known] = 0.5 * (lo2 + hi2)
            for k, i in enumerate(im):
                if not has[k]:
                    continue
                c.nontriv(("diriter", g, pair, mem[i][0], mem[i][1], mem[i][2], dkey(mem[i][3]), mem[i][4]))
                c.violation(dict(mkey(key0, i), check="diriter_degenerate", root=round(float(root[k]), 1)),
                            f"direction iteration: u10 is missing (NaN, reported direction {d_it[i]!r}) although the "
                            f"estimate without iteration is {u10_plain[i]:.3f} m/s and the balance at the dissipation "
                            f"direction {mdir[i]!r} has a root at {root[k]:.3f} m/s [{mtxt(i)}]",
                            u10_without_iteration=float(u10_plain[i]), reported_direction=float(d_it[i]))
        pos = ok & np.isfinite(u_it) & (u_it > 0) & np.isfinite(d_it) & (diss != 0.0)
        if np.any(pos):
            check_closure(np.nonzero(pos)[0], u_it, d_it, None, key0, "diriter_", " at the reported direction")
    r = c.result()
    r["stats"] = worst
    return r


def finalize(coverage, results, tier):
    agg = {}
    for r in results:
        for k, v in (r.get("stats") or {}).items():
            agg[k] = max(agg.get(k, 0.0), float(v))
    coverage.update(agg)
