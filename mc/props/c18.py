"""C18  File cache: contents, hits, size bound and LRU eviction over any request history.

Engine E2 (explicit-state BFS over operation histories on a real FileCache / real directory with a
reference model in lock-step, sequential and parallel mode side by side) and engine E3
(preemption-bounded exhaustive exploration of the download pool's schedules).
"""
import itertools
import os

from mc import cachelab as lab
from mc.common import Collector

ID = "C18"
LEVEL = "model_checking"
RULE = (
    "BFS: every sequence of operations up to the stated depth over the alphabet {get of every ordered list of "
    "distinct URIs up to the stated length from {a,b,c,a<<x,big,missing}, remove(u), purge, reopen(with/without "
    "eviction), touch(u), age(u), foreign(name)} x size limits {1500, 2500, 3500} bytes, states de-duplicated by a canonical "
    "form (files with content-id, on-disk recency rank, model last-use class, membership of the in-memory index; foreign "
    "files; size limit); every transition executes the real method in sequential AND controlled-parallel mode and steps the "
    "reference model; invariants I1..I9 evaluated on every transition. Schedules: every interleaving of the download pool "
    "for requests of 6/7/11 URIs with at most the stated number of preemptions. A transition is non-trivial when it "
    "downloaded, evicted, removed or re-stamped at least one file; distinct = distinct canonical states / distinct schedules."
)
ASSUMPTIONS = [
    "file time stamps come from a logical clock (os.utime(path, None) and the scripted resource); wall-clock ties are not modelled",
    "the stdlib ThreadPool is replaced by ControlledPool, which reproduces imap(chunksize=5) semantics: consecutive chunks, one thread per chunk, in-order results",
    "under the GIL only the labelled scheduling points (thread start, before each task, 4 points inside each download) are interleaved",
    "cache directories on /dev/shm given as absolute paths (depth 3+) and as paths relative to the working directory (depth 2)",
]
REQUIRED_CATEGORIES = {
    "quick": ["eviction", "hit", "miss", "enlarge", "missing_uri", "reopen", "lru_pairs_checked", "preempted_schedule", "two_caches_transitions"],
    "thorough": ["eviction", "hit", "miss", "enlarge", "missing_uri", "reopen", "lru_pairs_checked", "preempted_schedule"],
}

U = {n: lab.SCHEME + n for n in ("a", "c", "big", "missing")}
U["b"] = lab.ALT_SCHEME + "b"  # served by a second resource whose scheme sorts before the first
U["ax"] = lab.SCHEME + "a<<x"
URIS = [U["a"], U["b"], U["c"], U["ax"], U["big"], U["missing"]]
FOREIGN = ["notes.txt", "cachefile_prefixonly", "only_postfix_cachefile", "cachefile_0123abcd_cachefile.bak",
           "x_cachefile_0123abcd_cachefile"]
FOREIGN_CONTENT = {n: ("foreign:" + n).encode() * 3 for n in FOREIGN}


# --------------------------------------------------------------------------------------------
# one operation on (world, model) with all invariants
# --------------------------------------------------------------------------------------------
class Tracker:
    """The reference model plus the harness's bookkeeping of observed paths."""

    def __init__(self, max_bytes):
        self.m = lab.Model(max_bytes)
        self.path = {}  # uri -> path it was returned under
        self.owner = {}  # path -> uri


def key_of(op):
    return [op[0]] + [list(x) if isinstance(x, (list, tuple)) else x for x in op[1:]]


def apply_op(world, tr, op, viol, stats=None, check_model=True):
    """Execute op on the real cache; if check_model, step the model and evaluate the invariants.
    Returns the observation (what a client can see)."""
    m = tr.m
    kind = op[0]
    obs = None

    def cache_files(disk):
        return {f: v for f, v in disk.items() if lab.World.is_cache_name(f)}

    if kind == "get":
        uris = list(op[1])
        misses, exp_contacted, ok = m.expected_get(uris)
        old_max = world.cache.config.max_size_bytes
        try:
            paths, contacted = world.get(uris)
        except Exception as exc:  # noqa
            viol("raises", f"request {uris} raised {type(exc).__name__}: {exc}")
            return ("raised", type(exc).__name__)
        m.tick += 1
        disk = world.disk()
        if check_model:
            if contacted != exp_contacted:
                viol("I2 contacted", f"resource contacted for {contacted}, model expects {exp_contacted} (request {uris})")
            if len(paths) != len(ok):
                viol("I1 result length", f"{len(paths)} paths returned for {uris}, expected {len(ok)} (missing objects omitted)")
        got = []
        for u, p in zip(ok, paths):
            tr.path[u] = p
            if not os.path.isfile(p):
                viol("I1 exists", f"returned path for {u} does not exist")
                got.append("ABSENT")
                continue
            b = lab.read_noatime(p)
            if b != m.content(u):
                viol("I1 bytes", f"returned file for {u} holds {lab.content_id(b)} ({len(b)} bytes), expected {len(m.content(u))} bytes")
            got.append(lab.content_id(b))
            if p in tr.owner and tr.owner[p] != u:
                viol("I3 shared file", f"{u} and {tr.owner[p]} share the file {os.path.basename(p)}")
            tr.owner[p] = u
            tr.path[u] = p
        if len(set(paths)) != len(paths):
            viol("I3 shared file", f"request {uris} returned duplicate paths")
        obs = ("get", tuple(got), tuple(contacted))
        if check_model:
            for u in ok:
                m.files[u] = [m.content(u), m.tick]
            new_max = world.cache.config.max_size_bytes
            req_total = sum(len(m.content(u)) for u in ok)
            if req_total > old_max:
                if new_max < req_total:
                    viol("I5 enlarge", f"request of {req_total} bytes but limit only {new_max}")
                if stats is not None:
                    stats.cat("enlarge")
            elif new_max != old_max:
                viol("I5 limit changed", f"limit changed {old_max} -> {new_max} although the request ({req_total} bytes) fits")
            m.max_bytes = new_max
            _reconcile(world, tr, disk, viol, current=set(ok), stats=stats, after_request=True)
            if stats is not None:
                stats.cat("miss", len(misses))
                stats.cat("hit", len(uris) - len(misses))
                stats.cat("missing_uri", sum(1 for u in misses if lab.base_of(u) not in lab.REMOTE))
    elif kind == "remove":
        u = op[1]
        try:
            world.remove(u)
        except Exception as exc:  # noqa
            viol("raises", f"remove({u}) raised {type(exc).__name__}: {exc}")
            return ("raised", type(exc).__name__)
        if check_model:
            m.files.pop(u, None)
            _reconcile(world, tr, world.disk(), viol, stats=stats)
        obs = ("remove",)
    elif kind == "remove_spelled":
        spelled, u = op[1], op[2]
        try:
            world.remove(spelled)
        except Exception as exc:  # noqa
            viol("raises", f"remove({spelled}) raised {type(exc).__name__}: {exc}")
            return ("raised", type(exc).__name__)
        if check_model:
            m.files.pop(u, None)
            _reconcile(world, tr, world.disk(), viol, stats=stats)
        obs = ("remove",)
    elif kind == "purge":
        try:
            world.purge()
        except Exception as exc:  # noqa
            viol("raises", f"purge raised {type(exc).__name__}: {exc}")
            return ("raised", type(exc).__name__)
        if check_model:
            m.files.clear()
            _reconcile(world, tr, world.disk(), viol, stats=stats)
        obs = ("purge",)
    elif kind == "reopen":
        try:
            world.reopen(op[1])
        except Exception as exc:  # noqa
            viol("raises", f"reopen raised {type(exc).__name__}: {exc}")
            return ("raised", type(exc).__name__)
        if check_model:
            if world.cache.config.max_size_bytes != m.max_bytes:
                viol("I5 limit not persisted", f"limit after reopen {world.cache.config.max_size_bytes}, model {m.max_bytes}")
            _reconcile(world, tr, world.disk(), viol, stats=stats)
            if stats is not None:
                stats.cat("reopen")
        obs = ("reopen", len(world.cache))
    elif kind == "touch":
        u = op[1]
        lab._utime(tr.path[u], None)
        m.tick += 1
        m.files[u][1] = m.tick
        obs = ("touch",)
    elif kind == "read":
        # an external consumer reads the file: only the ACCESS time moves (the cache ranks by the later of
        # access and modification time, so this is a use)
        u = op[1]
        st = os.stat(tr.path[u])
        t = lab.CLOCK.tick()
        lab._real_utime(tr.path[u], (t, st.st_mtime))
        m.tick += 1
        m.files[u][1] = m.tick
        obs = ("read",)
    elif kind == "tie":
        # u gets exactly the time stamps of the most recently used other file (equal recency: either may be
        # evicted first, the model puts both in the same last-use class)
        u = op[1]
        others = [x for x in m.files if x != u]
        newest = max(others, key=lambda x: m.files[x][1])
        st = os.stat(tr.path[newest])
        lab._real_utime(tr.path[u], (st.st_atime, st.st_mtime))
        m.files[u][1] = m.files[newest][1]
        obs = ("tie",)
    elif kind == "age":
        u = op[1]
        oldest = min(v[1] for v in m.files.values()) - 1
        t = lab.CLOCK_BASE / 2 + oldest  # strictly older than every logical stamp, ordered among aged files
        lab._real_utime(tr.path[u], (t, t))
        m.files[u][1] = oldest
        obs = ("age",)
    elif kind == "foreign":
        name = op[1]
        with open(os.path.join(world.path, name), "wb") as fp:
            fp.write(FOREIGN_CONTENT[name])
        m.foreign[name] = FOREIGN_CONTENT[name]
        obs = ("foreign",)
    else:
        raise AssertionError(op)
    return obs


def _reconcile(world, tr, disk, viol, current=frozenset(), stats=None, after_request=False):
    """Compare the directory with the model; adopt admissible evictions into the model."""
    m = tr.m
    on_disk = {f for f in disk if lab.World.is_cache_name(f)}
    name_of = {u: os.path.basename(tr.path[u]) for u in m.files if u in tr.path}
    model_names = set(name_of.values())
    # I7 foreign files
    for name, content in m.foreign.items():
        if name not in disk:
            viol("I7 foreign deleted", f"foreign file {name} disappeared")
        elif disk[name][0] != lab.content_id(content):
            viol("I7 foreign modified", f"foreign file {name} was modified")
    # I9 / eviction admissibility
    unexpected = on_disk - model_names
    if unexpected:
        viol("I9 unexpected cache file", f"cache files on disk that the model does not hold: {sorted(unexpected)[:3]}")
    evicted = [u for u, n in name_of.items() if n not in on_disk]
    if evicted and not after_request:
        viol("I9 file lost", f"cache files disappeared without a request: {evicted}")
    survivors = [u for u, n in name_of.items() if n in on_disk]
    for e in evicted:
        if e in current:
            viol("I6 current evicted", f"file of the current request evicted: {e}")
        for s in survivors:
            if s in current:
                continue
            if stats is not None:
                stats.cat("lru_pairs_checked")
            if m.files[e][1] > m.files[s][1]:
                viol("I6 lru order", f"{e} (last use {m.files[e][1]}) evicted while older {s} (last use {m.files[s][1]}) survives")
    if evicted and stats is not None:
        stats.cat("eviction", len(evicted))
    for e in evicted:
        m.files.pop(e, None)
    # I5 size bound (after a request)
    total = sum(disk[n][1] for n in on_disk)
    if after_request and total > m.max_bytes:
        viol("I5 size bound", f"cache files total {total} bytes > limit {m.max_bytes}")
    # in_cache() must agree with what a request would find
    try:
        for u in URIS:
            ans = world.cache.in_cache(u)
            if list(ans) != [u in m.files]:
                viol("I4 in_cache", f"in_cache({u}) = {ans} but the entry is {'cached' if u in m.files else 'not cached'}")
                break
    except Exception as exc:  # noqa
        viol("raises", f"in_cache raised {type(exc).__name__}: {exc}")
    # I4 entries == files
    try:
        n_entries = len(world.cache)
    except Exception as exc:  # noqa
        n_entries = -1
    if n_entries != len(on_disk):
        viol("I4 entry count", f"len(cache)={n_entries} but {len(on_disk)} cache files on disk")


def canon(world, tr):
    m = tr.m
    disk = world.disk()
    cf = {f: v for f, v in disk.items() if lab.World.is_cache_name(f)}
    # access and modification stamps are ranked separately (one common scale): the library uses the later of
    # the two, but a state that differs only in WHICH of them is recent must not be merged with one that does not
    rec = sorted({v[3] for v in cf.values()} | {v[4] for v in cf.values()})
    cls = sorted({v[1] for v in m.files.values()})
    name_to_uri = {os.path.basename(p): u for u, p in tr.path.items() if u in m.files}
    entries = getattr(world.cache, "_entries", {})
    files = tuple(sorted(
        (name_to_uri.get(f, "?" + f), v[0], rec.index(v[3]), rec.index(v[4]),
         cls.index(m.files[name_to_uri[f]][1]) if f in name_to_uri else -1, f in entries)
        for f, v in cf.items()
    ))
    foreign = tuple(sorted((f, v[0]) for f, v in disk.items() if not lab.World.is_cache_name(f)))
    return (files, foreign, m.max_bytes, len(entries))


# --------------------------------------------------------------------------------------------
# BFS
# --------------------------------------------------------------------------------------------
def get_ops(maxlen, depth_here):
    ops = []
    for n in range(1, maxlen + 1):
        for combo in itertools.permutations(URIS, n):
            if n == 3 and (U["big"] in combo and U["missing"] in combo):
                continue  # named restriction: triples never contain both big and missing
            ops.append(("get", list(combo)))
    return ops


def enabled_ops(tr, maxlen, depth_here):
    m = tr.m
    ops = list(get_ops(maxlen, depth_here))
    cached = [u for u in URIS if u in m.files]
    for u in cached:
        ops.append(("remove", u))
    if U["c"] not in m.files:
        ops.append(("remove", U["c"]))  # removing an absent entry must be harmless
    ops.append(("purge",))
    ops.append(("reopen", False))
    ops.append(("reopen", True))
    for u in cached:
        ops.append(("touch", u))
        ops.append(("age", u))
        ops.append(("read", u))
        if len(cached) >= 2:
            ops.append(("tie", u))
    # removal of a cached URI spelled with a directive prefix (directives are not part of the key)
    if U["a"] in m.files:
        ops.append(("remove_spelled", "validate=v:" + U["a"], U["a"]))
    if U["ax"] in m.files:
        ops.append(("remove_spelled", "postprocess=p:" + U["ax"], U["ax"]))
    for n in FOREIGN:
        if n not in m.foreign:
            ops.append(("foreign", n))
    return ops


def build(hist, limit, parallel, api):
    relative = api == "relative"
    w = lab.World(size_bytes=limit, parallel=parallel, api="object" if relative else api, relative=relative)
    tr = Tracker(w.cache.config.max_size_bytes)
    for op in hist:
        apply_op(w, tr, op, lambda *a: None, check_model=True)
    return w, tr


def run_bfs(unit):
    c = Collector()
    limit = unit["limit"]
    depth = unit["depth"]
    tier = unit["tier"]
    api = unit.get("api", "object")
    first = unit.get("first")  # optional: restrict to histories starting with these ops
    seen = set()
    w0, t0 = build([], limit, False, api)
    init_canon = (canon(w0, t0), frozenset())
    w0.close()
    frontier = [[]]
    if first is not None:
        frontier = []
        seen.add(init_canon)
    else:
        seen.add(init_canon)
    states = 1
    transitions = 0
    outcomes = set()
    level = 0
    cur = [[]]
    while cur and level < depth:
        nxt = []
        for hist in cur:
            ws, ts = build(hist, limit, False, api)
            ops = enabled_ops(ts, unit.get("maxlen", 2), level)
            ws.close()
            if level == 0 and first is not None:
                ops = [o for i, o in enumerate(ops) if i % unit["nshards"] == first]
            for op in ops:
                vlist = []

                def viol(check, what, _op=op, _hist=hist, _mode="sequential"):
                    vlist.append((check, what, _mode))

                ws, ts = build(hist, limit, False, api)
                before = {f: v[:2] for f, v in ws.disk().items()}
                obs_s = apply_op(ws, ts, op, viol, stats=c, check_model=True)
                can_s = canon(ws, ts)
                after = {f: v[:2] for f, v in ws.disk().items()}
                # the same history in controlled-parallel mode (default schedule), lock-step
                wp, tp = build(hist, limit, True, api)

                def violp(check, what):
                    vlist.append((check, what, "parallel"))

                obs_p = apply_op(wp, tp, op, violp, stats=None, check_model=True)
                can_p = canon(wp, tp)
                if wp.sched is not None and wp.sched.error is not None:
                    vlist.append(("deadlock", repr(wp.sched.error), "parallel"))
                if obs_s != obs_p or can_s != can_p:
                    vlist.append(("I8 sequential!=parallel", f"observation/state differ: seq {obs_s} par {obs_p}", "both"))
                ws.close()
                wp.close()
                transitions += 1
                c.evaluations += 1
                outcomes.add(obs_s)
                if before != after or op[0] in ("touch", "age", "read", "tie", "reopen"):
                    c.nontriv(n=0)
                    c.cat("nontrivial_transition")
                for check, what, mode in vlist:
                    c.violation(
                        {"engine": "bfs", "limit": limit, "api": api, "history": [key_of(o) for o in hist + [op]],
                         "check": check, "mode": mode},
                        f"{check}: {what} after history {[key_of(o) for o in hist + [op]]} (limit {limit}, {mode})",
                    )
                if vlist:
                    continue  # an error state is reported, not expanded
                # the visited-set key also carries which kinds of operation were used since the last reopen: an
                # implementation may keep in-memory state (counters, memo tables) that the directory does not show,
                # so "same directory + same model" reached through different kinds of operation is kept apart
                kinds = []
                for o in hist + [op]:
                    kinds = [] if o[0] == "reopen" else kinds + [o[0]]
                vkey = (can_s, frozenset(kinds))
                if vkey not in seen:
                    seen.add(vkey)
                    states += 1
                    nxt.append(hist + [op])
                    if len(c.samples) < 2 and len(hist) + 1 == depth:
                        c.sample({"limit": limit, "history": [key_of(o) for o in hist + [op]], "state": repr(can_s)[:400]})
        cur = nxt
        level += 1
    c.extra = {
        "states": states,
        "transitions": transitions,
        "traces_validated_against_impl": transitions,
        "distinct_observations": len(outcomes),
        "bfs_max_depth": depth,
        "frontier_left_unexpanded_at_depth_bound": len(cur),
    }
    c.case({"unit": unit["name"], "states": states, "transitions": transitions})
    r = c.result()
    r["distinct_nontrivial"] = states
    lab.cleanup_scratch()
    return r


# --------------------------------------------------------------------------------------------
# two named caches side by side (module-level API)
# --------------------------------------------------------------------------------------------
def run_two(unit):
    """BFS over operations on TWO named caches (module-level registry): an operation on one cache must not
    change the directory, the entry count or the answers of the other."""
    c = Collector()
    limit, depth = unit["limit"], unit["depth"]
    base_ops = [("get", [U["a"]]), ("get", [U["b"]]), ("get", [U["a"], U["c"]]), ("get", [U["ax"], U["b"]]),
                ("remove", U["a"]), ("purge",), ("reopen", False)]
    ops = [(i, o) for i in (0, 1) for o in base_ops]

    def build2(hist):
        ws = [lab.World(size_bytes=limit, parallel=False, api="module", name=f"lab{i}") for i in (0, 1)]
        trs = [Tracker(w.cache.config.max_size_bytes) for w in ws]
        for i, o in hist:
            apply_op(ws[i], trs[i], o, lambda *a: None)
        return ws, trs

    seen = set()
    cur = [[]]
    states = transitions = 0
    for level in range(depth):
        nxt = []
        for hist in cur:
            for i, o in ops:
                if o[0] == "remove" and False:
                    continue
                ws, trs = build2(hist)
                j = 1 - i
                other_before = (canon(ws[j], trs[j]), len(ws[j].cache))
                vl = []
                apply_op(ws[i], trs[i], o, lambda chk, what: vl.append((chk, what)), stats=c)
                other_after = (canon(ws[j], trs[j]), len(ws[j].cache))
                if other_before != other_after:
                    vl.append(("I7 other cache changed", f"operation {key_of(o)} on cache {i} changed cache {j}"))
                # the other cache must still answer from its own directory
                probe = []
                apply_op(ws[j], trs[j], ("get", [U["a"]]), lambda chk, what: probe.append((chk, what)))
                vl += [(chk, "cache %d after an operation on cache %d: %s" % (j, i, what)) for chk, what in probe]
                transitions += 1
                c.evaluations += 1
                key = (canon(ws[0], trs[0]), canon(ws[1], trs[1]))
                for w in ws:
                    w.close()
                for chk, what in vl:
                    c.violation({"engine": "two-caches", "limit": limit, "history": [[k, key_of(x)] for k, x in hist + [(i, o)]],
                                 "check": chk}, f"{chk}: {what} after {[(k, key_of(x)) for k, x in hist + [(i, o)]]}")
                if vl:
                    continue
                if key not in seen:
                    seen.add(key)
                    states += 1
                    nxt.append(hist + [(i, o)])
        cur = nxt
    c.cat("two_caches_transitions", transitions)
    c.extra = {"states": states, "transitions": transitions, "traces_validated_against_impl": transitions}
    c.case({"unit": unit["name"], "states": states})
    c.sample({"engine": "two-caches", "limit": limit, "example": [[0, ["get", [U["a"]]]], [1, ["purge"]]]})
    r = c.result()
    r["distinct_nontrivial"] = states
    lab.cleanup_scratch()
    return r


# --------------------------------------------------------------------------------------------
# schedule exploration (E3)
# --------------------------------------------------------------------------------------------
def small_uris(n, missing_at=None):
    out = []
    for i in range(n):
        out.append(lab.SCHEME + ("missing%d" % i if i == missing_at else "s%d" % i))
    return out


def run_one_schedule(uris, limit, prefix, prehistory):
    """Execute prehistory sequentially, then the request under the given schedule prefix."""
    w = lab.World(size_bytes=limit, parallel=True, prefix=prefix)
    tr = Tracker(w.cache.config.max_size_bytes)
    vl = []

    def viol(check, what):
        vl.append((check, what))

    for op in prehistory:
        # the prehistory uses single-URI requests: no pool, no choice points
        apply_op(w, tr, op, viol)
    obs = apply_op(w, tr, ("get", uris), viol)
    err = w.sched.error
    if err is None:
        try:
            w.sched.drain()
        except Exception as exc:  # noqa
            err = exc
    can = canon(w, tr)
    # intra-request stamp order is schedule dependent and not observable by the property: drop ranks
    can_obs = (tuple(sorted((f[0], f[1], f[5]) for f in can[0])), can[1], can[2], can[3])
    sched = w.sched
    res = {
        "obs": obs, "canon": can_obs, "violations": vl, "choices": list(sched.choices),
        "points": [(p["n"], p["running_enabled"]) for p in sched.points], "error": repr(err) if err else None,
        "preemptions": sched.preemptions(), "trace_len": len(sched.trace),
    }
    w.close()
    return res


def explore_schedules(c, uris, limit, bound, prehistory, label, cap=20000):
    """Iterative context bounding: all schedules with <= bound preemptions.  `cap` bounds the number of
    executions of one exploration (never reached on the unchanged tree: 2-3 pool threads; an edit that
    hands out one task per thread makes the free choices at thread ends factorial) - a capped
    exploration is reported as capped (category schedule_cap_hit, evidence exhaustive=false)."""
    executions = 0
    outcomes = {}
    stack = [[]]
    seen_prefix = set()
    while stack:
        if executions >= cap:
            c.cat("schedule_cap_hit")
            c.extra_flags = getattr(c, "extra_flags", set()) | {label}
            break
        prefix = stack.pop()
        r = run_one_schedule(uris, limit, prefix, prehistory)
        executions += 1
        c.evaluations += 1
        if r["choices"][:len(prefix)] != list(prefix):
            raise RuntimeError(f"replay divergence: asked {prefix}, got {r['choices']}")
        key = (repr(r["obs"]), repr(r["canon"]))
        outcomes.setdefault(key, list(r["choices"]))
        if r["preemptions"] > 0:
            c.cat("preempted_schedule")
        if r["error"]:
            c.violation({"engine": "sched", "request": label, "choices": r["choices"], "check": "deadlock/divergence"},
                        f"schedule {r['choices']} of {label}: {r['error']}")
        for check, what in r["violations"]:
            c.violation({"engine": "sched", "request": label, "limit": limit, "choices": r["choices"], "check": check},
                        f"{check}: {what} under schedule {r['choices']} of {label}")
        # children: deviate at every later choice point
        pre = 0
        pre_before = []
        for i, (ch, (n, running_enabled)) in enumerate(zip(r["choices"], r["points"])):
            pre_before.append(pre)
            if running_enabled and ch != 0:
                pre += 1
        for i in range(len(prefix), len(r["choices"])):
            n, running_enabled = r["points"][i]
            for alt in range(1, n):
                cost = pre_before[i] + (1 if running_enabled else 0)
                if cost > bound:
                    continue
                child = tuple(r["choices"][:i]) + (alt,)
                if child not in seen_prefix:
                    seen_prefix.add(child)
                    stack.append(list(child))
    return executions, outcomes


def run_sched(unit):
    c = Collector()
    uris = small_uris(unit["n"], unit.get("missing_at"))
    limit = unit["limit"]
    pre = [("get", [u]) for u in unit.get("pre", [])]
    label = f"get[{unit['n']} uris, missing_at={unit.get('missing_at')}, pre={len(pre)}, limit={limit}]"
    # reference outcome: the sequential run of the same history
    ws = lab.World(size_bytes=limit, parallel=False)
    trs = Tracker(ws.cache.config.max_size_bytes)
    vl = []
    for op in pre:
        apply_op(ws, trs, op, lambda a, b: vl.append((a, b)))
    obs_seq = apply_op(ws, trs, ("get", uris), lambda a, b: vl.append((a, b)), stats=c)
    can = canon(ws, trs)
    can_seq = (tuple(sorted((f[0], f[1], f[5]) for f in can[0])), can[1], can[2], can[3])
    ws.close()
    for check, what in vl:
        c.violation({"engine": "sched", "request": label, "check": check, "mode": "sequential"}, f"{check}: {what}")
    executions, outcomes = explore_schedules(c, uris, limit, unit["bound"], pre, label,
                                             cap=3000 if unit["tier"] == "quick" else 20000)
    for (o, k), choices in outcomes.items():
        if o != repr(obs_seq) or k != repr(can_seq):
            c.violation({"engine": "sched", "request": label, "limit": limit, "choices": choices, "check": "I8 sequential!=parallel"},
                        f"I8: schedule {choices} of {label} gives {o[:200]} / {k[:200]}, sequential gives {repr(obs_seq)[:200]} / {repr(can_seq)[:200]}")
    # determinism self-check: replay the last schedule twice
    c.extra = {"schedules": executions, "distinct_schedule_outcomes": len(outcomes),
               "preemption_bound": unit["bound"], "schedule_explorations_capped": int(c.categories.get("schedule_cap_hit", 0))}
    c.nontriv(n=executions)
    c.case({"unit": unit["name"], "executions": executions, "outcomes": len(outcomes)})
    c.sample({"request": label, "preemption_bound": unit["bound"], "schedules": executions,
              "example_choices": list(outcomes.values())[0]})
    lab.cleanup_scratch()
    return c.result()


# --------------------------------------------------------------------------------------------
def units(tier):
    us = []
    # quick: depth 3, requests of 1..2 URIs.  thorough: depth 4 with requests of 1..2 URIs and,
    # separately, depth 3 with requests of 1..3 URIs (shards partition by the first operation)
    configs = [(3, 2, 8)] if tier == "quick" else [(4, 2, 32), (3, 3, 16)]
    for depth, maxlen, nshards in configs:
        # 2500 / 3500: zero, one or several evictions; 1500: a hit plus a miss together exceed the limit
        # although the miss alone fits (the enlargement must count the whole request)
        for limit in (2500, 3500, 1500):
            for s in range(nshards):
                us.append({"name": f"bfs:d{depth}:get{maxlen}:limit{limit}:shard{s}", "kind": "bfs", "limit": limit,
                           "depth": depth, "maxlen": maxlen, "first": s, "nshards": nshards, "cost": 10 * depth})
    for limit in (2500, 3500):
        us.append({"name": f"bfs-module-api:limit{limit}", "kind": "bfs", "limit": limit, "depth": 2, "api": "module", "cost": 3})
        us.append({"name": f"bfs-relative-path:limit{limit}", "kind": "bfs", "limit": limit, "depth": 2, "api": "relative", "cost": 3})
    for limit in (2500,):
        us.append({"name": f"two-caches:limit{limit}", "kind": "two", "limit": limit, "depth": 3 if tier == "quick" else 4, "cost": 12})
    if tier == "quick":
        reqs = [(6, None, 1), (6, 0, 1), (6, 5, 1), (7, 3, 1)]
    else:
        reqs = [(6, None, 2)] + [(6, i, 2) for i in range(6)] + [(7, None, 2), (7, 0, 2), (7, 6, 2), (11, None, 2), (11, 5, 2), (11, 10, 1)]
    for n, miss, bound in reqs:
        for limit in (1300, 100000):
            us.append({"name": f"sched:n{n}:missing{miss}:limit{limit}", "kind": "sched", "n": n, "missing_at": miss,
                       "bound": bound, "limit": limit, "pre": [lab.SCHEME + "s11", lab.SCHEME + "s10"], "cost": 5})
    return us


def run_unit(unit):
    if unit["kind"] == "two":
        return run_two(unit)
    return run_bfs(unit) if unit["kind"] == "bfs" else run_sched(unit)


def finalize(coverage, results, tier):
    coverage["exhaustive"] = not coverage.get("schedule_explorations_capped")
    coverage.setdefault("states", 0)
    coverage.setdefault("transitions", 0)
    coverage["explanation"] = (
        "states/transitions are summed over BFS shards (shards partition the histories by their first operation and "
        "de-duplicate states within a shard); every transition was executed on the real FileCache in both download modes, "
        "so traces_validated_against_impl == transitions; 'schedules' counts complete executions of the pool explorer."
    )
