"""C08  Wind-input and whitecapping source terms: sign, support, scaling at fixed roughness,
bulk rates integrate the spectral rates, imbalance = generation + dissipation - dE/dt,
batch member == singleton.

Engine E1 (product-space enumeration).  The alphabet is a lattice of JONSWAP / PM wind seas,
swell+sea mixtures and structured non-negative spectra with zero bins on two (frequency,
direction) grids, crossed with wind speed (U10 and u* input), wind direction every 30 degrees,
depth {inf, 20, 5} m and a supplied roughness length.  Every case is evaluated twice through the
public classes: as a member of a batch (batch sizes cycle 1..8, neighbours in a batch differ in
spectrum, wind and direction) and alone, and the two must agree; all other oracles are evaluated
on every member.  The oracles are plain numpy: sign / exact zeros (the "no downwind component"
set is computed in integer half-degrees), proportionality, and sum(rate * df * dtheta).
"""
import math
import traceback

import numpy as np

from mc.common import Collector, make_2d, close

ID = "C08"
LEVEL = "exploration"
RULE = (
    "full product spectrum x wind type/speed x wind direction (every 30 deg) x depth x supplied roughness "
    "{1e-4, 3e-3, solved} for the wind input (units = grid x shard of the spectrum index); spectrum x depth x parameter set "
    "for ST4 / ST6 / Romero dissipation (Romero on the strictly positive subset); spectrum x wind x "
    "dE/dt variant x parameter set for the balance. Named restrictions: quick tier takes one mean "
    "direction per (shape,Hs,fp,width) combination ('diag_meandir': 45 deg * (combination index mod 8)) "
    "and the wind speeds {U10 1, 10, 40; u* 0.5, 1.5}; 'params_by_parity': the parameter set (default / non-default) "
    "is chosen by the parity of the case indices; the balance units use four fixed winds and (quick) every third "
    "spectrum. Every case is run inside "
    "a batch (sizes cycle 1..8) and alone. Object reuse: for each kind of object (ST4 input, ST4 / ST6 / Romero "
    "dissipation, st4/st4 and st4/st6 balance) ONE object is run on every ordered sequence of three out of five "
    "spectra (two on grid A, one each on two other grids of the same (12,16) shape, one of shape (20,24)), all "
    "methods at every step, and on every ordered pair of (spectrum, single method) operations with a change of "
    "grid; every result must equal that of a freshly constructed object, and bulk = sum(rate*df*dtheta) with the "
    "spectrum's own bin widths. A case is non-trivial when the spectrum has energy and the "
    "rate it produces is non-zero in at least one bin; distinct = distinct case labels."
)
ASSUMPTIONS = [
    "lattice of spectra / winds, not the continuum; 'random non-negative spectra with zero bins' are represented "
    "by deterministic patterns (checkerboard, modular pattern, single bin/row/column, last row only)",
    "spectrum objects have exactly one leading dimension (the source-term API requires (points, nf, nd) arrays); "
    "a batch of 1 is the singleton",
    "sign / support / scaling of the wind input are demanded at a supplied roughness length, and for the "
    "internally solved roughness only when that roughness is finite (a NaN roughness is C10's subject)",
    "NUMBA_NUM_THREADS=1 (runner default): prange loops are executed by one thread",
    "Romero dissipation is only evaluated on strictly positive spectra (it divides by the bin saturation)",
]
REQUIRED_CATEGORIES = [
    "reuse_sequences", "reuse_method_pairs", "reuse_grid_switch_same_shape", "reuse_shape_switch",
    "input_positive_bins", "input_zero_no_downwind", "input_zero_no_energy", "input_bins_at_exactly_90deg",
    "input_solved_roughness_finite", "input_scaling_checked", "input_ustar", "input_u10",
    "diss_negative_bins", "diss_zero_no_energy", "diss_empty_spectrum", "diss_identically_zero_nonempty",
    "finite_depth", "batch_size_1", "batch_size_8", "nondefault_parameters", "romero_cases",
    "imbalance_with_dEdt", "imbalance_without_dEdt", "bulk_checked",
]

G = 9.81

# ----------------------------------------------------------------------------------------
# alphabet
# ----------------------------------------------------------------------------------------
GRIDS = {
    # geometric frequencies (non-uniform df); 16 non-uniform directions (bin widths 15..30 degrees) on multiples
    # of 7.5 degrees, so that bins exactly 90 degrees off the wind occur
    "A": dict(f=0.05 * 1.25 ** np.arange(12),
              d=np.array([0, 22.5, 45, 60, 90, 112.5, 135, 150, 180, 202.5, 225, 247.5, 270, 300, 315, 337.5])),
    # uniform frequencies, directions offset by 5 degrees (no bin is ever exactly 90 degrees off a 30-degree wind)
    "B": dict(f=0.04 + 0.04 * np.arange(20), d=5.0 + 15.0 * np.arange(24)),
}
DEPTHS = [np.inf, 20.0, 5.0]
WIND_DIRS = [30.0 * i for i in range(12)]
WINDS = [("u10", 1.0), ("u10", 5.0), ("u10", 10.0), ("u10", 20.0), ("u10", 40.0),
         ("friction_velocity", 0.1), ("friction_velocity", 0.5), ("ustar", 1.5)]
Z0S = [1e-4, 3e-3]
SCALES = [0.5, 3.7, 1e-3]

NONDEFAULT = {
    "st4_input": dict(wave_age_tuning_parameter=0.008, growth_parameter_betamax=1.33, charnock_constant=0.012,
                      viscous_stress_parameter=0.1),
    "st4": dict(saturation_breaking_constant=3.0e-05, saturation_breaking_directional_control=0.3,
                saturation_integration_width_degrees=70, saturation_threshold=0.0005,
                cumulative_breaking_constant=0.2, cumulative_breaking_max_relative_frequency=0.7),
    "st6": dict(p1=3, p2=5, a1=1e-5, a2=3e-5, saturation_threshold=0.03 ** 2),
    "romero": dict(saturation_breaking_constant=2.0, saturation_threshold=0.004,
                   saturation_integrated_threshold=0.0009, breaking_probability_constant=5e-5),
}


def steps(f, d):
    """bin widths of a grid, written out: central differences with mirrored ends; wrapped forward difference."""
    f = np.asarray(f, dtype=float)
    ext = np.concatenate([[2 * f[0] - f[1]], f, [2 * f[-1] - f[-2]]])
    df = 0.5 * (ext[2:] - ext[:-2])
    d = np.asarray(d, dtype=float)
    nxt = np.roll(d, -1)
    dth = (nxt - d + 180.0) % 360.0 - 180.0
    return df, dth


def freq_shape(f, kind, fp):
    s = f ** -5.0 * np.exp(-1.25 * (fp / f) ** 4)
    if kind == "jonswap":
        sig = np.where(f <= fp, 0.07, 0.09)
        s = s * 3.3 ** np.exp(-0.5 * ((f / fp - 1) / sig) ** 2)
    return s


def dir_shape(d, mean, width):
    p = 4.0 / ((math.pi * width / 90.0) ** 2) - 2.0
    a = (d - mean + 180.0) % 360.0 - 180.0
    co = np.cos(np.radians(a))
    return np.where(np.abs(a) < 90.0, np.clip(co, 0.0, None) ** p, 0.0)


def parametric(grid, kind, hs, fp, mean, width):
    f, d = grid["f"], grid["d"]
    df, dth = steps(f, d)
    E = freq_shape(f, kind, fp)[:, None] * dir_shape(d, mean, width)[None, :]
    m0 = float(np.sum(E * df[:, None] * dth[None, :]))
    return E * ((hs / 4.0) ** 2 / m0)


def spectra(grid_name, tier, mean_dirs="tier"):
    """-> list of (label, E).  Ordered simplest first."""
    grid = GRIDS[grid_name]
    nf, nd = len(grid["f"]), len(grid["d"])
    out = []
    i, j = np.meshgrid(np.arange(nf), np.arange(nd), indexing="ij")
    out.append(("empty", np.zeros((nf, nd))))
    for a in (0.002, 0.05):
        out.append((f"checker:{a}", np.where((i + j) % 2 == 0, a, 0.0)))
        out.append((f"mod5:{a}", a * ((7 * i + 3 * j) % 5) / 4.0))
        out.append((f"row:{a}", np.where(i == nf // 2, a, 0.0)))
        out.append((f"lastrow:{a}", np.where(i == nf - 1, a, 0.0)))
        out.append((f"column:{a}", np.where(j == nd // 4, a, 0.0)))
        for (bi, bj) in ((0, 0), (nf - 1, nd - 1), (nf // 2, nd // 4)):
            out.append((f"bin{bi}.{bj}:{a}", np.where((i == bi) & (j == bj), a, 0.0)))
    combo = 0
    for kind in ("jonswap", "pm"):
        for hs in (0.5, 2.0, 5.0):
            for fp in (0.08, 0.15, 0.3):
                for width in (15.0, 40.0):
                    if mean_dirs == "tier":
                        means = [45.0 * (combo % 8)] if tier == "quick" else [45.0 * m for m in range(8)]
                    else:
                        means = mean_dirs
                    for mean in means:
                        out.append((f"{kind}:hs{hs}:fp{fp}:dir{mean:g}:w{width:g}",
                                    parametric(grid, kind, hs, fp, mean, width)))
                    combo += 1
    for (a, b) in ((0.0, 90.0), (135.0, 300.0), (270.0, 270.0), (45.0, 225.0)):
        E = parametric(grid, "jonswap", 2.0, 0.08, a, 15.0) + parametric(grid, "pm", 1.5, 0.3, b, 40.0)
        out.append((f"mix:swell{a:g}:sea{b:g}", E))
    return out


def positive_spectra(grid_name, tier):
    """strictly positive subset for Romero: every spectrum with energy, lifted by a floor."""
    out = []
    for label, E in spectra(grid_name, tier):
        if E.max() <= 0:
            continue
        out.append((label + "+floor", E + 1e-4 * E.max()))
    return out


def stride_order(n):
    """deterministic permutation in which neighbours are far apart in the product order (so that the
    members of one batch differ in spectrum, speed and direction)."""
    if n <= 2:
        return list(range(n))
    s = max(1, int(n * 0.381966))
    while math.gcd(s, n) != 1:
        s += 1
    return [(p * s) % n for p in range(n)]


def chunks(items):
    """batch sizes cycle 1,2,...,8."""
    out, pos, size = [], 0, 1
    while pos < len(items):
        out.append(items[pos:pos + size])
        pos += size
        size = size % 8 + 1
    return out


# ----------------------------------------------------------------------------------------
# helpers around the library objects
# ----------------------------------------------------------------------------------------
class V:
    """violation funnel: at most 4 listed per (term, check) so that one failure class cannot crowd
    out the others in the capped list; all are counted."""

    def __init__(self, c):
        self.c = c
        self.n = {}

    def add(self, key, what, **detail):
        g = (key.get("term"), key.get("check"))
        self.n[g] = self.n.get(g, 0) + 1
        if self.n[g] <= 4:
            self.c.violation(key, what, **detail)
        else:
            self.c.violations_total += 1


class Pool:
    """spectrum objects are expensive to build (about 6 ms); keep one per batch size and refill its
    variance density and depth in place (the library reads both afresh on every call)."""

    def __init__(self, f, d):
        self.f, self.d, self.objs = f, d, {}

    def get(self, Es, depths):
        Es = np.asarray(Es, dtype=float)
        n = Es.shape[0]
        deps = np.broadcast_to(np.asarray(depths, dtype=float), (n,))
        if n not in self.objs:
            self.objs[n] = make_2d(self.f, self.d, np.zeros_like(Es), depth=np.full(n, np.inf))
        sp = self.objs[n]
        sp.dataset["variance_density"].values[...] = Es
        sp.dataset["depth"].values[...] = deps
        assert sp.variance_density.values.shape == Es.shape
        return sp


def da(sp, x):
    import xarray

    return xarray.DataArray(np.atleast_1d(np.asarray(x, dtype=float)), dims=sp.dims_space_time)


def lib(v, key, fn, *a, **k):
    """call the library; an exception inside the property's domain is a violation."""
    try:
        return fn(*a, **k)
    except Exception as exc:  # noqa
        v.add(dict(key, check="raises"), f"{getattr(fn, '__name__', fn)} raised {type(exc).__name__}: {exc}",
              traceback=traceback.format_exc()[-1500:])
        return None


def with_params(cls, update):
    p = dict(cls.default_parameters())
    for k in update:
        assert k in p, k
    p.update(update)
    return cls(p)


def make_generation(pset):
    from ocean_science_utilities.wavephysics.balance.st4_wind_input import ST4WindInput

    return ST4WindInput() if pset == "default" else with_params(ST4WindInput, NONDEFAULT["st4_input"])


def make_dissipation(term, pset):
    from ocean_science_utilities.wavephysics.balance.st4_wave_breaking import ST4WaveBreaking
    from ocean_science_utilities.wavephysics.balance.st6_wave_breaking import ST6WaveBreaking
    from ocean_science_utilities.wavephysics.balance.romero_wave_breaking import RomeroWaveBreaking

    cls = {"st4": ST4WaveBreaking, "st6": ST6WaveBreaking, "romero": RomeroWaveBreaking}[term]
    return cls() if pset == "default" else with_params(cls, NONDEFAULT[term])


def no_downwind(d, wdir):
    """bins with cos(theta - theta_w) <= 0, decided exactly: all directions are multiples of half a degree."""
    d2 = np.rint(np.asarray(d) * 2).astype(np.int64)
    w2 = int(round(wdir * 2))
    assert np.all(d2 == np.asarray(d) * 2) and w2 == wdir * 2
    diff = (d2 - w2) % 720
    dist = np.minimum(diff, 720 - diff)
    return dist >= 180, dist == 180


def integral(field, df, dth):
    terms = field * df[:, None] * dth[None, :]
    return float(np.sum(terms)), float(np.sum(np.abs(terms)))


def same(a, b):
    # atol: products that underflow into the subnormal range lose relative precision
    return bool(np.all(close(a, b, rtol=1e-12, atol=1e-300)))


# ----------------------------------------------------------------------------------------
# units
# ----------------------------------------------------------------------------------------
SHARDS = {"quick": 3, "thorough": 9}


def units(tier):
    us = []
    n = SHARDS[tier]
    for g in GRIDS:
        # the wind-input product is sharded over the spectrum index (every shard holds all winds, directions
        # and depths, so that the members of a batch differ in all of them)
        for k in range(n):
            us.append({"name": f"gen:{g}:shard{k}of{n}", "kind": "gen", "grid": g, "shard": [k, n],
                       "cost": 100 if tier == "quick" else 300})
        # the object-reuse families ride on units that compile the functions they need anyway
        for term in ("st4", "st6", "romero"):
            us.append({"name": f"diss:{term}:{g}", "kind": "diss", "grid": g, "term": term,
                       "reuse": [term + "_dissipation"] if g == "A" else [],
                       "cost": {"st4": 90, "st6": 70, "romero": 70}[term]})
        for term in ("st4", "st6"):
            reuse = [f"balance_st4_{term}"] if g == "A" else (["st4_input"] if term == "st6" else [])
            us.append({"name": f"bal:{term}:{g}", "kind": "bal", "grid": g, "term": term, "reuse": reuse,
                       "cost": (110 if term == "st4" else 100) * (1 if tier == "quick" else 3)})
    return us


# ----------------------------------------------------------------------------------------
# wind input
# ----------------------------------------------------------------------------------------
def check_input_field(c, v, key, E, R, d, wdir, what):
    """sign and support of one wind-input field."""
    nodown, exactly90 = no_downwind(d, wdir)
    if not np.all(np.isfinite(R)):
        v.add(dict(key, check=what + ":finite"), f"wind input not finite ({what})", n_bad=int(np.sum(~np.isfinite(R))))
        return False
    if np.any(R < 0):
        idx = np.unravel_index(np.argmin(R), R.shape)
        v.add(dict(key, check=what + ":sign"), f"wind input negative ({what})", index=list(map(int, idx)),
              value=float(R[idx]))
    z = (E == 0)
    if np.any(R[z] != 0):
        v.add(dict(key, check=what + ":zero_where_no_energy"), f"wind input non-zero in a bin without energy ({what})",
              n_bad=int(np.sum(R[z] != 0)), max=float(np.max(np.abs(R[z]))))
    if np.any(R[:, nodown] != 0):
        bad = np.nonzero(np.any(R[:, nodown] != 0, axis=0))[0]
        v.add(dict(key, check=what + ":zero_no_downwind"),
              f"wind input non-zero in a direction with no downwind component ({what})",
              directions=[float(x) for x in np.asarray(d)[nodown][bad]], wind_direction=wdir,
              max=float(np.max(np.abs(R[:, nodown]))))
    c.cat("input_positive_bins", int(np.sum(R > 0)))
    c.cat("input_zero_no_downwind", int(np.sum(nodown)) * R.shape[0])
    c.cat("input_zero_no_energy", int(np.sum(z)))
    c.cat("input_bins_at_exactly_90deg", int(np.sum(exactly90)) * R.shape[0])
    return True


def run_gen(unit):
    c = Collector()
    v = V(c)
    tier = unit["tier"]
    grid = GRIDS[unit["grid"]]
    f, d = grid["f"], grid["d"]
    k_shard, n_shard = unit["shard"]
    specs = spectra(unit["grid"], tier)
    wind_idx = [0, 2, 4, 6, 7] if tier == "quick" else list(range(len(WINDS)))
    psets = ["default", "nondefault"]
    gens = {p: make_generation(p) for p in psets}
    pool = Pool(f, d)
    df, dth = None, None

    # the product.  Named restriction 'params_by_parity': the parameter set is chosen by the parity of
    # (spectrum index + wind index + direction index + depth index)
    groups = {}
    for si in range(len(specs)):
        if si % n_shard != k_shard:
            continue
        for wi in wind_idx:
            wtype, speed = WINDS[wi]
            for di, wdir in enumerate(WIND_DIRS):
                for hi, depth in enumerate(DEPTHS):
                    p = psets[(si + wi + di + hi) % 2]
                    groups.setdefault((wtype, p), []).append((si, wtype, speed, wdir, p, depth))
    ns = len(SCALES)
    nz = len(Z0S)
    single_pass = 0
    for (wtype, pset), members in sorted(groups.items()):
        # batches are homogeneous in input type and parameter set (they are arguments of the call);
        # spectrum, speed, direction, depth and supplied roughness differ from member to member
        gen = gens[pset]
        members = [members[i] for i in stride_order(len(members))]
        kw = dict(wind_speed_input_type=wtype)
        for batch in chunks(members):
            n = len(batch)
            c.cat(f"batch_size_{n}")
            Es = np.stack([specs[m[0]][1] for m in batch])
            speeds = [m[2] for m in batch]
            wdirs = [m[3] for m in batch]
            deps = np.array([m[5] for m in batch])
            bkey = {"term": "st4_input", "grid": unit["grid"], "wind_type": wtype, "params": pset,
                    "batch": [specs[m[0]][0] for m in batch], "speeds": speeds, "wind_directions": wdirs,
                    "depths": deps.tolist()}

            # ---- batch evaluations -----------------------------------------------------------
            sp = pool.get(Es, deps)
            if df is None:
                df, dth = sp.frequency_step.values.copy(), sp.direction_step.values.copy()
            U, D = da(sp, speeds), da(sp, wdirs)
            res = {}
            # pass p supplies roughness Z0S[(m + p) % 2] to member m: every member sees every roughness,
            # and neighbours in one call have different ones
            zpass = [[Z0S[(m + p) % nz] for m in range(n)] for p in range(nz)]
            for p in range(nz):
                Z = da(sp, zpass[p])
                r = lib(v, bkey, gen.rate, sp, U, D, roughness_length=Z, **kw)
                b = lib(v, bkey, gen.bulk_rate, sp, U, D, roughness_length=Z, **kw)
                if r is not None and (tuple(r.dims) != tuple(sp.dims) or r.shape != Es.shape):
                    v.add(dict(bkey, check="rate:dims"), f"rate dims {r.dims} shape {r.shape}")
                    r = None
                if b is not None and (tuple(b.dims) != tuple(sp.dims_space_time) or b.shape != (n,)):
                    v.add(dict(bkey, check="bulk:dims"), f"bulk_rate dims {b.dims} shape {b.shape}")
                    b = None
                res[("rate", p)] = None if r is None else r.values
                res[("bulk", p)] = None if b is None else b.values
            zs = lib(v, bkey, gen.roughness, U, D, sp, **kw)
            rn = lib(v, bkey, gen.rate, sp, U, D, **kw)
            bn = lib(v, bkey, gen.bulk_rate, sp, U, D, **kw)
            zs = None if zs is None else zs.values
            rn = None if rn is None else rn.values
            bn = None if bn is None else bn.values
            # the scaled copies c*E of all members, as one object of 3n points
            sps = pool.get(np.concatenate([Es * cf for cf in SCALES]), np.tile(deps, ns))
            Us, Ds = da(sps, speeds * ns), da(sps, wdirs * ns)
            for p in range(nz):
                rs = lib(v, bkey, gen.rate, sps, Us, Ds, roughness_length=da(sps, zpass[p] * ns), **kw)
                res[("scaled", p)] = None if rs is None else rs.values.reshape((ns, n) + Es.shape[1:])

            # ---- members -------------------------------------------------------------------------
            for mi, (si, _, speed, wdir, _, depth) in enumerate(batch):
                label, E = specs[si]
                key = {"term": "st4_input", "grid": unit["grid"], "depth": depth, "spectrum": label,
                       "wind": [wtype, speed, wdir], "params": pset}
                c.case(key)
                sp1 = pool.get(E[None], depth)
                U1, D1 = da(sp1, [speed]), da(sp1, [wdir])
                nontrivial = False
                single_pass = (single_pass + 1) % nz
                for p in range(nz):
                    c.evaluations += 1
                    z0 = zpass[p][mi]
                    kz = dict(key, z0=z0)
                    R = res[("rate", p)]
                    B = res[("bulk", p)]
                    if R is None or B is None:
                        continue
                    R, B = R[mi], float(B[mi])
                    if p == single_pass:
                        # the same point alone (the pass that is repeated alone alternates from case to case)
                        Z1 = da(sp1, [z0])
                        r1 = lib(v, kz, gen.rate, sp1, U1, D1, roughness_length=Z1, **kw)
                        b1 = lib(v, kz, gen.bulk_rate, sp1, U1, D1, roughness_length=Z1, **kw)
                        if r1 is not None and not same(r1.values[0], R):
                            v.add(dict(kz, check="batch_vs_single:rate", batch_size=n, position=mi),
                                  "rate of a batch member differs from the rate of the same point alone",
                                  maxdiff=float(np.nanmax(np.abs(r1.values[0] - R))))
                        if b1 is not None and not same(b1.values[0], B):
                            v.add(dict(kz, check="batch_vs_single:bulk", batch_size=n, position=mi),
                                  "bulk rate of a batch member differs from the same point alone",
                                  single=float(b1.values[0]), batch=B)
                    if not check_input_field(c, v, kz, E, R, d, wdir, "fixed_z0"):
                        continue
                    nontrivial = nontrivial or bool(np.any(R > 0))
                    # proportionality at fixed roughness
                    Rs = res[("scaled", p)]
                    if Rs is not None:
                        for ci, cf in enumerate(SCALES):
                            if not same(Rs[ci, mi], cf * R):
                                v.add(dict(kz, check="scaling", factor=cf),
                                      "rate(c*E) != c*rate(E) at fixed roughness length",
                                      maxrel=float(np.max(np.abs(Rs[ci, mi] - cf * R))
                                                   / max(float(np.max(np.abs(cf * R))), 1e-300)))
                            c.cat("input_scaling_checked")
                    # bulk = sum rate df dtheta
                    ref, scale = integral(R, df, dth)
                    if not abs(B - ref) <= 1e-10 * scale:
                        v.add(dict(kz, check="bulk"), "bulk_rate != sum(rate*df*dtheta)", bulk=B, reference=ref)
                    c.cat("bulk_checked")
                # internally solved roughness
                c.evaluations += 1
                if zs is not None and rn is not None and bn is not None:
                    z1 = lib(v, key, gen.roughness, U1, D1, sp1, **kw)
                    if z1 is not None and not same(z1.values[0], zs[mi]):
                        v.add(dict(key, check="batch_vs_single:roughness", batch_size=n, position=mi),
                              "roughness of a batch member differs from the same point alone",
                              single=float(z1.values[0]), batch=float(zs[mi]))
                    if np.isfinite(zs[mi]):
                        c.cat("input_solved_roughness_finite")
                        if check_input_field(c, v, key, E, rn[mi], d, wdir, "solved_z0"):
                            ref, scale = integral(rn[mi], df, dth)
                            if not abs(float(bn[mi]) - ref) <= 1e-10 * scale:
                                v.add(dict(key, check="bulk_solved"),
                                      "bulk_rate != sum(rate*df*dtheta) (solved roughness)",
                                      bulk=float(bn[mi]), reference=ref)
                            c.cat("bulk_checked")
                            nontrivial = nontrivial or bool(np.any(rn[mi] > 0))
                    else:
                        c.cat("input_solved_roughness_nan")
                if nontrivial:
                    c.nontriv(json_key(key))
                c.cat("input_ustar" if wtype != "u10" else "input_u10")
                if np.isfinite(depth):
                    c.cat("finite_depth")
                if pset != "default":
                    c.cat("nondefault_parameters")
            if len(c.samples) < 2 and n == 3:
                c.sample({"batch": bkey, "roughness_pass_0": zpass[0], "bulk_rate_pass_0": res[("bulk", 0)],
                          "solved_roughness": zs})
    return c.result()


def json_key(key):
    return tuple(sorted((k, str(x)) for k, x in key.items()))


# ----------------------------------------------------------------------------------------
# dissipation
# ----------------------------------------------------------------------------------------
def check_diss_field(c, v, key, E, R):
    if not np.all(np.isfinite(R)):
        v.add(dict(key, check="finite"), "dissipation not finite", n_bad=int(np.sum(~np.isfinite(R))))
        return False
    if np.any(R > 0):
        idx = np.unravel_index(np.argmax(R), R.shape)
        v.add(dict(key, check="sign"), "dissipation positive", index=list(map(int, idx)), value=float(R[idx]))
    z = (E == 0)
    if np.any(R[z] != 0):
        v.add(dict(key, check="zero_where_no_energy"), "dissipation non-zero in a bin without energy",
              n_bad=int(np.sum(R[z] != 0)), max=float(np.max(np.abs(R[z]))))
    if not np.any(E > 0):
        c.cat("diss_empty_spectrum")
        if np.any(R != 0):
            v.add(dict(key, check="empty_spectrum"), "dissipation of the empty spectrum is not identically zero")
    elif not np.any(R != 0):
        c.cat("diss_identically_zero_nonempty")
    c.cat("diss_negative_bins", int(np.sum(R < 0)))
    c.cat("diss_zero_no_energy", int(np.sum(z)))
    return True


def run_diss(unit):
    c = Collector()
    v = V(c)
    term = unit["term"]
    grid = GRIDS[unit["grid"]]
    f, d = grid["f"], grid["d"]
    pool = Pool(f, d)
    df, dth = None, None
    # dissipation is cheap: all 8 mean directions in both tiers
    specs = positive_spectra(unit["grid"], "thorough") if term == "romero" else spectra(unit["grid"], "thorough")
    for pset in ("default", "nondefault"):
        dis = make_dissipation(term, pset)
        cases = [(si, dep) for si in range(len(specs)) for dep in DEPTHS]
        cases = [cases[i] for i in stride_order(len(cases))]
        for batch in chunks(cases):
            n = len(batch)
            c.cat(f"batch_size_{n}")
            Es = np.stack([specs[si][1] for si, _ in batch])
            deps = np.array([dep for _, dep in batch])
            sp = pool.get(Es, deps)
            if df is None:
                df, dth = sp.frequency_step.values.copy(), sp.direction_step.values.copy()
            bkey = {"term": term + "_dissipation", "grid": unit["grid"], "params": pset,
                    "batch": [specs[si][0] for si, _ in batch], "depths": deps.tolist()}
            R = lib(v, bkey, dis.rate, sp)
            B = lib(v, bkey, dis.bulk_rate, sp)
            M = lib(v, bkey, dis.mean_direction_degrees, sp)
            if R is not None and (tuple(R.dims) != tuple(sp.dims) or R.shape != Es.shape):
                v.add(dict(bkey, check="rate:dims"), f"rate dims {R.dims} shape {R.shape}")
                R = None
            if B is not None and (tuple(B.dims) != tuple(sp.dims_space_time) or B.shape != (n,)):
                v.add(dict(bkey, check="bulk:dims"), f"bulk_rate dims {B.dims} shape {B.shape}")
                B = None
            R = None if R is None else R.values
            B = None if B is None else B.values
            M = None if M is None else M.values
            for mi, (si, dep) in enumerate(batch):
                label, E = specs[si]
                key = {"term": term + "_dissipation", "grid": unit["grid"], "spectrum": label, "depth": dep,
                       "params": pset}
                c.case(key)
                c.evaluations += 1
                sp1 = pool.get(E[None], dep)
                r1 = lib(v, key, dis.rate, sp1)
                b1 = lib(v, key, dis.bulk_rate, sp1)
                m1 = lib(v, key, dis.mean_direction_degrees, sp1)
                if R is not None and r1 is not None and not same(r1.values[0], R[mi]):
                    v.add(dict(key, check="batch_vs_single:rate", batch_size=n, position=mi),
                          "dissipation of a batch member differs from the same point alone",
                          maxdiff=float(np.nanmax(np.abs(r1.values[0] - R[mi]))))
                if B is not None and b1 is not None and not same(b1.values[0], B[mi]):
                    v.add(dict(key, check="batch_vs_single:bulk", batch_size=n, position=mi),
                          "bulk dissipation of a batch member differs from the same point alone",
                          single=float(b1.values[0]), batch=float(B[mi]))
                if M is not None and m1 is not None and not same(m1.values[0], M[mi]):
                    v.add(dict(key, check="batch_vs_single:mean_direction", batch_size=n, position=mi),
                          "dissipation-weighted direction of a batch member differs from the same point alone",
                          single=float(m1.values[0]), batch=float(M[mi]))
                if R is None:
                    continue
                Rm = R[mi]
                if not check_diss_field(c, v, key, E, Rm):
                    continue
                if B is not None:
                    ref, scale = integral(Rm, df, dth)
                    if not abs(float(B[mi]) - ref) <= 1e-10 * scale:
                        v.add(dict(key, check="bulk"), "bulk_rate != sum(rate*df*dtheta)",
                              bulk=float(B[mi]), reference=ref)
                    c.cat("bulk_checked")
                if np.any(Rm < 0):
                    c.nontriv(json_key(key))
                if np.isfinite(dep):
                    c.cat("finite_depth")
                if pset != "default":
                    c.cat("nondefault_parameters")
                if term == "romero":
                    c.cat("romero_cases")
            if len(c.samples) < 2 and n == 3 and B is not None:
                c.sample({"batch": bkey, "bulk_rate": B})
    for fam in unit.get("reuse", []):
        run_reuse(c, v, fam, unit["tier"])
    return c.result()


# ----------------------------------------------------------------------------------------
# balance
# ----------------------------------------------------------------------------------------
BAL_WINDS = [(5.0, 0.0), (10.0, 90.0), (20.0, 210.0), (40.0, 300.0)]
DEDT = ["none", "growth", "alternating", "offset"]


def m0_reference(f, dth, X):
    """zeroth moment as the spectrum object defines it: directional sum with the bin widths, then the
    trapezoid rule over frequency."""
    e = np.sum(X * dth[None, :], axis=1)
    return float(np.sum(0.5 * (e[1:] + e[:-1]) * np.diff(f)))


def dedt(E, variant):
    nf, nd = E.shape
    i, j = np.meshgrid(np.arange(nf), np.arange(nd), indexing="ij")
    if variant == "growth":
        return 1e-4 * E
    if variant == "alternating":
        return 1e-4 * E * np.where((i + j) % 2 == 0, 1.0, -1.0)
    if variant == "offset":
        return 2e-5 * np.roll(E, 3, axis=1) - 1e-9
    raise ValueError(variant)


def run_bal(unit):
    from ocean_science_utilities.wavephysics.balance.balance import SourceTermBalance

    c = Collector()
    v = V(c)
    tier = unit["tier"]
    term = unit["term"]
    grid = GRIDS[unit["grid"]]
    f, d = grid["f"], grid["d"]
    pool, dpool = Pool(f, d), Pool(f, d)
    df, dth = None, None
    specs = spectra(unit["grid"], "quick")
    if tier == "quick":
        # named restriction 'every_third': every third spectrum of the quick list plus all mixtures
        specs = [s for i, s in enumerate(specs) if i % 3 == 0 or s[0].startswith("mix")]
    psets = ["default", "nondefault"]
    bals = {}
    for p in psets:
        gen, dis = make_generation(p), make_dissipation(term, p)
        bals[p] = (gen, dis, SourceTermBalance(gen, dis))
    groups = {}
    for si in range(len(specs)):
        for wi in range(len(BAL_WINDS)):
            for di, dep in enumerate(DEPTHS):
                for vi, variant in enumerate(DEDT):
                    # quick: 'params_by_parity'; thorough: both parameter sets
                    ps = [psets[(si + wi + di + vi) % 2]] if tier == "quick" else psets
                    for p in ps:
                        groups.setdefault((variant, p), []).append((si, wi, dep))
    for (variant, pset), members in sorted(groups.items()):
        gen, dis, bal = bals[pset]
        members = [members[i] for i in stride_order(len(members))]
        for batch in chunks(members):
            n = len(batch)
            c.cat(f"batch_size_{n}")
            Es = np.stack([specs[m[0]][1] for m in batch])
            deps = np.array([m[2] for m in batch])
            speeds = [BAL_WINDS[m[1]][0] for m in batch]
            wdirs = [BAL_WINDS[m[1]][1] for m in batch]
            sp = pool.get(Es, deps)
            if df is None:
                df, dth = sp.frequency_step.values.copy(), sp.direction_step.values.copy()
            U, D = da(sp, speeds), da(sp, wdirs)
            dE = None if variant == "none" else np.stack([dedt(E, variant) for E in Es])
            dsp = None if dE is None else dpool.get(dE, deps)
            bkey = {"term": f"balance_st4_{term}", "grid": unit["grid"], "params": pset, "dEdt": variant,
                    "batch": [specs[m[0]][0] for m in batch], "speeds": speeds, "wind_directions": wdirs,
                    "depths": deps.tolist()}
            I = lib(v, bkey, bal.evaluate_imbalance, U, D, sp, dsp)
            IB = lib(v, bkey, bal.evaluate_bulk_imbalance, U, D, sp, dsp)
            Gr = lib(v, bkey, gen.rate, sp, U, D)
            Gb = lib(v, bkey, gen.bulk_rate, sp, U, D)
            Dr = lib(v, bkey, dis.rate, sp)
            Db = lib(v, bkey, dis.bulk_rate, sp)
            if any(x is None for x in (I, IB, Gr, Gb, Dr, Db)):
                continue
            if tuple(I.dims) != tuple(sp.dims) or I.shape != Es.shape:
                v.add(dict(bkey, check="imbalance:dims"), f"imbalance dims {I.dims} shape {I.shape}")
                continue
            if tuple(IB.dims) != tuple(sp.dims_space_time) or IB.shape != (n,):
                v.add(dict(bkey, check="bulk_imbalance:dims"), f"bulk imbalance dims {IB.dims} shape {IB.shape}")
                continue
            I, IB, Gr, Gb, Dr, Db = (x.values for x in (I, IB, Gr, Gb, Dr, Db))
            for mi, (si, wi, dep) in enumerate(batch):
                label, E = specs[si]
                key = {"term": f"balance_st4_{term}", "grid": unit["grid"], "spectrum": label, "depth": dep,
                       "wind": ["u10", speeds[mi], wdirs[mi]], "params": pset, "dEdt": variant}
                c.case(key)
                c.evaluations += 1
                X = np.zeros_like(E) if dE is None else dE[mi]
                g, di = Gr[mi], Dr[mi]
                ref = g + di - X
                scale = np.abs(g) + np.abs(di) + np.abs(X)
                got = I[mi]
                with np.errstate(invalid="ignore"):
                    ok = (np.abs(got - ref) <= 1e-12 * scale) | (np.isnan(got) & np.isnan(ref))
                if not np.all(ok):
                    idx = np.unravel_index(np.argmin(ok), ok.shape)
                    v.add(dict(key, check="imbalance"), "imbalance != generation + dissipation - dE/dt",
                          index=list(map(int, idx)), got=float(got[idx]), reference=float(ref[idx]),
                          generation=float(g[idx]), dissipation=float(di[idx]), dEdt=float(X[idx]))
                gb, db = float(Gb[mi]), float(Db[mi])
                mx = 0.0 if dE is None else m0_reference(f, dth, X)
                mabs = 0.0 if dE is None else m0_reference(f, np.abs(dth), np.abs(X))
                refb = gb + db - mx
                gotb = float(IB[mi])
                if not ((math.isnan(gotb) and math.isnan(refb))
                        or abs(gotb - refb) <= 1e-10 * (abs(gb) + abs(db) + mabs)):
                    v.add(dict(key, check="bulk_imbalance"),
                          "bulk imbalance != bulk generation + bulk dissipation - m0(dE/dt)",
                          got=gotb, reference=refb, generation=gb, dissipation=db, m0_dEdt=mx)
                # the same point alone
                sp1 = pool.get(E[None], dep)
                dsp1 = None if dE is None else dpool.get(X[None], dep)
                U1, D1 = da(sp1, [speeds[mi]]), da(sp1, [wdirs[mi]])
                i1 = lib(v, key, bal.evaluate_imbalance, U1, D1, sp1, dsp1)
                ib1 = lib(v, key, bal.evaluate_bulk_imbalance, U1, D1, sp1, dsp1)
                if i1 is not None and not same(i1.values[0], got):
                    v.add(dict(key, check="batch_vs_single:imbalance", batch_size=n, position=mi),
                          "imbalance of a batch member differs from the same point alone")
                if ib1 is not None and not same(ib1.values[0], gotb):
                    v.add(dict(key, check="batch_vs_single:bulk_imbalance", batch_size=n, position=mi),
                          "bulk imbalance of a batch member differs from the same point alone",
                          single=float(ib1.values[0]), batch=gotb)
                c.cat("imbalance_without_dEdt" if dE is None else "imbalance_with_dEdt")
                if np.isnan(gotb):
                    c.cat("imbalance_nan_roughness")
                elif np.any(g > 0) and np.any(di < 0):
                    c.nontriv(json_key(key))
                if np.isfinite(dep):
                    c.cat("finite_depth")
                if pset != "default":
                    c.cat("nondefault_parameters")
            if len(c.samples) < 2 and n == 2:
                c.sample({"batch": bkey, "bulk_imbalance": IB})
    for fam in unit.get("reuse", []):
        run_reuse(c, v, fam, unit["tier"])
    return c.result()


# ----------------------------------------------------------------------------------------
# object reuse: one source-term / balance object evaluated on a history of spectra
# ----------------------------------------------------------------------------------------
# A source-term object carries no state that may depend on the spectra it has seen: every result must be
# the result a freshly constructed object gives for that spectrum.  Alphabet: five spectra - two on grid A,
# one each on two other grids of the SAME (nf, nd) shape (other frequencies, direction offset / other
# non-uniform widths) and one on a grid of a different shape.  Every ordered sequence of length 3 (all
# shorter ones are its prefixes; every step is checked) is run on one object with all methods per step, and
# every ordered pair of (spectrum, single method) operations on one object.
REUSE_GRIDS = {
    "A": GRIDS["A"],
    # same shape (12, 16): uniform frequencies, uniform directions offset by half a bin
    "A1": dict(f=0.06 + 0.04 * np.arange(12), d=11.25 + 22.5 * np.arange(16)),
    # same shape: geometric frequencies with another ratio, other non-uniform direction widths
    "A2": dict(f=0.07 * 1.2 ** np.arange(12),
               d=np.array([0, 15, 45, 75, 90, 105, 135, 165, 180, 195, 225, 240, 270, 285, 315, 345.0])),
    # different shape (20, 24)
    "B": GRIDS["B"],
}
REUSE_ITEMS = [("A", "jonswap", 2.0, 0.15, 45.0, 40.0), ("A", "pm", 3.0, 0.12, 200.0, 15.0),
               ("A1", "jonswap", 2.0, 0.15, 45.0, 40.0), ("A2", "jonswap", 2.0, 0.15, 45.0, 40.0),
               ("B", "jonswap", 2.0, 0.15, 45.0, 40.0)]
REUSE_WIND = (10.0, 60.0)
REUSE_Z0 = 1e-4


def reuse_items():
    """-> list of dict(label, grid, sp, E, df, dth): two-point spectrum objects (E at infinite depth, E/2 at 20 m)."""
    out = []
    for (g, kind, hs, fp, mean, width) in REUSE_ITEMS:
        grid = REUSE_GRIDS[g]
        E = parametric(grid, kind, hs, fp, mean, width)
        Es = np.stack([E, 0.5 * E])
        sp = make_2d(grid["f"], grid["d"], Es, depth=np.array([np.inf, 20.0]))
        df, dth = steps(grid["f"], grid["d"])
        out.append({"label": f"{g}:{kind}", "grid": g, "sp": sp, "E": Es, "df": df, "dth": dth})
    return out


def reuse_methods(term):
    """name -> function(object, item) -> ndarray, for the kind of object under test."""
    U, D = REUSE_WIND

    def wind(it):
        sp = it["sp"]
        return da(sp, [U, U]), da(sp, [D, D]), da(sp, [REUSE_Z0, REUSE_Z0])

    if term == "st4_input":
        return {
            "rate": lambda o, it: o.rate(it["sp"], wind(it)[0], wind(it)[1], roughness_length=wind(it)[2]).values,
            "bulk_rate": lambda o, it: o.bulk_rate(it["sp"], wind(it)[0], wind(it)[1],
                                                   roughness_length=wind(it)[2]).values,
            "roughness": lambda o, it: o.roughness(wind(it)[0], wind(it)[1], it["sp"]).values,
            "stress": lambda o, it: o.stress(it["sp"], wind(it)[0], wind(it)[1],
                                             roughness_length=wind(it)[2])["stress"].values,
        }
    if term.startswith("balance"):
        return {
            "rate": lambda o, it: o.evaluate_imbalance(wind(it)[0], wind(it)[1], it["sp"]).values,
            "bulk_rate": lambda o, it: o.evaluate_bulk_imbalance(wind(it)[0], wind(it)[1], it["sp"]).values,
        }
    return {
        "rate": lambda o, it: o.rate(it["sp"]).values,
        "bulk_rate": lambda o, it: o.bulk_rate(it["sp"]).values,
        "mean_direction": lambda o, it: o.mean_direction_degrees(it["sp"]).values,
    }


def reuse_factory(term, pset):
    from ocean_science_utilities.wavephysics.balance.balance import SourceTermBalance

    if term == "st4_input":
        return lambda: make_generation(pset)
    if term.startswith("balance_"):
        diss = term.split("_")[-1]
        return lambda: SourceTermBalance(make_generation(pset), make_dissipation(diss, pset))
    return lambda: make_dissipation(term.split("_")[0], pset)


def run_reuse(c, v, term, tier):
    """term: 'st4_input', 'st4_dissipation', 'st6_dissipation', 'romero_dissipation', 'balance_st4_st4',
    'balance_st4_st6'."""
    import itertools

    items = reuse_items()
    if term == "romero_dissipation":
        for it in items:  # strictly positive spectra
            it["sp"].dataset["variance_density"].values[...] = it["E"] + 1e-4 * it["E"].max()
            it["E"] = it["sp"].variance_density.values.copy()
    methods = reuse_methods(term)
    n = len(items)
    for pset in (["default"] if tier == "quick" else ["default", "nondefault"]):
        new = reuse_factory(term, pset)
        # history-free references: a fresh object per (spectrum, method)
        fresh = {}
        for i, it in enumerate(items):
            for m, fn in methods.items():
                try:
                    fresh[(i, m)] = fn(new(), it)
                except Exception as exc:  # noqa  (the stateless units report exceptions; here: not evaluable)
                    fresh[(i, m)] = None
                    c.cat("reuse_not_evaluable")
            # bulk = sum(rate * df * dtheta) with the spectrum's OWN bin widths, on the fresh object too
            if not term.startswith("balance") and fresh[(i, "rate")] is not None and fresh[(i, "bulk_rate")] is not None:
                for k in range(fresh[(i, "rate")].shape[0]):
                    ref, scale = integral(fresh[(i, "rate")][k], it["df"], it["dth"])
                    if not abs(float(fresh[(i, "bulk_rate")][k]) - ref) <= 1e-10 * scale:
                        v.add({"term": term, "family": "object_reuse", "check": "fresh:bulk", "spectrum": it["label"],
                               "params": pset}, "bulk_rate != sum(rate*df*dtheta) with the spectrum's own bin widths",
                              bulk=float(fresh[(i, "bulk_rate")][k]), reference=ref)

        def step(obj, hist, i, m):
            """evaluate method m for item i on the used object and compare with the fresh object."""
            it = items[i]
            want = fresh[(i, m)]
            if want is None:
                return
            key = {"term": term, "family": "object_reuse", "params": pset, "check": "reuse:" + m,
                   "history": [items[j]["label"] + ("" if mm is None else "." + mm) for j, mm in hist],
                   "spectrum": it["label"]}
            got = lib(v, key, methods[m], obj, it)
            c.evaluations += 1
            if got is None:
                return
            if got.shape != want.shape or not same(got, want):
                dev = float(np.nanmax(np.abs(got - want))) if got.shape == want.shape else float("nan")
                v.add(key, f"{m} from an object that was used on other spectra before differs from a fresh object",
                      max_abs_dev=dev, max_abs_fresh=float(np.nanmax(np.abs(want))))
            if m == "bulk_rate" and not term.startswith("balance") and fresh[(i, "rate")] is not None \
                    and got.shape == want.shape:
                for k in range(got.shape[0]):
                    ref, scale = integral(fresh[(i, "rate")][k], it["df"], it["dth"])
                    if not abs(float(got[k]) - ref) <= 1e-10 * scale:
                        v.add(dict(key, check="reuse:bulk_vs_integral"),
                              "bulk_rate of a used object != sum(rate*df*dtheta) with the spectrum's own bin widths",
                              bulk=float(got[k]), reference=ref)

        # (1) all ordered sequences of three spectra, every method at every step
        for seq in itertools.product(range(n), repeat=3):
            obj = new()
            hist = []
            for pos, i in enumerate(seq):
                for m in methods:
                    step(obj, hist, i, m)
                if pos > 0:
                    prev = items[seq[pos - 1]]
                    if prev["grid"] != items[i]["grid"]:
                        same_shape = prev["E"].shape == items[i]["E"].shape
                        c.cat("reuse_grid_switch_same_shape" if same_shape else "reuse_shape_switch")
                hist.append((i, None))
            c.cat("reuse_sequences")
            c.case({"term": term, "params": pset, "sequence": list(seq)})
            if len({items[i]["grid"] for i in seq}) > 1:
                c.nontriv(("reuse", term, pset, seq))
        # (2) all ordered pairs of (spectrum, single method) operations
        ops = [(i, m) for i in range(n) for m in methods]
        for (i1, m1), (i2, m2) in itertools.product(ops, repeat=2):
            if items[i1]["grid"] == items[i2]["grid"]:
                continue  # named restriction 'grid_changes': pairs on one grid are covered by (1)
            obj = new()
            step(obj, [], i1, m1)
            step(obj, [(i1, m1)], i2, m2)
            c.cat("reuse_method_pairs")
            c.case({"term": term, "params": pset, "ops": [[i1, m1], [i2, m2]]})
        if pset != "default":
            c.cat("nondefault_parameters")


def run_unit(unit):
    import time

    t0 = time.process_time()
    r = {"gen": run_gen, "diss": run_diss, "bal": run_bal}[unit["kind"]](unit)
    r["extra"]["cpu_s"] = round(time.process_time() - t0, 1)  # summed over the units in the evidence
    return r
