"""C14  Periodic coordinates and angular data interpolate across the wrap.

Engine E1 (product-space enumeration on the real code).

Part A - periodic coordinate (``interpolate_dataset_along_axis`` along ``direction`` / ``longitude`` and a
caller-declared periodic coordinate, ``interpolate_periodic(x_period=360)``, ``spectrum.interpolate({"direction":..})``):
  grid (uniform grids of 4, 8, 36 [thorough: 72] nodes x start {0, 5, 350, -170}, two non-uniform grids, descending
  grids) x layout (axis in every position of rank 1..3) x mode (linear, nearest) x data (every unit impulse, generic,
  saw-tooth, an angular variable) x target (-1000..1000 step 7.5 [thorough: 2.5], every node +- {0, 360, 720}, mid/quarter points of
  the bin that spans the wrap and of every other bin, one ulp either side of the first node and of first node + 360).
  Oracle: cyclic neighbours by an independent modular search in exact rational arithmetic; value = weighted mean of
  the two cyclic neighbours; never missing; f(x) == f(x + 360) for every pair of targets 360 apart.

Part B - angular data (``*direction*`` / ``longitude`` variables and caller-declared ones in
``interpolate_dataset_along_axis``; ``interpolate_periodic``; ``interpolate_dataframe_time``; ``Track.interpolate``;
``interpolate_at_points`` / ``interpolate_dataset`` on a (time, latitude, longitude) cube):
  start angle (12 values on both sides of both seams) x signed jump (+-{0.5, 10, 90, 170, 179.9, 180.1, 190, 270,
  350, 359}; exactly 180 excluded) x representation ([0,360), [-180,180), unwrapped) x weight {0, 1/8, 1/4, 1/2,
  3/4, 7/8, 1}.
  Oracle: the result, taken modulo 360, lies on the shorter arc between the two neighbours, between the two readings
  of "interpolated" (linear in the angle along the shorter arc; direction of the weighted mean unit vector), within
  a derived tolerance; [0,360) for direction variables.
"""
import traceback
from datetime import datetime, timedelta, timezone
from fractions import Fraction as Fr

import numpy as np

from mc.common import Collector

ID = "C14"
LEVEL = "exploration"
RULE = (
    "A: full product periodic grid (uniform n in {4,8,36[,72]} x start {0,5,350,-170}, 2 non-uniform, descending) x "
    "coordinate name {direction, longitude, caller-declared} x layout (rank 1..3, axis in every position) x mode "
    "{linear, nearest} x data {every impulse, generic, saw-tooth, angular} x target {-1000..1000 step 7.5 [thorough 2.5], every node "
    "+-{0,360,720}, mid/quarter points of every bin incl. the wrap bin (+-360), +-1ulp at first node and first node+360}. "
    "B: full product start angle (12) x signed jump (20, |jump| != 180) x representation {[0,360), [-180,180), unwrapped} "
    "x weight {0,1/8,1/4,1/2,3/4,7/8,1} x api {along_axis by name / by declaration / nearest, interpolate_periodic x "
    "discont, data frame columns, Track, at_points/interpolate_dataset on a lon-periodic cube x lon grid x dim order; "
    "every longitude node count 4..72 x construction {linspace, arange*360/n} x start {0,-180,0.1,1/3,-179.7} x "
    "{at_points, interpolate_dataset} x points {wrap-bin mid, +-360, -720, below first node, other convention}; "
    "Track / data frame long tracks {+-100 x8, +-170 x6, +-45 x10, 179.9 x4, there-and-back} x 3 starts x 3 "
    "representations; interpolate_dataset x 4 seam-straddling tracks x periodic_data {omitted, {}, another variable only, one direction "
    "variable, all angular variables}}. "
    "One evaluation = one (call, variable, target[, pair]) value compared with the reference. Non-trivial: the target "
    "falls in the bin that spans the wrap or is at least one period away from the grid (A); the pair crosses a seam, "
    "i.e. raw linear interpolation would give a different angle (B). distinct = distinct (api, grid/pair, layout, "
    "mode, target)."
)
ASSUMPTIONS = [
    "period 360 only; every bin of a periodic grid is narrower than 180 degrees (the code measures the bin width "
    "with a wrapped difference; wider bins - a partial-circle grid - are outside the alphabet, see report)",
    "jumps of exactly 180 degrees are ambiguous and excluded",
    "angular results are compared modulo 360; NdInterpolator accumulates unit vectors in complex64: tolerance "
    "max(1e-4, 2e-5/R) degrees, R = length of the weighted mean unit vector",
    "both readings of 'interpolated along the shorter arc' (linear in angle / mean unit vector) and anything between "
    "them are accepted",
    "no NaN input (NaN handling is C13)",
    "data-frame and track times are whole seconds (exact in the float64 nanosecond representation the code uses)",
    "which names are angular is the code's convention: variables / columns containing 'direction', 'longitude' "
    "variables, track longitudes, caller-declared periodic_data",
]
REQUIRED_CATEGORIES = [
    "wrap_bin", "periods_away", "at_node", "shift360_pairs", "nearest", "descending_grid", "seam_crossed",
    "jump_gt_180", "jump_near_180", "range_0_360_checked", "dataframe_direction", "dataframe_longitude",
    "track_longitude", "at_points_across_antimeridian", "at_points_angular", "interpolate_dataset_rows",
    "interpolate_dataset_explicit_periodic_data",
    "periodic_fn", "spectrum_direction", "angular_on_periodic_coordinate",
    "long_track_bins_beyond_180_from_first_fix", "every_node_count_grids", "every_node_count_wrap_bin_points",
]

T0 = datetime(2022, 1, 1, tzinfo=timezone.utc)
T0_64 = np.datetime64("2022-01-01T00:00:00", "ns")
HALF = Fr(1, 2)
AMB = Fr(1, 10 ** 9)
P360 = Fr(360)


def tb_tail():
    return traceback.format_exc()[-1500:]


# --------------------------------------------------------------------------------------------
# reference: cyclic bracket in exact arithmetic
# --------------------------------------------------------------------------------------------
class PGrid:
    def __init__(self, name, nodes):
        self.name = name
        self.nodes = [float(v) for v in nodes]
        self.n = len(nodes)
        self.q = [Fr(v) for v in self.nodes]
        self.desc = self.nodes[-1] < self.nodes[0]
        x0 = self.q[0]
        self.pos = [(x0 - v) if self.desc else (v - x0) for v in self.q]
        assert all(b > a for a, b in zip(self.pos[:-1], self.pos[1:])) and self.pos[-1] < P360
        self.width = [(self.pos[k + 1] if k + 1 < self.n else P360) - self.pos[k] for k in range(self.n)]
        assert max(self.width) < 180
        self._br = {}

    def bracket(self, t):
        """(i0, i1, f): t is at fraction f of the cyclic bin from node i0 to node i1; i0 == i1 at a node"""
        if t in self._br:
            return self._br[t]
        tq = Fr(t)
        u = ((self.q[0] - tq) if self.desc else (tq - self.q[0])) % P360
        res = None
        for k in range(self.n):
            if self.pos[k] == u:
                res = (k, k, Fr(0))
                break
        if res is None:
            for k in range(self.n):
                a = self.pos[k]
                b = self.pos[k + 1] if k + 1 < self.n else P360
                if a < u < b:
                    res = (k, (k + 1) % self.n, (u - a) / (b - a))
                    break
        assert res is not None
        self._br[t] = res
        return res

    def alts(self, t, mode):
        i0, i1, f = self.bracket(t)
        if i0 == i1:
            return [(i0, 1.0, i0, 0.0)]
        if mode == "linear":
            return [(i0, float(1 - f), i1, float(f))]
        if abs(f - HALF) <= AMB:
            return [(i0, 1.0, i1, 0.0), (i0, 0.0, i1, 1.0)]
        return [(i0, 1.0, i1, 0.0)] if f < HALF else [(i0, 0.0, i1, 1.0)]

    def cond(self, t):
        i0, i1, f = self.bracket(t)
        big = max(abs(t), 360.0, max(abs(v) for v in self.nodes))
        if i0 == i1:
            return big / float(min(self.width[i0], self.width[i0 - 1]))
        return big / float(self.width[i0])

    def targets(self, fine=False):
        if fine:  # thorough tier: the same range on a three times finer lattice
            out = [("lattice", -1000.0 + 2.5 * k) for k in range(801)]
        else:
            out = [("lattice", -1000.0 + 7.5 * k) for k in range(267)]
        for x in self.nodes:
            for s in (0.0, 360.0, -360.0, 720.0, -720.0):
                out.append(("node", x + s))
        # bins: mid and quarter points; the wrap bin also shifted by +-360
        for k in range(self.n):
            a = self.nodes[k]
            w = float(self.width[k]) * (-1.0 if self.desc else 1.0)
            wrap = k == self.n - 1
            for fr in (0.25, 0.5, 0.75):
                out.append(("wrapbin" if wrap else "bin", a + w * fr))
                if wrap:
                    out.append(("wrapbin", a + w * fr + 360.0))
                    out.append(("wrapbin", a + w * fr - 720.0))
        x0 = self.nodes[0]
        for b in (x0, x0 + 360.0, x0 - 360.0):
            out.append(("ulp", float(np.nextafter(b, -np.inf))))
            out.append(("ulp", float(np.nextafter(b, np.inf))))
        seen, res = set(), []
        for k, v in out:
            if v not in seen:
                seen.add(v)
                res.append((k, v))
        return res


def uniform(n, start):
    return [start + k * (360.0 / n) for k in range(n)]


def pgrids(tier):
    gs = []
    for n in ([4, 8, 36] if tier == "quick" else [4, 8, 36, 72]):
        for start in (0.0, 5.0, 350.0, -170.0):
            gs.append(PGrid(f"u{n}_s{int(start)}", uniform(n, start)))
    gs.append(PGrid("nu7", [0.0, 10.0, 45.0, 100.0, 200.0, 270.0, 355.0]))
    gs.append(PGrid("nu6_neg", [-170.0, -100.0, -90.0, 0.0, 3.5, 120.0]))
    gs.append(PGrid("u8_desc", list(reversed(uniform(8, 0.0)))))
    gs.append(PGrid("nu7_desc", list(reversed([0.0, 10.0, 45.0, 100.0, 200.0, 270.0, 355.0]))))
    gs.append(PGrid("u36_desc_s175", [175.0 - 10.0 * k for k in range(36)]))
    return gs


# --------------------------------------------------------------------------------------------
# reference: angular admissibility
# --------------------------------------------------------------------------------------------
def wrap180(x):
    return (np.asarray(x, dtype=float) + 180.0) % 360.0 - 180.0


def angular_ok(v, a, b, w1, tol0, k_r):
    """v library angle(s); a, b neighbour angles; w1 weight of b.  True where v (mod 360) lies between the
    linear-along-the-shorter-arc value and the mean-unit-vector direction (inclusive, +- tolerance).
    tolerance = max(tol0, k_r / R) degrees."""
    d = wrap180(b - a)
    lin = w1 * d
    z = (1.0 - w1) + w1 * np.exp(1j * np.deg2rad(d))
    R = np.abs(z)
    vec = np.rad2deg(np.angle(z))
    s = wrap180(v - a)
    with np.errstate(divide="ignore"):
        tol = np.maximum(tol0, k_r / R)
    lo = np.minimum(lin, vec) - tol
    hi = np.maximum(lin, vec) + tol
    with np.errstate(invalid="ignore"):
        return (s >= lo) & (s <= hi), s, lin, vec


TH0 = [0.0, 0.5, 45.0, 90.0, 179.0, 180.0, 181.0, 270.0, 355.0, 359.0, 359.5, 5.0]
JUMPS = [s * j for j in (0.5, 10.0, 90.0, 170.0, 179.9, 180.1, 190.0, 270.0, 350.0, 359.0) for s in (1.0, -1.0)]
CONVS = ["0_360", "pm180", "raw"]
FRACS = [0.0, 0.125, 0.25, 0.5, 0.75, 0.875, 1.0]


def represent(theta, conv):
    if conv == "0_360":
        return theta % 360.0
    if conv == "pm180":
        return (theta + 180.0) % 360.0 - 180.0
    return theta


def pair_table():
    """all (a, b) neighbour pairs of the alphabet with their true jump"""
    A, B, J = [], [], []
    for conv in CONVS:
        for th in TH0:
            for j in JUMPS:
                A.append(represent(th, conv))
                B.append(represent(th + j, conv))
                J.append(j)
    return np.array(A), np.array(B), np.array(J)


def chain(conv, start=0.0):
    """one series visiting every jump of the alphabet from drifting start angles"""
    th = [start]
    order = JUMPS + list(reversed(JUMPS))
    for j in order:
        th.append(th[-1] + j)
    return np.array([represent(t, conv) for t in th]), np.array(order)


LONG_TRACKS = {
    "east100": [100.0] * 8, "west100": [-100.0] * 8, "east170": [170.0] * 6, "west170": [-170.0] * 6,
    "east45": [45.0] * 10, "west45": [-45.0] * 10, "east179.9": [179.9] * 4, "there_and_back": [100.0] * 4 + [-100.0] * 4,
}


def chain_times(n):
    steps = [8, 16, 32, 8, 24, 64]
    t = [0]
    for k in range(n - 1):
        t.append(t[-1] + steps[k % len(steps)])
    return np.array(t, dtype="int64")  # seconds


def count_pairs(c, A, B, J, raw_linear_differs=None):
    d = wrap180(B - A)
    crossed = np.abs((B - A) - d) > 1e-9
    c.cat("seam_crossed", int(np.sum(crossed)))
    c.cat("jump_gt_180", int(np.sum(np.abs(J) > 180)))
    c.cat("jump_near_180", int(np.sum(np.abs(np.abs(J) - 180) < 0.2)))
    return crossed


# --------------------------------------------------------------------------------------------
# unit A1: periodic coordinate through interpolate_dataset_along_axis
# --------------------------------------------------------------------------------------------
PASSIVE = [("a", 2), ("b", 3)]
PLAYOUTS = [(1, 0), (2, 0), (2, 1), (3, 0), (3, 1), (3, 2)]


def layout_dims(coord, r, p):
    dims = [nm for nm, _ in PASSIVE[: r - 1]]
    dims.insert(p, coord)
    return tuple(dims)


def to_layout(V, r, p):
    pshape = tuple(s for _, s in PASSIVE[: r - 1])
    return np.moveaxis(V.reshape((V.shape[0],) + pshape), 0, p)


def from_layout(A, p):
    A = np.moveaxis(A, p, 0)
    return A.reshape(A.shape[0], -1)


def gen_values(n):
    k = np.arange(n)
    return ((k * 37 + 11) % 17) - 8.0 + 0.25 * (k % 7)


def pcoord_vars(g, r):
    P = int(np.prod([s for _, s in PASSIVE[: r - 1]])) if r > 1 else 1
    q = np.arange(P, dtype=float)
    n = g.n
    out = {"gen": gen_values(n)[:, None] * (1 + 0.5 * q)[None, :] + 3.0 * q[None, :],
           "saw": np.array(g.nodes)[:, None] * (1.0 + q)[None, :] + q[None, :]}
    imps = range(n) if n <= 8 else sorted(set([0, 1, n - 2, n - 1] + list(range(3, n, 7))))
    for j in imps:
        v = np.zeros((n, P))
        v[j, :] = 1.0 + q
        out[f"imp{j}"] = v
    k = np.arange(n, dtype=float)
    ang = (350.0 + 35.0 * np.sin(1.0 + 2.1 * k)[:, None] + 2.0 * q[None, :]) % 360.0
    return out, ang, P


def compare_rows(R, V, table, cond, exact_nodes=True):
    """indices of targets whose library row matches none of the admissible answers"""
    bad = []
    m = len(table)
    I0 = np.array([a[0][0] for a in table])
    I1 = np.array([a[0][2] for a in table])
    W0 = np.array([a[0][1] for a in table])
    W1 = np.array([a[0][3] for a in table])
    REF = W0[:, None] * V[I0] + W1[:, None] * V[I1]
    scale = np.abs(V[I0]) + np.abs(V[I1])
    atn = I0 == I1
    if not exact_nodes:
        # tolerance at a node: the target may be rounded into either adjacent bin
        nb = np.abs(V[(I0 - 1) % V.shape[0]]) + np.abs(V[(I0 + 1) % V.shape[0]])
        scale = np.where(atn[:, None], scale + nb, scale)
        TOL = 1e-12 * cond[:, None] * scale
    else:
        TOL = np.where(atn[:, None], 0.0, 1e-12 * cond[:, None] * scale)
    ok = np.all(np.abs(R - REF) <= TOL, axis=1)  # NaN in R -> False
    for j in np.nonzero(~ok)[0]:
        good = False
        for alt in table[j][1:]:
            ref = alt[1] * V[alt[0]] + alt[3] * V[alt[2]]
            if np.all(np.abs(R[j] - ref) <= 1e-12 * cond[j] * (np.abs(V[alt[0]]) + np.abs(V[alt[2]]))):
                good = True
                break
        if not good:
            bad.append(int(j))
    return bad


def run_pcoord(unit):
    import xarray
    from ocean_science_utilities.interpolate.dataset import interpolate_dataset_along_axis

    tier = unit["tier"]
    g = {x.name: x for x in pgrids(tier)}[unit["grid"]]
    coord = unit["coord"]
    c = Collector()
    if g.desc:
        c.cat("descending_grid")
    tk = g.targets(fine=(tier == "thorough"))
    tvals = [t for _, t in tk]
    targets = np.array(tvals)
    m = len(tvals)
    cond = np.array([g.cond(t) for t in tvals])
    brs = [g.bracket(t) for t in tvals]
    # bookkeeping
    lo, hi = min(g.nodes), max(g.nodes)
    wrapbin = np.array([(b[0] == g.n - 1 and b[1] == 0) for b in brs])
    away = np.array([(t < lo - 360 or t > hi + 360) for t in tvals])
    atnode = np.array([b[0] == b[1] for b in brs])
    index_of = {Fr(t): j for j, t in enumerate(tvals)}
    pairs = [(j, index_of[Fr(t) + 360]) for j, t in enumerate(tvals) if (Fr(t) + 360) in index_of]
    pj = np.array([p[0] for p in pairs])
    pk = np.array([p[1] for p in pairs])
    layouts = PLAYOUTS if (tier == "thorough" or g.n <= 8) else [(1, 0), (2, 1), (3, 1)]
    for (r, p) in layouts:
        vars_, ang, P = pcoord_vars(g, r)
        dims = layout_dims(coord, r, p)
        coords = {coord: np.array(g.nodes)}
        for nm, s in PASSIVE[: r - 1]:
            coords[nm] = np.arange(s) * 10.0
        data = {k: (dims, to_layout(v, r, p).copy()) for k, v in vars_.items()}
        data["swell_direction"] = (dims, to_layout(ang, r, p).copy())
        ds = xarray.Dataset(data, coords=coords)
        for mode in ("linear", "nearest"):
            key0 = {"api": "along_axis_periodic", "grid": g.name, "coord": coord, "layout": f"r{r}p{p}", "mode": mode}
            c.case(key0)
            kw = {}
            if coord == "theta":
                kw["periodic_coordinates"] = {"theta": 360}
            if mode == "nearest":
                kw["nearest_neighbour"] = True
                c.cat("nearest", m)
            try:
                out = interpolate_dataset_along_axis(targets.copy(), ds, coordinate_name=coord, **kw)
            except Exception as exc:  # noqa
                c.violation(dict(key0, check="raises"), f"raised {type(exc).__name__}: {exc}", traceback=tb_tail())
                continue
            table = [g.alts(t, mode) for t in tvals]
            c.cat("wrap_bin", int(wrapbin.sum()))
            c.cat("periods_away", int(away.sum()))
            c.cat("at_node", int(atnode.sum()))
            c.nontriv(n=int(np.sum(wrapbin | away)))
            for name, V in vars_.items():
                da = out[name]
                c.evaluations += m
                if tuple(da.dims) != dims or da.shape != tuple(m if d == coord else ds.sizes[d] for d in dims):
                    c.violation(dict(key0, check="shape", var=name), f"dims/shape {da.dims} {da.shape}")
                    continue
                R = from_layout(np.asarray(da.values, dtype=float), p)
                vname = name if not name.startswith("imp") else "impulse"
                if np.any(np.isnan(R)):
                    j = int(np.nonzero(np.any(np.isnan(R), axis=1))[0][0])
                    c.violation(dict(key0, check="missing on a periodic coordinate", var=vname, target_kind=tk[j][0]),
                                f"{name}: target {tvals[j]!r} gave NaN on periodic grid {g.name}", target=tvals[j],
                                nodes=g.nodes[:10])
                    continue
                bad = compare_rows(R, V, table, cond)
                for j in bad[:3]:
                    c.violation(dict(key0, check="value", var=vname, target_kind=tk[j][0]),
                                f"{name}: target {tvals[j]!r} ({tk[j][0]}) on {g.name}/{coord} {mode}: library "
                                f"{R[j][:3].tolist()} expected neighbours/weights {table[j]}",
                                target=tvals[j], nodes=g.nodes[:10], lib=R[j].tolist(),
                                expected=[list(a) for a in table[j]])
                if len(bad) > 3:
                    c.violations_total += len(bad) - 3
                # f(x) == f(x + 360)
                if len(pairs):
                    # both sides carry a weight error of a few eps*cond (see compare_rows)
                    tolp = 4e-12 * np.maximum(cond[pj], cond[pk])[:, None] * float(np.max(np.abs(V)))
                    diff = np.abs(R[pj] - R[pk])
                    okp = diff <= tolp
                    # nearest mode at a tie may legitimately flip between the two images
                    if mode == "nearest":
                        tie = np.array([len(table[j]) > 1 for j in pj])
                        okp |= tie[:, None]
                    c.cat("shift360_pairs", len(pairs))
                    if not np.all(okp):
                        i = int(np.nonzero(~np.all(okp, axis=1))[0][0])
                        c.violation(dict(key0, check="f(x)=f(x+360)", var=vname),
                                    f"{name}: targets {tvals[pj[i]]!r} and {tvals[pk[i]]!r} differ: "
                                    f"{R[pj[i]][:2].tolist()} vs {R[pk[i]][:2].tolist()}")
            # angular variable on the periodic coordinate
            da = out["swell_direction"]
            R = from_layout(np.asarray(da.values, dtype=float), p)
            c.evaluations += m
            c.cat("angular_on_periodic_coordinate", m)
            I0 = np.array([a[0][0] for a in table])
            I1 = np.array([a[0][2] for a in table])
            W1 = np.array([a[0][3] for a in table])
            ok, s, lin, vec = angular_ok(R, ang[I0], ang[I1], W1[:, None], 1e-4, 2e-5)
            for j in np.nonzero(~np.all(ok, axis=1))[0]:
                if len(table[j]) > 1:
                    a2 = table[j][1]
                    ok2 = angular_ok(R[j], ang[a2[0]], ang[a2[2]], a2[3], 1e-4, 2e-5)[0]
                    if np.all(ok2):
                        continue
                c.violation(dict(key0, check="angular value", var="swell_direction", target_kind=tk[j][0]),
                            f"swell_direction at target {tvals[j]!r}: library {R[j][:2].tolist()} neighbours "
                            f"{ang[I0[j]][:2].tolist()} / {ang[I1[j]][:2].tolist()} weight {W1[j]}")
                break
            rng_ok = (R >= 0) & (R < 360)
            c.cat("range_0_360_checked", int(R.size))
            if not np.all(rng_ok):
                j = int(np.nonzero(~np.all(rng_ok, axis=1))[0][0])
                c.violation(dict(key0, check="range [0,360)", var="swell_direction"),
                            f"direction variable outside [0,360): {R[j][:3].tolist()} at target {tvals[j]!r}")
    c.sample({"api": "interpolate_dataset_along_axis", "periodic_coordinate": coord, "grid": g.nodes[:8],
              "targets": tvals[:4] + tvals[-4:], "pairs_360_apart": len(pairs)})
    return c.result()


# --------------------------------------------------------------------------------------------
# unit A2 / B2: interpolate_periodic directly
# --------------------------------------------------------------------------------------------
def run_periodic_fn(unit):
    from ocean_science_utilities.interpolate.general import interpolate_periodic

    c = Collector()
    tier = unit["tier"]
    n_nontriv = 0
    if unit["part"] == "xperiodic":
        for g in pgrids(tier):
            if g.n > 36:
                continue
            tk = g.targets(fine=(tier == "thorough"))
            tvals = [t for _, t in tk]
            x = np.array(tvals)
            cond = np.array([g.cond(t) for t in tvals])
            table = [g.alts(t, "linear") for t in tvals]
            V = np.stack([gen_values(g.n), np.array(g.nodes)], axis=1)
            key0 = {"api": "interpolate_periodic", "x_period": 360, "grid": g.name}
            c.case(key0)
            for col, name in enumerate(("gen", "saw")):
                try:
                    r = interpolate_periodic(np.array(g.nodes), V[:, col].copy(), x.copy(), x_period=360)
                except Exception as exc:  # noqa
                    c.violation(dict(key0, check="raises"), f"raised {type(exc).__name__}: {exc}", traceback=tb_tail())
                    continue
                c.evaluations += len(tvals)
                c.cat("periodic_fn", len(tvals))
                bad = compare_rows(np.asarray(r, dtype=float)[:, None], V[:, col:col + 1], table, cond, exact_nodes=False)
                for j in bad[:3]:
                    c.violation(dict(key0, check="value", var=name, target_kind=tk[j][0]),
                                f"interpolate_periodic(x_period=360) {name}: x={tvals[j]!r} gave {r[j]!r}, expected "
                                f"{table[j]}", nodes=g.nodes[:10])
            # angular fp on a periodic x
            k = np.arange(g.n, dtype=float)
            ang = (350.0 + 35.0 * np.sin(1.0 + 2.1 * k)) % 360.0
            r = np.asarray(interpolate_periodic(np.array(g.nodes), ang.copy(), x.copy(), x_period=360, fp_period=360,
                                                fp_discont=360), dtype=float)
            I0 = np.array([a[0][0] for a in table])
            I1 = np.array([a[0][2] for a in table])
            W1 = np.array([a[0][3] for a in table])
            d = wrap180(ang[I1] - ang[I0])
            s = wrap180(r - ang[I0])
            tol = 1e-9 + 1e-12 * cond * 180.0
            okv = np.abs(wrap180(s - W1 * d)) <= tol
            # at a node the target may be rounded into the previous bin: compare with the node angle instead
            atn = I0 == I1
            okv |= atn & (np.abs(wrap180(r - ang[I0])) <= tol)
            c.evaluations += len(tvals)
            c.cat("angular_on_periodic_coordinate", len(tvals))
            n_nontriv += len(tvals)
            if not np.all(okv) or not np.all((r >= 0) & (r < 360)):
                j = int(np.nonzero(~(okv & (r >= 0) & (r < 360)))[0][0])
                c.violation(dict(key0, check="angular value", var="angle"),
                            f"interpolate_periodic(x_period=360, fp_period=360): x={tvals[j]!r} gave {r[j]!r}; "
                            f"neighbours {ang[I0[j]]!r}/{ang[I1[j]]!r} weight {W1[j]!r}")
    else:
        A, B, J = pair_table()
        crossed = count_pairs(c, A, B, J)
        for discont_name, discont, lo in (("none", None, -180.0), ("360", 360, 0.0), ("180", 180, -180.0)):
            for xp in (np.array([0.0, 8.0]), np.array([-3.0, 1.0]), np.array([1.6e18, 1.6e18 + 8e9])):
                x = xp[0] + (xp[1] - xp[0]) * np.array(FRACS)
                key0 = {"api": "interpolate_periodic", "x_period": None, "fp_discont": discont_name}
                c.case(dict(key0, xp=xp.tolist()))
                for i in range(len(A)):
                    kw = {} if discont is None else {"fp_discont": discont}
                    try:
                        r = np.asarray(interpolate_periodic(xp, np.array([A[i], B[i]]), x.copy(), fp_period=360, **kw),
                                       dtype=float)
                    except Exception as exc:  # noqa
                        c.violation(dict(key0, check="raises"), f"raised {type(exc).__name__}: {exc}",
                                    traceback=tb_tail())
                        break
                    c.evaluations += len(FRACS)
                    c.cat("periodic_fn", len(FRACS))
                    if crossed[i]:
                        n_nontriv += len(FRACS)
                    d = wrap180(B[i] - A[i])
                    err = np.abs(wrap180(r - A[i] - np.array(FRACS) * d))
                    okv = err <= 1e-9
                    if discont == 360:
                        c.cat("range_0_360_checked", len(FRACS))
                        okv &= (r >= 0) & (r < 360)
                    if not np.all(okv):
                        j = int(np.nonzero(~okv)[0][0])
                        c.violation(dict(key0, check="shorter arc", jump=float(J[i])),
                                    f"interpolate_periodic fp=[{A[i]!r},{B[i]!r}] at weight {FRACS[j]}: {r[j]!r}, "
                                    f"expected {(A[i] + FRACS[j] * d) % 360!r} (mod 360)"
                                    + (" in [0,360)" if discont == 360 else ""))
    c.nontriv(n=n_nontriv)
    c.sample({"api": "interpolate_periodic", "part": unit["part"], "pairs": len(TH0) * len(JUMPS) * len(CONVS)})
    return c.result()


# --------------------------------------------------------------------------------------------
# unit B1: angular variables through interpolate_dataset_along_axis / grid
# --------------------------------------------------------------------------------------------
ANG_NAMES = ["direction", "meanDirection", "peak_wave_direction_deg", "longitude"]


def run_angdata(unit):
    import xarray
    from ocean_science_utilities.interpolate.dataset import interpolate_dataset_along_axis, interpolate_dataset_grid

    c = Collector()
    A, B, J = pair_table()
    C = len(A)
    crossed = count_pairs(c, A, B, J)
    variant = unit["variant"]       # names | declared | grid
    coordk = unit["coord"]          # time | x | x_desc
    layout = unit["layout"]         # tc | ct | chain
    mode = unit["mode"]
    fr = np.array(FRACS)
    n_nontriv = 0
    if layout == "chain":
        series = {conv: chain(conv, start=3.0) for conv in CONVS}
        n = len(series["raw"][0])
        ts = chain_times(n)
    else:
        n = 2
        ts = np.array([0, 64], dtype="int64")
    if coordk == "time":
        cname = "time"
        nodes = T0_64 + ts * np.timedelta64(1, "s")
    elif coordk == "x":
        cname = "x"
        nodes = ts.astype(float) / 8.0 - 3.0
    else:
        cname = "x"
        nodes = -(ts.astype(float) / 8.0) + 3.0
    # targets: every fraction of every bin
    tgt, tb, tw = [], [], []
    for k in range(n - 1):
        for f in FRACS:
            if f == 1.0 and k < n - 2:
                continue
            if coordk == "time":
                tgt.append(nodes[k] + np.timedelta64(int(round(f * int(ts[k + 1] - ts[k]))), "s"))
            else:
                tgt.append(nodes[k] + f * (nodes[k + 1] - nodes[k]))
            tb.append(k)
            tw.append(f)
    tgt = np.array(tgt)
    tb = np.array(tb)
    tw = np.array(tw)
    if mode == "nearest":
        keep = tw != 0.5
        tgt, tb, tw = tgt[keep], tb[keep], tw[keep]
        tw_eff = np.rint(tw)
    else:
        tw_eff = tw
    names = ANG_NAMES if variant != "declared" else ["heading", "course_over_ground"]
    data = {}
    truth = {}
    if layout == "chain":
        for nm in names:
            for conv in CONVS:
                vals, jumps = series[conv]
                # one variable per (name, representation); the name must keep its key word
                vname = f"{nm}_{conv}" if nm != "longitude" else None
                if nm == "longitude":
                    if conv != "pm180":
                        continue
                    vname = "longitude"
                data[vname] = ((cname,), vals.copy())
                truth[vname] = (vals[:, None], jumps)
    else:
        for nm in names:
            V = np.stack([A, B], axis=0)  # (2, C)
            if layout == "tc":
                data[nm] = ((cname, "case"), V.copy())
            else:
                data[nm] = (("case", cname), V.T.copy())
            truth[nm] = (V, J)
    ds = xarray.Dataset(data, coords={cname: nodes})
    kw = {}
    if variant == "declared":
        kw["periodic_data"] = {k: (360, 360) for k in data}
    if mode == "nearest":
        kw["nearest_neighbour"] = True
        c.cat("nearest", len(tgt))
    key0 = {"api": "along_axis_angular" if variant != "grid" else "grid_angular", "variant": variant, "coord": coordk,
            "layout": layout, "mode": mode}
    c.case(key0)
    try:
        if variant == "grid":
            out = interpolate_dataset_grid({cname: tgt.copy()}, ds, **kw)
        else:
            out = interpolate_dataset_along_axis(tgt.copy(), ds, coordinate_name=cname, **kw)
    except Exception as exc:  # noqa
        c.violation(dict(key0, check="raises"), f"raised {type(exc).__name__}: {exc}", traceback=tb_tail())
        return c.result()
    for vname, (V, jumps) in truth.items():
        R = np.asarray(out[vname].values, dtype=float)
        if layout == "ct":
            R = R.T
        R = R.reshape(len(tgt), -1)
        a = V[tb]
        b = V[np.minimum(tb + 1, V.shape[0] - 1)]
        c.evaluations += int(R.size)
        ok, s, lin, vec = angular_ok(R, a, b, tw_eff[:, None], 1e-4, 2e-5)
        isdir = "direction" in vname.lower() or variant == "declared"
        kind = "direction" if isdir else "longitude"
        if isdir:
            c.cat("range_0_360_checked", int(R.size))
        d = wrap180(b - a)
        cr = np.abs((b - a) - d) > 1e-9
        n_nontriv += int(np.sum(cr & (tw_eff[:, None] > 0) & (tw_eff[:, None] < 1)))
        if layout == "chain":
            count_pairs(c, V[:-1, 0], V[1:, 0], jumps)
        if np.any(np.isnan(R)) or not np.all(ok):
            i, j = [int(q) for q in np.argwhere(~ok | np.isnan(R))[0]]
            jump = float(jumps[tb[i]]) if layout == "chain" else float(jumps[j])
            af, bf = float(np.broadcast_to(a, R.shape)[i, j]), float(np.broadcast_to(b, R.shape)[i, j])
            c.violation(dict(key0, check="shorter arc", kind=kind, abs_jump=abs(jump)),
                        f"{vname}: neighbours {af!r} -> {bf!r} weight {float(tw_eff[i])}: library {R[i, j]!r}, "
                        f"admissible offset from the first neighbour [{float(np.minimum(lin, vec)[i, j])!r}, "
                        f"{float(np.maximum(lin, vec)[i, j])!r}], got {float(s[i, j])!r}")
        if isdir and not np.all((R >= 0) & (R < 360)):
            i, j = [int(q) for q in np.argwhere(~((R >= 0) & (R < 360)))[0]]
            c.violation(dict(key0, check="range [0,360)", kind=kind),
                        f"{vname}: direction variable returned {R[i, j]!r} outside [0,360)")
    c.nontriv(n=n_nontriv)
    c.sample({"api": key0["api"], "variant": variant, "layout": layout, "neighbour_pairs": [[float(A[i]), float(B[i])] for i in (7, 13, 500)],
              "weights": FRACS})
    return c.result()


# --------------------------------------------------------------------------------------------
# unit B3: data frames and tracks
# --------------------------------------------------------------------------------------------
def run_frames(unit):
    import pandas as pd
    from ocean_science_utilities.interpolate.dataframe import interpolate_dataframe_time
    from ocean_science_utilities.interpolate.geometry import Track, TrackSet

    c = Collector()
    n_nontriv = 0
    series = [(conv, start, "chain") + chain(conv, start=start) for conv in CONVS for start in (3.0, 171.0, 358.5)]
    # long tracks: steady travel, more than 180 degrees (up to two full turns) away from the first fix
    for conv in CONVS:
        for start in (0.0, 130.0, -175.0):
            for lname, steps in LONG_TRACKS.items():
                th = start + np.concatenate([[0.0], np.cumsum(steps)])
                series.append((conv, start, lname, np.array([represent(t, conv) for t in th]), np.array(steps)))
    for conv, start, sname, vals, jumps in series:
        if True:
            n = len(vals)
            if sname != "chain":
                c.cat("long_track_bins_beyond_180_from_first_fix",
                      int(np.sum(np.abs(np.cumsum(jumps)) > 180.0)))
            ts = chain_times(n)
            t64 = T0_64 + ts * np.timedelta64(1, "s")
            crossed = count_pairs(c, vals[:-1], vals[1:], jumps)
            tgt, tb, tw = [], [], []
            for k in range(n - 1):
                for f in FRACS[:-1] if k < n - 2 else FRACS:
                    tgt.append(int(ts[k]) + int(round(f * int(ts[k + 1] - ts[k]))))
                    tb.append(k)
                    tw.append(f)
            tb, tw = np.array(tb), np.array(tw)
            new_t = T0_64 + np.array(tgt, dtype="int64") * np.timedelta64(1, "s")
            lat = -20.0 + 0.75 * np.arange(n) + 3.0 * np.sin(np.arange(n))
            a, b = vals[tb], vals[tb + 1]
            d = wrap180(b - a)
            want_rel = tw * d
            bin_ns = (ts[tb + 1] - ts[tb]).astype(float) * 1e9
            tol = 1e-9 + 1024.0 / bin_ns * np.abs(d)
            if unit["api"] == "dataframe":
                cols = {"time": t64, "meanDirection": vals, "peak_direction": vals, "WIND_DIRECTION": vals,
                        "longitude": vals, "latitude": lat, "significantWaveHeight": lat * 0.1 + 2.0}
                df = pd.DataFrame(cols)
                key0 = {"api": "interpolate_dataframe_time", "representation": conv}
                c.case(dict(key0, start=start, series=sname))
                try:
                    out = interpolate_dataframe_time(df, new_t.copy())
                except Exception as exc:  # noqa
                    c.violation(dict(key0, check="raises"), f"raised {type(exc).__name__}: {exc}", traceback=tb_tail())
                    continue
                for col in cols:
                    if col == "time":
                        continue
                    if col not in out.columns or len(out[col]) != len(tgt):
                        c.violation(dict(key0, check="column missing", column=col), f"column {col} missing/short")
                        continue
                    r = np.asarray(out[col].values, dtype=float)
                    c.evaluations += len(r)
                    if col in ("latitude", "significantWaveHeight"):
                        src = np.asarray(cols[col])
                        ref = src[tb] + tw * (src[tb + 1] - src[tb])
                        okl = np.abs(r - ref) <= 1e-9 * (1 + np.abs(ref))
                        if not np.all(okl):
                            j = int(np.nonzero(~okl)[0][0])
                            c.violation(dict(key0, check="linear column", column=col),
                                        f"{col}: {r[j]!r} expected {ref[j]!r}")
                        continue
                    isdir = "direction" in col.lower()
                    c.cat("dataframe_direction" if isdir else "dataframe_longitude", len(r))
                    n_nontriv += int(np.sum(crossed[tb] & (tw > 0) & (tw < 1)))
                    with np.errstate(invalid="ignore"):
                        okv = np.abs(wrap180(r - a - want_rel)) <= tol
                    if not np.all(okv):
                        j = int(np.nonzero(~okv)[0][0])
                        c.violation(
                            dict(key0, check="shorter arc", column=col if not isdir else "direction column",
                                 kind="direction" if isdir else "longitude"),
                            f"data frame column {col!r}: rows {a[j]!r} -> {b[j]!r} at weight {tw[j]}: got {r[j]!r}, the "
                            f"shorter arc gives {(a[j] + want_rel[j]) % 360!r} (mod 360); {int(np.sum(~okv))} of "
                            f"{len(r)} targets wrong", got=r[j], first=a[j], second=b[j], weight=tw[j])
                    if isdir:
                        c.cat("range_0_360_checked", len(r))
                        with np.errstate(invalid="ignore"):
                            okr = (r >= 0) & (r < 360)
                        if not np.all(okr):
                            j = int(np.nonzero(~okr)[0][0])
                            c.violation(dict(key0, check="range [0,360)", column="direction column"),
                                        f"{col}: {r[j]!r} outside [0,360)")
            else:
                key0 = {"api": "Track.interpolate", "representation": conv, "via": unit["via"],
                        "series": "chain" if sname == "chain" else "long track"}
                c.case(dict(key0, start=start, series=sname))
                try:
                    tr = Track.from_arrays(lat, vals, t64, "trk")
                    if unit["via"] == "track":
                        res = tr.interpolate(new_t.copy())
                    else:
                        res = TrackSet({"trk": tr}).interpolate(new_t.copy()).tracks["trk"]
                except Exception as exc:  # noqa
                    c.violation(dict(key0, check="raises"), f"raised {type(exc).__name__}: {exc}", traceback=tb_tail())
                    continue
                c.evaluations += 2 * len(tgt)
                if len(res) != len(tgt):
                    c.violation(dict(key0, check="points dropped"),
                                f"{len(tgt)} target times, {len(res)} points returned (invalid points are dropped)")
                    continue
                r = np.asarray(res.longitude, dtype=float)
                c.cat("track_longitude", len(r))
                n_nontriv += int(np.sum(crossed[tb] & (tw > 0) & (tw < 1)))
                okv = np.abs(wrap180(r - a - want_rel)) <= tol
                if not np.all(okv):
                    j = int(np.nonzero(~okv)[0][0])
                    c.violation(dict(key0, check="shorter arc", kind="longitude"),
                                f"track longitude {a[j]!r} -> {b[j]!r} at weight {tw[j]}: got {r[j]!r}, shorter arc "
                                f"gives {(a[j] + want_rel[j]) % 360!r} (mod 360)")
                rl = np.asarray(res.latitude, dtype=float)
                ref = lat[tb] + tw * (lat[tb + 1] - lat[tb])
                if not np.all(np.abs(rl - ref) <= 1e-9 * (1 + np.abs(ref))):
                    c.violation(dict(key0, check="track latitude"), "track latitude is not the linear interpolant")
                if not np.array_equal(np.asarray(res.time), new_t):
                    c.violation(dict(key0, check="track time"), "track times differ from the targets")
    c.nontriv(n=n_nontriv)
    c.sample({"api": unit["api"], "series_head": chain("pm180", 171.0)[0][:6].tolist(), "weights": FRACS})
    return c.result()


# --------------------------------------------------------------------------------------------
# unit B4: gridded data at track points (interpolate_at_points / interpolate_dataset)
# --------------------------------------------------------------------------------------------
LON_GRIDS = {
    "m180_step10": uniform(36, -180.0),
    "0_step10": uniform(36, 0.0),
    "5_step45": uniform(8, 5.0),
    "nonuniform": [-170.0, -100.0, -90.0, 0.0, 3.5, 120.0],
}
CUBE_T = np.array([0, 3600, 10800], dtype="int64")
CUBE_LAT = np.array([-10.0, 0.0, 25.0])
POINT_LON = [170.0, 175.0, 179.5, 180.0, -180.0, -179.5, -175.0, 185.0, 190.0, 535.0, -185.0, -545.0, 0.0, 2.0, 359.0,
             -1.0, 100.0, -100.0]
POINT_LAT = [-10.0, -5.0, 12.5, 25.0]
POINT_T = [0, 900, 7200, 10800]


def lin_bracket(nodes, t):
    for k, x in enumerate(nodes):
        if x == t:
            return (k, k, 0.0)
    for k in range(len(nodes) - 1):
        if nodes[k] < t < nodes[k + 1]:
            return (k, k + 1, float((Fr(float(t)) - Fr(float(nodes[k]))) / (Fr(float(nodes[k + 1])) - Fr(float(nodes[k])))))
    raise AssertionError("point outside the cube")


def cube_fields(nlon):
    idx = np.indices((len(CUBE_T), len(CUBE_LAT), nlon)).astype(float)
    s = 0.9 * idx[0] + 1.7 * idx[1] + 0.37 * idx[2]
    hs = 2.0 + np.sin(s) + 0.1 * idx[2] * (1 + idx[0]) - 0.5 * idx[1]
    d1 = (352.0 + 24.0 * np.sin(1.3 * s + 0.4)) % 360.0
    d2 = (4.0 + 24.0 * np.cos(0.7 * s)) % 360.0
    return hs, d1, d2


def corner_reference(g, pts, fields):
    """pts: list of (t, lat, lon). Returns for every point the list of (index tuple, weight)."""
    res = []
    for (t, la, lo) in pts:
        bt = lin_bracket(list(CUBE_T), t)
        bl = lin_bracket(list(CUBE_LAT), la)
        i0, i1, f = g.bracket(lo)
        bo = (i0, i1, float(f))
        corners = []
        for (a0, a1, fa) in [bt]:
            for (b0, b1, fb) in [bl]:
                for ia, wa in ((a0, 1 - fa), (a1, fa)):
                    for ib, wb in ((b0, 1 - fb), (b1, fb)):
                        for ic, wc in ((bo[0], 1 - bo[2]), (bo[1], bo[2])):
                            w = wa * wb * wc
                            if w > 0:
                                corners.append(((ia, ib, ic), w))
        res.append(corners)
    return res


def check_points(c, key0, got, pts, corners, hs, d1, names_ang, g, counts=True):
    """got: dict name -> array (N,)"""
    N = len(pts)
    across = 0
    for i in range(N):
        cs = corners[i]
        ws = np.array([w for _, w in cs])
        lons = [g.nodes[ix[2]] for ix, _ in cs]
        is_wrap = (max(lons) - min(lons)) > 180 or not (min(g.nodes) <= pts[i][2] <= max(g.nodes))
        across += int(is_wrap)
        vals = np.array([hs[ix] for ix, _ in cs])
        ref = float(np.sum(ws * vals))
        cond = g.cond(pts[i][2])
        tol = 1e-12 * cond * float(np.sum(np.abs(vals))) + 1e-13
        v = float(got["hs"][i])
        c.evaluations += 1
        if not abs(v - ref) <= tol:
            c.violation(dict(key0, check="value", var="hs", wrap=bool(is_wrap)),
                        f"hs at point (t={pts[i][0]}, lat={pts[i][1]}, lon={pts[i][2]}): library {v!r}, multilinear "
                        f"reference with cyclic longitude neighbours {ref!r}", point=list(pts[i]), lon_grid=g.nodes[:6])
            return across
        for nm, fld in names_ang.items():
            th = np.array([fld[ix] for ix, _ in cs])
            rel = wrap180(th - th[0])
            lin = float(np.sum(ws * rel))
            z = np.sum(ws * np.exp(1j * np.deg2rad(rel)))
            vec = float(np.rad2deg(np.angle(z)))
            tolr = max(1e-4, 2e-5 / abs(z)) * 2.0
            vv = float(got[nm][i])
            s = float(wrap180(vv - th[0]))
            c.evaluations += 1
            if counts:
                c.cat("at_points_angular")
            if not (min(lin, vec) - tolr <= s <= max(lin, vec) + tolr):
                c.violation(dict(key0, check="shorter arc", var=nm, wrap=bool(is_wrap)),
                            f"{nm} at point (t={pts[i][0]}, lat={pts[i][1]}, lon={pts[i][2]}): library {vv!r}; corner "
                            f"angles {th.tolist()} weights {ws.round(4).tolist()} admit "
                            f"{(th[0] + min(lin, vec)) % 360!r}..{(th[0] + max(lin, vec)) % 360!r}",
                            point=list(pts[i]))
                return across
            if not (0 <= vv < 360):
                c.violation(dict(key0, check="range [0,360)", var=nm), f"{nm} = {vv!r} outside [0,360)")
                return across
    return across


def run_points(unit):
    import xarray
    from ocean_science_utilities.interpolate.dataset import interpolate_at_points, interpolate_dataset
    from ocean_science_utilities.interpolate.geometry import Track

    c = Collector()
    g = PGrid(unit["lon_grid"], LON_GRIDS[unit["lon_grid"]])
    nlon = g.n
    hs, d1, d2 = cube_fields(nlon)
    t64 = T0_64 + CUBE_T * np.timedelta64(1, "s")
    order = unit["order"]
    base = ("time", "latitude", "longitude")
    perm = [base.index(d) for d in order]

    def arr(f):
        return np.transpose(f, perm).copy()

    ds = xarray.Dataset(
        {"hs": (order, arr(hs)), "mean_direction": (order, arr(d1)), "peak_direction": (order, arr(d2))},
        coords={"time": t64, "latitude": CUBE_LAT, "longitude": np.array(g.nodes)},
    )
    if unit["api"] == "at_points":
        pts = [(t, la, lo) for t in POINT_T for la in POINT_LAT for lo in POINT_LON]
        corners = corner_reference(g, pts, None)
        for keyorder in ("tll", "llt"):
            for indep in ("time", None):
                pd_ = {"time": T0_64 + np.array([p[0] for p in pts], dtype="int64") * np.timedelta64(1, "s"),
                       "latitude": np.array([p[1] for p in pts]), "longitude": np.array([p[2] for p in pts])}
                if keyorder == "llt":
                    pd_ = {k: pd_[k] for k in ("longitude", "latitude", "time")}
                key0 = {"api": "interpolate_at_points", "lon_grid": g.name, "dims": "".join(d[0] for d in order),
                        "points_key_order": keyorder, "independent_variable": indep or "default"}
                c.case(key0)
                try:
                    out = interpolate_at_points(ds, pd_, independent_variable=indep,
                                                periodic_coordinates={"longitude": 360},
                                                periodic_data={"mean_direction": (360, 360), "peak_direction": (360, 360)})
                except Exception as exc:  # noqa
                    c.violation(dict(key0, check="raises"), f"raised {type(exc).__name__}: {exc}", traceback=tb_tail())
                    continue
                got = {k: np.asarray(out[k].values, dtype=float) for k in ("hs", "mean_direction", "peak_direction")}
                if any(v.shape != (len(pts),) for v in got.values()):
                    c.violation(dict(key0, check="shape"), f"shape {got['hs'].shape} for {len(pts)} points")
                    continue
                across = check_points(c, key0, got, pts, corners, hs, d1,
                                      {"mean_direction": d1, "peak_direction": d2}, g)
                c.cat("at_points_across_antimeridian", across)
                c.nontriv(n=across)
    else:
        # interpolate_dataset with a Track geometry whose times are the data set's times: the track points are then
        # the given points; the front end itself declares longitude periodic and *direction* variables angular
        tracks = {
            "eastward": ([-5.0, 12.5, 20.0], [175.0, 179.5, -178.0]),
            "westward": ([20.0, 0.0, -7.5], [-176.0, 180.0, 172.0]),
            "east_0_360": ([-5.0, 12.5, 20.0], [175.0, 179.5, 182.0]),
            "greenwich": ([1.0, 2.0, 3.0], [-1.0, 0.0, 2.0]),
        }
        # a third angular field under a name the library does not recognise: angular only when the caller declares it
        d3 = (358.0 + 20.0 * np.sin(0.9 * np.indices(hs.shape).astype(float).sum(axis=0) + 1.0)) % 360.0
        ds_h = ds.assign(heading=(order, arr(d3)))
        # call forms: how the caller's periodic_data combines with the name-based defaults of the front end
        forms = {
            "omitted": None,
            "empty_dict": lambda: {},
            "other_variable_only": lambda: {"heading": (360, 360)},
            "one_direction_variable": lambda: {"mean_direction": (360, 360)},
            "all_angular_variables": lambda: {"heading": (360, 360), "mean_direction": (360, 360),
                                              "peak_direction": (360, 360)},
        }
        for tname, (lats, lons) in tracks.items():
            pts = [(int(CUBE_T[i]), lats[i], lons[i]) for i in range(3)]
            corners = corner_reference(g, pts, None)
            for fname, mk in forms.items():
                key0 = {"api": "interpolate_dataset", "lon_grid": g.name, "dims": "".join(d[0] for d in order),
                        "track": tname, "periodic_data": fname}
                c.case(key0)
                try:
                    tr = Track.from_arrays(lats, lons, t64, tname)
                    if mk is None:
                        out = interpolate_dataset(ds_h, tr)
                    else:
                        out = interpolate_dataset(ds_h, tr, periodic_data=mk())  # a fresh dictionary for every call
                    frame = out["track"]
                except Exception as exc:  # noqa
                    c.violation(dict(key0, check="raises"), f"raised {type(exc).__name__}: {exc}", traceback=tb_tail())
                    continue
                if len(frame) != 3:
                    c.violation(dict(key0, check="rows"), f"{len(frame)} rows for 3 track points")
                    continue
                c.cat("interpolate_dataset_rows", 3)
                c.cat("interpolate_dataset_explicit_periodic_data", 3 if mk is not None else 0)
                got = {k: np.asarray(frame[k].values, dtype=float)
                       for k in ("hs", "mean_direction", "peak_direction", "heading")}
                # direction variables are angular by name in every call form; 'heading' only where declared
                checks = [("mean_direction", d1, "first of two"), ("peak_direction", d2, "last of two")]
                if fname in ("other_variable_only", "all_angular_variables"):
                    checks.append(("heading", d3, "declared by the caller"))
                for nm, fld, pos in checks:
                    k1 = dict(key0, angular_variable=nm, position=pos)
                    sub = {"hs": got["hs"], nm: got[nm]}
                    across = check_points(c, k1, sub, pts, corners, hs, fld, {nm: fld}, g, counts=False)
            c.nontriv(n=across)
    c.sample({"api": unit["api"], "lon_grid": g.nodes[:5], "dims": list(order), "point_longitudes": POINT_LON[:10]})
    return c.result()


# --------------------------------------------------------------------------------------------
# unit B5: global longitude grids of EVERY node count 4..72 (two constructions, round and non-round starts) under the
# track-point interpolators: a point in the bin that spans the wrap, the same point one / two periods away, a point
# just below the first node, an interior bin in the other longitude convention
# --------------------------------------------------------------------------------------------
EVERY_N_STARTS = [("0", 0.0), ("-180", -180.0), ("0.1", 0.1), ("1/3", 1.0 / 3.0), ("-179.7", -179.7)]


def run_every_n(unit):
    import xarray
    from ocean_science_utilities.interpolate.dataset import interpolate_at_points, interpolate_dataset
    from ocean_science_utilities.interpolate.geometry import Track

    c = Collector()
    t64 = T0_64 + CUBE_T * np.timedelta64(1, "s")
    dims = ("time", "latitude", "longitude")
    for n in range(unit["n0"], unit["n1"] + 1):
        hs, d1, _ = cube_fields(n)
        for cons in ("linspace", "arange"):
            for sname, start in EVERY_N_STARTS:
                if cons == "linspace":
                    nodes = np.linspace(start, start + 360.0, n, endpoint=False)
                else:
                    nodes = start + np.arange(n) * 360.0 / n
                g = PGrid(f"{cons}_n{n}_s{sname}", nodes)
                c.cat("every_node_count_grids")
                ds = xarray.Dataset({"hs": (dims, hs), "mean_direction": (dims, d1)},
                                    coords={"time": t64, "latitude": CUBE_LAT, "longitude": nodes.copy()})
                ww = float(g.width[-1])
                w_mid = float(nodes[-1]) + 0.5 * ww
                k = n // 2
                lons = [w_mid, w_mid + 360.0, w_mid - 360.0, float(nodes[-1]) + 0.25 * ww - 720.0,
                        float(nodes[0]) - 0.25 * ww, float(nodes[k]) + 0.5 * float(g.width[k]) + (360.0 if nodes[k] < 0 else -360.0)]
                pts = [(t, la, lo) for (t, la) in ((900, -5.0), (7200, 12.5)) for lo in lons]
                corners = corner_reference(g, pts, None)
                key0 = {"api": "interpolate_at_points", "grid_family": "every node count", "n": n, "construction": cons,
                        "start": sname}
                c.case(key0)
                try:
                    out = interpolate_at_points(
                        ds, {"time": T0_64 + np.array([p[0] for p in pts], dtype="int64") * np.timedelta64(1, "s"),
                             "latitude": np.array([p[1] for p in pts]), "longitude": np.array([p[2] for p in pts])},
                        independent_variable="time", periodic_coordinates={"longitude": 360},
                        periodic_data={"mean_direction": (360, 360)})
                    got = {k_: np.asarray(out[k_].values, dtype=float) for k_ in ("hs", "mean_direction")}
                    across = check_points(c, key0, got, pts, corners, hs, d1, {"mean_direction": d1}, g)
                    c.cat("every_node_count_wrap_bin_points", across)
                    c.nontriv(n=across)
                except Exception as exc:  # noqa
                    c.violation(dict(key0, check="raises"), f"raised {type(exc).__name__}: {exc}", traceback=tb_tail())
                # the track front end (declares longitude periodic itself); fixes at the data set's time stamps
                key1 = dict(key0, api="interpolate_dataset")
                c.case(key1)
                tl = [w_mid, float(nodes[0]) - 0.25 * ww, lons[5]]
                la = [-5.0, 12.5, 20.0]
                tpts = [(int(CUBE_T[i]), la[i], tl[i]) for i in range(3)]
                try:
                    frame = interpolate_dataset(ds, Track.from_arrays(la, tl, t64, "trk"))["track"]
                    if len(frame) != 3:
                        c.violation(dict(key1, check="rows"), f"{len(frame)} rows for 3 track points")
                    else:
                        got = {k_: np.asarray(frame[k_].values, dtype=float) for k_ in ("hs", "mean_direction")}
                        across = check_points(c, key1, got, tpts, corner_reference(g, tpts, None), hs, d1,
                                              {"mean_direction": d1}, g, counts=False)
                        c.cat("every_node_count_wrap_bin_points", across)
                        c.nontriv(n=across)
                except Exception as exc:  # noqa
                    c.violation(dict(key1, check="raises"), f"raised {type(exc).__name__}: {exc}", traceback=tb_tail())
    c.sample({"api": "interpolate_at_points / interpolate_dataset", "node_counts": [unit["n0"], unit["n1"]],
              "constructions": ["np.linspace(start, start+360, n, endpoint=False)", "start + np.arange(n)*360/n"],
              "starts": [s_ for s_, _ in EVERY_N_STARTS]})
    return c.result()


# --------------------------------------------------------------------------------------------
# unit A3: spectrum.interpolate along direction
# --------------------------------------------------------------------------------------------
def run_specdir(unit):
    from ocean_science_utilities.wavespectra.spectrum import create_2d_spectrum

    c = Collector()
    tier = unit["tier"]
    gs = [g for g in pgrids(tier) if g.name in ("u8_s5", "u36_s0", "u36_s350", "nu7", "u4_s-170")]
    freq = np.array([0.05, 0.1, 0.2])
    for g in gs:
        for lead in ((), (3,)):
            shape = tuple(lead) + (3, g.n)
            idx = np.indices(shape).astype(float)
            E = 1.0 + np.sin(sum((i + 1) * 0.61 * ix for i, ix in enumerate(idx))) ** 2 + 0.25 * idx[-1]
            if lead:
                tt = [T0 + timedelta(hours=i) for i in range(lead[0])]
                s = create_2d_spectrum(freq, np.array(g.nodes), E, tt, 10.0 + np.arange(3), -120.0 + np.arange(3),
                                       dims=("time", "frequency", "direction"), depth=np.full(3, np.inf))
            else:
                s = create_2d_spectrum(freq, np.array(g.nodes), E, T0, 10.0, -120.0, dims=("frequency", "direction"))
            tk = g.targets()
            tvals = [t for _, t in tk]
            cond = np.array([g.cond(t) for t in tvals])
            table = [g.alts(t, "linear") for t in tvals]
            key0 = {"api": "spec2d.interpolate(direction)", "grid": g.name, "layout": "time" if lead else "scalar"}
            c.case(key0)
            try:
                res = s.interpolate({"direction": np.array(tvals)}, extrapolation_value=-1.0)
            except Exception as exc:  # noqa
                c.violation(dict(key0, check="raises"), f"raised {type(exc).__name__}: {exc}", traceback=tb_tail())
                continue
            got = np.asarray(res.dataset["variance_density"].values, dtype=float)
            R = np.moveaxis(got, -1, 0).reshape(len(tvals), -1)
            V = np.moveaxis(E, -1, 0).reshape(g.n, -1)
            c.evaluations += R.shape[0]
            c.cat("spectrum_direction", R.shape[0])
            brs = [g.bracket(t) for t in tvals]
            c.nontriv(n=sum(1 for b in brs if b[0] == g.n - 1 and b[1] == 0))
            bad = compare_rows(R, V, table, cond)
            for j in bad[:3]:
                c.violation(dict(key0, check="value", target_kind=tk[j][0]),
                            f"variance_density at direction {tvals[j]!r}: library {R[j][:3].tolist()}, expected "
                            f"neighbours/weights {table[j]}", nodes=g.nodes[:10])
    c.sample({"api": "FrequencyDirectionSpectrum.interpolate({'direction': ...})", "grids": [g.name for g in gs]})
    return c.result()


# --------------------------------------------------------------------------------------------
def units(tier):
    us = []
    for g in pgrids(tier):
        coords = ["direction", "longitude"] if not g.name.startswith("nu6") else ["longitude", "theta"]
        if g.name in ("u8_s5", "nu7_desc"):
            coords = ["direction", "longitude", "theta"]
        for coord in coords:
            us.append({"name": f"pcoord:{g.name}:{coord}", "kind": "pcoord", "grid": g.name, "coord": coord,
                       "cost": 50 + g.n * 6})
    us.append({"name": "periodic_fn:xperiodic", "kind": "periodic_fn", "part": "xperiodic", "cost": 150})
    us.append({"name": "periodic_fn:pairs", "kind": "periodic_fn", "part": "pairs", "cost": 150})
    for variant in ("names", "declared", "grid"):
        for coordk in ("time", "x", "x_desc"):
            for layout in ("tc", "ct", "chain"):
                for mode in ("linear", "nearest"):
                    if variant == "grid" and (layout == "ct" or coordk == "x_desc"):
                        continue
                    us.append({"name": f"angdata:{variant}:{coordk}:{layout}:{mode}", "kind": "angdata",
                               "variant": variant, "coord": coordk, "layout": layout, "mode": mode, "cost": 20})
    us.append({"name": "frames:dataframe", "kind": "frames", "api": "dataframe", "cost": 30})
    us.append({"name": "frames:track", "kind": "frames", "api": "track", "via": "track", "cost": 60})
    us.append({"name": "frames:trackset", "kind": "frames", "api": "track", "via": "trackset", "cost": 60})
    orders = [("time", "latitude", "longitude"), ("longitude", "time", "latitude")]
    if tier == "thorough":
        orders.append(("latitude", "longitude", "time"))
    for lg in LON_GRIDS:
        for order in orders:
            tag = "".join(d[0] for d in order)
            us.append({"name": f"points:at_points:{lg}:{tag}", "kind": "points", "api": "at_points", "lon_grid": lg,
                       "order": list(order), "cost": 200})
            us.append({"name": f"points:interpolate_dataset:{lg}:{tag}", "kind": "points", "api": "interpolate_dataset",
                       "lon_grid": lg, "order": list(order), "cost": 20})
    for n0 in range(4, 73, 6):
        us.append({"name": f"every_n:{n0}-{min(n0 + 5, 72)}", "kind": "every_n", "n0": n0, "n1": min(n0 + 5, 72),
                   "cost": 150})
    us.append({"name": "specdir", "kind": "specdir", "cost": 100})
    return us


def run_unit(unit):
    if "order" in unit:
        unit = dict(unit, order=tuple(unit["order"]))
    return {"pcoord": run_pcoord, "periodic_fn": run_periodic_fn, "angdata": run_angdata, "frames": run_frames,
            "points": run_points, "specdir": run_specdir, "every_n": run_every_n}[unit["kind"]](unit)
