"""C12  Equilibrium-range wind estimate: closed form and direction conventions.

Engine E1 (product-space enumeration).  Four families, each a full Cartesian product:

tail    1D spectra E = c f^-4 from node `it` upward (optionally only up to `it_end`, f^-6 beyond) on a
        rising low-frequency limb, level c x tail direction (every 15 degrees, r = 0.8, limb direction
        +100 degrees) x start node `it` (around the last window start the "mean" method scans) stacked
        along the batch axis; x frequency grid x (fmax, number_of_bins) x limb kind (below c / one
        overshooting bin) x range end x NaN-bin class x method x convention x parameter set
        (I, beta, kappa, Charnock alpha, g) x layout (time / time,latitude / flattened / no leading dims).
words   all words over {0, 1, 3, NaN}^6 on two 6-node grids with a different direction in every bin
        (peak-method oracle on structured, non power-law spectra; scaling relation for both methods).
2d      2D spectra with the tail energy in a single direction bin (every bin; N = 8, 12), in two
        adjacent bins, and in two bins that are mirror images about east / north; compared with the
        reference of the independently reduced 1D spectrum and with the library's answer for that
        1D reduction.
wrap    resultant vectors within rounding of the 0/360 seam.

Oracle (math / numpy only): u* = 8 pi^3 E_eq / (4 g I beta) with E_eq = max(E f^4) over non-NaN bins
(peak) and E_eq = c (mean; only when a NaN-free window inside the f^-4 range is scanned and every other
NaN-free scanned window has a relative variance > 1e-6 - otherwise the case is classified, not
compared); z0 = alpha u*^2/g, U10 = u*/kappa ln(10/z0) (evaluated with the returned u*);
going-to direction = atan2(b1,a1) mod 360 of the selected bin(s), in [0,360); coming-from clockwise
from north = (270 - going-to) mod 360; u*(sE) = s u*(E).
"""
import math
import traceback

import numpy as np

from mc.common import Collector, angle_diff, close, make_1d, make_2d, reshape_lead

ID = "C12"
LEVEL = "exploration"
RULE = (
    "tail family: full product grid x (fmax, number_of_bins) x limb {below c, one overshooting bin} x range end "
    "{grid end, it+nb+1} x NaN class {none, first node, mid limb, node below the range, in range, in range late, "
    "above every scanned window} x method {peak, mean} x convention {going-to ccw east, coming-from cw north} x "
    "parameter set {default, I, beta, kappa, alpha, g, all} x layout {time, (time,latitude), flattened} x batch "
    "members (start node it in 5 values around the last scanned window start) x (c in 5e-5, 2e-4, 1e-3) x "
    "(tail direction every 15 deg); layout 'no leading dims' on the restriction c=2e-4, direction in {30,195}, "
    "parameter set in {default, all}. zero family (same product on the restriction NaN class none, parameter "
    "set in {default, all}): the limb is exactly zero / the limb is followed by number_of_bins+2 exactly-zero "
    "bins / everything above a range that ends inside the grid is exactly zero, range start in "
    "{3, number_of_bins, number_of_bins+3, last admissible start, first inadmissible}: windows without any "
    "energy are scanned and are no candidates. words family: every word over {0,1,3,NaN}^6 x 2 grids x layouts x "
    "conventions x parameter sets {default, all}. 2d family: every single bin / adjacent pair / mirror pair of "
    "the N=8 and N=12 direction grids x variant {plain; one limb bin overshoots (unique arg-max of E f^4) and "
    "one energy-free direction cell of that bin is NaN; the f^-4 range ends inside the grid so that exactly one "
    "scanned window lies in it and one energy-free direction cell of a bin of that window is NaN} - a NaN "
    "direction cell is a missing cell, the reduction runs over the valid cells. A member is non-trivial when E_eq > 0 and the oracle for its method "
    "applies (mean: an admissible clean window inside the f^-4 range with margin); distinct = distinct "
    "(family, grid, scan, limb, end, NaN class, it, c, direction, method) resp. (grid, word, method) resp. "
    "(N, bin configuration, method)."
)
ASSUMPTIONS = [
    "lattice, not continuum: nothing is claimed for spectra, parameters or grids outside the stated alphabets",
    "mean method: 'exactly c' is demanded only if a NaN-free number_of_bins window inside the f^-4 range is among "
    "the scanned starts (start < argmin|f-fmax|+1-number_of_bins) and all other NaN-free scanned windows have "
    "relative variance > 1e-6 (a window whose bins are all exactly zero carries no energy and is no candidate, "
    "c > 0); any window inside the range is accepted (they all give c); for other spectra "
    "the mean method's level is not defined by the property and is not compared",
    "the direction of the f^-4 range is constant over the range (how a1/b1 are averaged over a window is not "
    "part of the property)",
    "a non-default g is passed both as grav and as gravitational_acceleration (Charnock); passing grav alone "
    "leaves the Charnock relation at 9.81 and is not enumerated",
    "viscous_constant of the Charnock relation stays at its default 0; power stays at its default 4",
    "grids have more than number_of_bins nodes (shorter grids leave the mean method without any window)",
]
REQUIRED_CATEGORIES = [
    "peak_compared", "mean_compared", "mean_not_applicable", "mean_nan_window_competes", "peak_overshoot_differs_from_c",
    "nan_bin", "coming_from_compared", "nondefault_params", "layout_time_lat", "layout_flat", "layout_scalar",
    "two_d_single_bin", "two_d_pair", "two_d_partial_nan_row", "words_peak_compared", "words_tie_or_zero_trivial", "scaling_compared",
    "zero_window_scanned_and_range_admissible", "u10_loglaw_compared", "direction_q1", "direction_q2", "direction_q3", "direction_q4", "range_ends_inside_grid",
    "wrap_seam",
]

PI = math.pi
DEFAULTS = dict(I=2.5, beta=0.012, kappa=0.4, alpha=0.012, g=9.81)
PARAMS = {
    "default": {},
    "I": {"I": 3.0},
    "beta": {"beta": 0.009},
    "kappa": {"kappa": 0.41},
    "alpha": {"alpha": 0.0185},
    "g": {"g": 9.80},
    "all": {"I": 3.0, "beta": 0.009, "kappa": 0.41, "alpha": 0.0185, "g": 9.80},
}
KW = {"I": ["directional_spreading_constant"], "beta": ["phillips_constant_beta"], "kappa": ["vonkarman_constant"],
      "alpha": ["charnock_constant"], "g": ["grav", "gravitational_acceleration"]}
METHODS = ["peak", "mean"]
CONVENTIONS = ["going_to_counter_clockwise_east", "coming_from_clockwise_north"]
LEVELS = [5e-5, 2e-4, 1e-3]
THETAS = [15.0 * k for k in range(24)]
NAN_CLASSES = ["none", "first", "limb_mid", "adjacent", "in_range", "in_range_late", "above_scan"]
LIMBS = ["below", "overshoot"]
ENDS = ["grid_end", "inside"]


def grids(tier):
    g = {
        "GA": 0.03 + 0.01 * np.arange(60),          # uniform, fmax inside
        "GB": 0.04 * 1.07 ** np.arange(45),         # geometric, fmax inside
        "GC": 0.05 + 0.01 * np.arange(36),          # ends below the default fmax
    }
    if tier == "thorough":
        g["GD"] = 0.0125 * np.arange(64)            # contains f = 0
    return g


def scans(tier):
    s = {"fmax0.5_nb20": (0.5, 20), "fmax0.5_nb8": (0.5, 8)}
    if tier == "thorough":
        s["fmax0.35_nb12"] = (0.35, 12)
    return s


def lib_kwargs(pset, fmax, nb, default_scan):
    kw = {}
    for k, v in PARAMS[pset].items():
        for name in KW[k]:
            kw[name] = v
    if not default_scan:
        kw["fmax"] = fmax
        kw["number_of_bins"] = nb
    return kw


def pvals(pset):
    p = dict(DEFAULTS)
    p.update(PARAMS[pset])
    return p


# ------------------------------------------------------------------------------------------
# reference model (no library import)
# ------------------------------------------------------------------------------------------
def n_window_starts(f, fmax, nb):
    """Number of window starts the mean method is specified to scan (starts 0..n-1)."""
    i_f = int(np.argmin(np.abs(f - fmax)))
    return min(max(1, i_f + 1 - nb), len(f) - nb)


def ustar_ref(e_eq, p):
    return 8.0 * PI ** 3 * e_eq / (4.0 * p["g"] * p["I"] * p["beta"])


def u10_ref(us, p):
    """Log law with Charnock roughness, elementwise; NaN where u* is not positive/finite."""
    us = np.asarray(us, dtype=float)
    out = np.full(us.shape, np.nan)
    ok = np.isfinite(us) & (us > 0)
    z0 = p["alpha"] * us[ok] ** 2 / p["g"]
    out[ok] = us[ok] / p["kappa"] * np.log(10.0 / z0)
    return out, ok


def going_to(a1, b1):
    return math.degrees(math.atan2(b1, a1)) % 360.0


def relvar(vals):
    """Relative variance of the non-NaN values; NaN if there are none or their mean is 0."""
    v = [x for x in vals if x == x]
    if not v:
        return float("nan")
    m = sum(v) / len(v)
    if m == 0:
        return float("nan")
    return sum((x - m) ** 2 for x in v) / len(v) / m ** 2


def classify_member(f, e, a1, b1, it, it_end, n_starts, nb):
    """Independent reading of one spectrum.  Returns dict with the peak level, the set of
    admissible peak directions, and the class of the member for the mean method."""
    nf = len(f)
    scaled = [float(e[k]) * float(f[k]) ** 4 for k in range(nf)]
    valid = [k for k in range(nf) if scaled[k] == scaled[k]]
    out = {}
    if valid:
        mx = max(scaled[k] for k in valid)
        arg = [k for k in valid if scaled[k] >= mx * (1 - 1e-12)] if mx > 0 else valid
        out["peak_level"] = mx
        dirs = set()
        okdir = mx > 0
        for k in arg:
            if not (a1[k] == a1[k] and b1[k] == b1[k]) or math.hypot(a1[k], b1[k]) <= 1e-9:
                okdir = False
            else:
                dirs.add(round(going_to(a1[k], b1[k]), 9) % 360.0)
        out["peak_dirs"] = sorted(dirs) if okdir else None
    else:
        out["peak_level"] = 0.0
        out["peak_dirs"] = None
    # ---- mean method -------------------------------------------------------------------------
    inrange = [it <= k <= it_end and scaled[k] == scaled[k] for k in range(nf)]
    good, margin_ok, nan_competes, degenerate = [], True, False, False
    out["zero_windows"] = 0
    for s in range(n_starts):
        win = scaled[s:s + nb]
        clean = all(x == x for x in win)
        if clean and all(x == 0.0 for x in win):
            # a window without any energy is no candidate for the equilibrium range (c > 0)
            out["zero_windows"] += 1
            continue
        rv = relvar(win)
        if rv != rv:
            degenerate = True
        if clean and all(inrange[s:s + nb]):
            good.append(s)
        elif clean:
            if not rv > 1e-6:
                margin_ok = False
        else:
            if not rv > 1e-6:
                nan_competes = True
    if good and margin_ok and not degenerate:
        out["mean_class"] = "nan_competes" if nan_competes else "regular"
    else:
        out["mean_class"] = "not_applicable"
    return out


# ------------------------------------------------------------------------------------------
# units
# ------------------------------------------------------------------------------------------
def units(tier):
    us = []
    for g in grids(tier):
        for sc in scans(tier):
            for limb in LIMBS:
                for end in ENDS:
                    us.append({"name": f"tail:{g}:{sc}:{limb}:{end}", "kind": "tail", "grid": g, "scan": sc,
                               "limb": limb, "end": end, "cost": 10})
    # zero family: stretches of exactly-zero bins long enough to fill a scanned window - the whole limb,
    # a gap between limb and range, everything above the range (restricted to NaN class none and the
    # parameter sets default / all)
    for g in grids(tier):
        for sc in scans(tier):
            for limb, end in (("zero", "grid_end"), ("zero_gap", "grid_end"), ("zero", "inside"), ("below", "inside_zero")):
                us.append({"name": f"zero:{g}:{sc}:{limb}:{end}", "kind": "tail", "family": "zero", "grid": g, "scan": sc,
                           "limb": limb, "end": end, "nans": ["none"], "psets": ["default", "all"], "cost": 1})
    for wg in ("W1", "W2"):
        for part in range(4):
            us.append({"name": f"words:{wg}:{part}", "kind": "words", "grid": wg, "part": part, "cost": 3})
    for n in (8, 12):
        for variant in TWO_D_VARIANTS:
            us.append({"name": f"2d:N{n}:{variant}", "kind": "2d", "N": n, "variant": variant, "cost": 4})
    us.append({"name": "wrap", "kind": "wrap", "cost": 1})
    return us


# ------------------------------------------------------------------------------------------
# calling the library
# ------------------------------------------------------------------------------------------
def call(c, key, spectrum, method, convention, kw):
    """-> (u*, direction, u10) flattened, or None after recording a 'raises' violation."""
    from ocean_science_utilities.wavephysics.windestimate import estimate_u10_from_spectrum

    try:
        ds = estimate_u10_from_spectrum(spectrum, method, direction_convention=convention, **kw)
        return (np.asarray(ds["friction_velocity"].values, dtype=float).ravel(),
                np.asarray(ds["direction"].values, dtype=float).ravel(),
                np.asarray(ds["u10"].values, dtype=float).ravel())
    except Exception as exc:  # noqa
        if key is not None:
            c.violation(dict(key, check="raises"), f"estimate_u10_from_spectrum raised {type(exc).__name__}: {exc}",
                        traceback=traceback.format_exc()[-1500:])
        return None


def build_1d(f, E, a1, b1, layout):
    z = np.zeros_like(E)
    if layout == "time":
        return make_1d(f, E, a1, b1, z, z)
    Es, As, Bs = (reshape_lead(x, "time_lat", x.shape[1:]) for x in (E, a1, b1))
    zs = np.zeros_like(Es)
    return make_1d(f, Es, As, Bs, zs, zs, flat=(layout == "flat"))


def first_bad(mask):
    idx = np.nonzero(mask)[0]
    return int(idx[0]), int(len(idx))


def quadrant_cats(c, thetas):
    for t in thetas:
        c.cat("direction_q%d" % (int(t // 90) % 4 + 1))


def generic_checks(c, key, us, dr, u10, p, convention, going=None):
    """Checks that hold for every member whatever the selected bins are: log law from the returned
    u*, direction range, convention relation against the going-to answer of the same input."""
    ref, ok = u10_ref(us, p)
    bad = ok & ~close(u10, ref, rtol=1e-12)
    c.cat("u10_loglaw_compared", int(np.sum(ok)))
    if np.any(bad):
        i, n = first_bad(bad)
        c.violation(dict(key, check="u10 log law"),
                    f"u10={u10[i]!r} but u*/kappa ln(10 g/(alpha u*^2))={ref[i]!r} for the returned u*={us[i]!r} ({n} members)",
                    member=i, count=n, params=p)
    nanus = np.isnan(us)
    bad = nanus & ~np.isnan(u10)
    if np.any(bad):
        i, n = first_bad(bad)
        c.violation(dict(key, check="u10 of NaN u*"), f"u10={u10[i]!r} for u*=NaN ({n} members)", member=i, count=n)
    fin = np.isfinite(dr)
    bad = fin & ~((dr >= 0.0) & (dr < 360.0))
    if np.any(bad):
        i, n = first_bad(bad)
        c.violation(dict(key, check="direction in [0,360)"), f"direction={dr[i]!r} outside [0,360) ({n} members)",
                    member=i, count=n)
    if going is not None:
        both = np.isfinite(going) & fin
        c.cat("coming_from_compared", int(np.sum(both)))
        exp = (270.0 - going) % 360.0
        bad = both & ~(angle_diff(dr, exp) <= 1e-9)
        bad |= np.isfinite(going) != fin
        if np.any(bad):
            i, n = first_bad(bad)
            c.violation(dict(key, check="convention"),
                        f"coming-from direction {dr[i]!r} != (270 - going-to {going[i]!r}) mod 360 = {exp[i]!r} ({n} members)",
                        member=i, count=n)


# ------------------------------------------------------------------------------------------
# tail family
# ------------------------------------------------------------------------------------------
def it_alphabet(nf, n_starts, nb):
    vals = {3, max(4, n_starts // 2), n_starts - 1, n_starts, nf - 6}
    return sorted(v for v in vals if 3 <= v <= nf - 2)


def tail_member(f, it, it_end, c0, theta, limb, nan_idx, zero_top=False, zero_gap=0):
    nf = len(f)
    k = np.arange(nf)
    ft, fe = f[it], f[it_end]
    with np.errstate(divide="ignore"):
        e = np.where(k >= it, c0 * np.where(f > 0, f, 1.0) ** -4.0, c0 * ft ** -4.0 * (f / ft) ** 2.0)
    e = np.where(k > it_end, 0.0 if zero_top else c0 * fe ** -4.0 * (f / fe) ** -6.0, e)
    if limb == "zero":            # no energy at all below the range
        e = np.where(k < it, 0.0, e)
    elif limb == "zero_gap":      # rising limb, then number_of_bins+2 empty bins, then the range
        e = np.where((k < it) & (k >= it - zero_gap), 0.0, e)
    if limb == "overshoot":
        j = it - 3
        if f[j] > 0:
            e[j] = 1.8 * c0 * f[j] ** -4.0
    th = np.where(k >= it, theta, theta + 100.0)
    a1 = 0.8 * np.cos(np.radians(th))
    b1 = 0.8 * np.sin(np.radians(th))
    if nan_idx is not None:
        e[nan_idx] = np.nan
    return e, a1, b1


def nan_index(cls, it, it_end, nb, n_starts, nf):
    if cls == "none":
        return None
    if cls == "first":
        return 0
    if cls == "limb_mid":
        return max(1, it // 2)
    if cls == "adjacent":
        return it - 1
    if cls == "in_range":
        return min(it + 3, it_end)
    if cls == "in_range_late":
        return min(it + nb, nf - 1)
    if cls == "above_scan":
        return max(n_starts - 1 + nb, min(it + 1, nf - 1))
    raise ValueError(cls)


def run_tail(unit):
    c = Collector()
    tier = unit["tier"]
    f = grids(tier)[unit["grid"]]
    fmax, nb = scans(tier)[unit["scan"]]
    default_scan = (fmax, nb) == (0.5, 20)
    limb, end = unit["limb"], unit["end"]
    nf = len(f)
    n_starts = n_window_starts(f, fmax, nb)
    its = it_alphabet(nf, n_starts, nb)
    zero_family = unit.get("family") == "zero"
    if zero_family and limb != "below":
        # the empty stretch must be able to hold a whole window: range starts at / just above number_of_bins
        its = sorted({3} | {v for v in (nb, nb + 3, n_starts - 1, n_starts) if nb <= v <= nf - 2})
    nan_classes = unit.get("nans", NAN_CLASSES)
    all_psets = unit.get("psets", list(PARAMS))
    members = [(it, c0, th) for it in its for c0 in LEVELS for th in THETAS]
    scalar_members = [i for i, (it, c0, th) in enumerate(members) if c0 == 2e-4 and th in (30.0, 195.0)]
    ukey = {"family": unit.get("family", "tail"), "grid": unit["grid"], "scan": unit["scan"], "limb": limb, "end": end}
    scalar_mean_raises = 0
    scalar_mean_example = None
    nan_window_bad = {}

    for nan_cls in nan_classes:
        n = len(members)
        E = np.empty((n, nf)); A1 = np.empty((n, nf)); B1 = np.empty((n, nf))
        info = []
        for i, (it, c0, th) in enumerate(members):
            it_end = nf - 1 if end == "grid_end" else min(it + nb + 1, nf - 1)
            ni = nan_index(nan_cls, it, it_end, nb, n_starts, nf)
            E[i], A1[i], B1[i] = tail_member(f, it, it_end, c0, th, limb, ni, zero_top=(end == "inside_zero"),
                                             zero_gap=nb + 2)
            m = classify_member(f, E[i], A1[i], B1[i], it, it_end, n_starts, nb)
            m.update(it=it, c=c0, theta=th, it_end=it_end, nan_idx=ni)
            info.append(m)
        peak_level = np.array([m["peak_level"] for m in info])
        peak_dir = np.array([m["peak_dirs"][0] if m["peak_dirs"] and len(m["peak_dirs"]) == 1 else np.nan for m in info])
        cvals = np.array([m["c"] for m in info])
        theta = np.array([m["theta"] for m in info])
        mcls = np.array([m["mean_class"] for m in info])
        regular = mcls == "regular"
        competes = mcls == "nan_competes"
        c.cat("mean_not_applicable", int(np.sum(mcls == "not_applicable")))
        c.cat("zero_window_scanned_and_range_admissible", int(np.sum([m["zero_windows"] > 0 and m["mean_class"] == "regular" for m in info])))
        c.cat("mean_nan_window_competes", int(np.sum(competes)))
        c.cat("peak_overshoot_differs_from_c", int(np.sum(~close(peak_level, cvals, rtol=1e-9))))
        if nan_cls != "none":
            c.cat("nan_bin", n)
        if end != "grid_end":
            c.cat("range_ends_inside_grid", int(np.sum([m["it_end"] < nf - 1 for m in info])))
        quadrant_cats(c, theta)
        c.case({"unit": unit["name"], "nan": nan_cls, "members": n})
        if nan_cls == "adjacent":
            i0 = len(members) // 2
            c.sample({"family": "tail", "grid": unit["grid"], "scan": unit["scan"], "limb": limb, "end": end, "nan": nan_cls,
                      "member": {k: info[i0][k] for k in ("it", "c", "theta", "it_end", "nan_idx", "mean_class", "peak_level")}})

        for layout in ("time", "time_lat", "flat", "scalar"):
            if layout == "scalar":
                sel = scalar_members
                specs = [make_1d(f, E[i], A1[i], B1[i], np.zeros(nf), np.zeros(nf)) for i in sel]
                psets = ["default", "all"]
                c.cat("layout_scalar", len(sel))
            else:
                sel = list(range(n))
                specs = [build_1d(f, E, A1, B1, layout)]
                psets = all_psets
                c.cat("layout_" + layout, n)
            sel = np.array(sel)
            for method in METHODS:
                for pset in psets:
                    p = pvals(pset)
                    kw = lib_kwargs(pset, fmax, nb, default_scan)
                    if pset != "default":
                        c.cat("nondefault_params", len(sel))
                    going = None
                    for convention in CONVENTIONS:
                        key = dict(ukey, nan=nan_cls, layout=layout, method=method, params=pset, convention=convention)
                        c.evaluations += len(sel)
                        if layout == "scalar":
                            outs = []
                            for sp in specs:
                                r = call(c, None, sp, method, convention, kw)
                                if r is None:
                                    # aggregated: one violation per unit (see end of run_tail)
                                    if method == "mean":
                                        scalar_mean_raises += 1
                                        scalar_mean_example = scalar_mean_example or dict(key)
                                    else:
                                        call(c, key, sp, method, convention, kw)
                                    outs = None
                                    break
                                outs.append(r)
                            if outs is None:
                                continue
                            us, dr, u10 = (np.concatenate([o[j] for o in outs]) for j in range(3))
                        else:
                            r = call(c, key, specs[0], method, convention, kw)
                            if r is None:
                                continue
                            us, dr, u10 = r
                        if us.shape != (len(sel),):
                            c.violation(dict(key, check="shape"), f"result has {us.shape} members, expected {len(sel)}")
                            continue
                        generic_checks(c, key, us, dr, u10, p, convention, going)
                        if convention == CONVENTIONS[0]:
                            going = dr
                        # ---- closed form -------------------------------------------------------
                        if method == "peak":
                            ref = ustar_ref(peak_level[sel], p)
                            cmp_mask = np.ones(len(sel), dtype=bool)
                            dir_ref = peak_dir[sel]
                            c.cat("peak_compared", len(sel))
                        else:
                            ref = ustar_ref(cvals[sel], p)
                            cmp_mask = regular[sel]
                            dir_ref = theta[sel]
                            c.cat("mean_compared", int(np.sum(cmp_mask)))
                        if convention == CONVENTIONS[1]:
                            dir_ref = (270.0 - dir_ref) % 360.0
                        bad = cmp_mask & ~close(us, ref, rtol=1e-12)
                        if np.any(bad):
                            i, nbad = first_bad(bad)
                            m = info[sel[i]]
                            c.violation(dict(key, check="closed form"),
                                        f"u*={us[i]!r}, closed form 8 pi^3 E_eq/(4 g I beta)={ref[i]!r} "
                                        f"(ratio {us[i] / ref[i] if ref[i] else float('nan'):.12g}; it={m['it']}, c={m['c']}, {nbad} members)",
                                        member=int(sel[i]), count=nbad, it=m["it"], c=m["c"], theta=m["theta"], params=p)
                        dmask = cmp_mask & np.isfinite(dir_ref)
                        bad = dmask & ~(angle_diff(dr, dir_ref) <= 1e-9)
                        if np.any(bad):
                            i, nbad = first_bad(bad)
                            m = info[sel[i]]
                            c.violation(dict(key, check="direction"),
                                        f"direction={dr[i]!r}, expected {dir_ref[i]!r} (tail direction {m['theta']}, it={m['it']}, {nbad} members)",
                                        member=int(sel[i]), count=nbad, it=m["it"], theta=m["theta"])
                        for i in np.nonzero(cmp_mask)[0]:
                            m = info[sel[i]]
                            if m["peak_level"] > 0:
                                c.nontriv((nan_cls, m["it"], m["c"], m["theta"], method))
                        # ---- mean: a NaN bin makes a window look flat (classified separately) ---------
                        if method == "mean":
                            cm = competes[sel]
                            bad = cm & ~(close(us, ref, rtol=1e-12) & (angle_diff(dr, dir_ref) <= 1e-9))
                            if np.any(bad):
                                i, nbad = first_bad(bad)
                                m = info[sel[i]]
                                d = nan_window_bad.setdefault(nan_cls, {"count": 0, "example": None})
                                d["count"] += nbad
                                if d["example"] is None:
                                    d["example"] = {"key": key, "member": int(sel[i]), "it": m["it"], "c": m["c"],
                                                    "theta": m["theta"], "nan_idx": m["nan_idx"], "u_star": float(us[i]),
                                                    "expected_u_star": float(ref[i]), "direction": float(dr[i]),
                                                    "expected_direction": float(dir_ref[i])}

    for nan_cls, d in sorted(nan_window_bad.items()):
        ex = d["example"]
        c.violation(dict(ukey, method="mean", check="nan_bin_in_window", nan=nan_cls),
                    f"mean method: a clean {nb}-bin window lies inside the c f^-4 range, but with a NaN bin ({nan_cls}, node "
                    f"{ex['nan_idx']}, range starts at node {ex['it']}) u*={ex['u_star']!r} (expected {ex['expected_u_star']!r}), "
                    f"direction={ex['direction']!r} (expected {ex['expected_direction']!r}); {d['count']} member results",
                    **d)
    if scalar_mean_raises:
        sp = make_1d(f, E[scalar_members[0]], A1[scalar_members[0]], B1[scalar_members[0]], np.zeros(nf), np.zeros(nf))
        key = dict(ukey, layout="scalar", method="mean")
        n0 = c.violations_total
        call(c, key, sp, "mean", CONVENTIONS[0], lib_kwargs("default", fmax, nb, default_scan))
        if c.violations_total > n0 and c.violations:
            c.violations[-1]["detail"]["count"] = scalar_mean_raises
    return c.result()


# ------------------------------------------------------------------------------------------
# words family (peak-method oracle on structured spectra)
# ------------------------------------------------------------------------------------------
WGRIDS = {
    "W1": np.array([0.1, 0.2, 0.3, 0.4, 0.5, 0.6]),
    "W2": np.array([0.08, 0.1, 0.15, 0.3, 0.31, 0.7]),
}
LETTERS = [0.0, 1.0, 3.0, float("nan")]


def run_words(unit):
    c = Collector()
    f = WGRIDS[unit["grid"]]
    nf = len(f)
    # W1: E = letter * 1e-3 (levels differ by f^4 only); W2: E = letter * 2e-4 f^-4 (exact ties between equal letters)
    base = np.full(nf, 1e-3) if unit["grid"] == "W1" else 2e-4 * f ** -4.0
    phi = np.array([(k * 67.0 + 5.0) % 360.0 for k in range(nf)])
    a1r = 0.6 * np.cos(np.radians(phi))
    b1r = 0.6 * np.sin(np.radians(phi))
    words = []
    nw = len(LETTERS) ** nf
    for w in range(unit["part"], nw, 4):
        digits = [(w // len(LETTERS) ** k) % len(LETTERS) for k in range(nf)]
        words.append(digits)
    n = len(words)
    E = np.array([[LETTERS[d] * base[k] for k, d in enumerate(dg)] for dg in words])
    A1 = np.tile(a1r, (n, 1))
    B1 = np.tile(b1r, (n, 1))
    info = [classify_member(f, E[i], A1[i], B1[i], nf, nf, 0, 3) for i in range(n)]
    peak_level = np.array([m["peak_level"] for m in info])
    unique_peak = np.array([m["peak_dirs"] is not None and len(m["peak_dirs"]) == 1 for m in info])
    c.cat("nan_bin", int(np.sum(np.isnan(E).any(axis=1))))
    ukey = {"family": "words", "grid": unit["grid"], "part": unit["part"]}
    c.case(dict(ukey, n=n))
    c.sample(dict(ukey, word=[str(LETTERS[d]) for d in words[n // 2]], peak_level=float(peak_level[n // 2]),
                  peak_dirs=info[n // 2]["peak_dirs"]))
    for layout in ("time", "time_lat", "flat"):
        spec = build_1d(f, E, A1, B1, layout)
        scaled = {s: build_1d(f, E * s, A1, B1, layout) for s in (4.0, 0.3)}
        c.cat("layout_" + layout, n)
        for pset in ("default", "all"):
            p = pvals(pset)
            kw = lib_kwargs(pset, 0.5, 20, True)
            for method in METHODS:
                kwm = dict(kw)
                if method == "mean":
                    kwm["number_of_bins"] = 3
                going = None
                for convention in CONVENTIONS:
                    key = dict(ukey, layout=layout, method=method, params=pset, convention=convention)
                    c.evaluations += n
                    r = call(c, key, spec, method, convention, kwm)
                    if r is None:
                        continue
                    us, dr, u10 = r
                    if us.shape != (n,):
                        c.violation(dict(key, check="shape"), f"result has {us.shape} members, expected {n}")
                        continue
                    generic_checks(c, key, us, dr, u10, p, convention, going)
                    if convention == CONVENTIONS[0]:
                        going = dr
                    if method == "peak":
                        ref = ustar_ref(peak_level, p)
                        bad = ~close(us, ref, rtol=1e-12)
                        c.cat("words_peak_compared", n)
                        if np.any(bad):
                            i, nbad = first_bad(bad)
                            c.violation(dict(key, check="closed form"),
                                        f"u*={us[i]!r}, closed form with max(E f^4)={ref[i]!r} for word "
                                        f"{[str(LETTERS[d]) for d in words[i]]} ({nbad} members)", member=i, count=nbad)
                        ndir_bad, first = 0, None
                        for i, m in enumerate(info):
                            if m["peak_dirs"] is None:
                                c.cat("words_tie_or_zero_trivial")
                                continue
                            if len(m["peak_dirs"]) > 1:
                                c.cat("words_tie_or_zero_trivial")
                            cand = np.array(m["peak_dirs"])
                            if convention == CONVENTIONS[1]:
                                cand = (270.0 - cand) % 360.0
                            if not (np.isfinite(dr[i]) and np.min(angle_diff(dr[i], cand)) <= 1e-8):
                                ndir_bad += 1
                                first = i if first is None else first
                            if len(m["peak_dirs"]) == 1:
                                c.nontriv((unit["grid"], tuple(words[i]), "peak"))
                        if ndir_bad:
                            i = first
                            c.violation(dict(key, check="direction"),
                                        f"direction={dr[i]!r}, admissible {info[i]['peak_dirs']} (going-to) for word "
                                        f"{[str(LETTERS[d]) for d in words[i]]} ({ndir_bad} members)", member=i, count=ndir_bad)
                    # ---- scaling: u*(sE) = s u*(E); the mean method only with s = 4 (exact in binary, so
                    # the same window wins) ------------------------------------------------------------------
                    if convention == CONVENTIONS[0]:
                        for s, sspec in scaled.items():
                            if method == "mean" and s != 4.0:
                                continue
                            rs = call(c, dict(key, scale=s), sspec, method, convention, kwm)
                            if rs is None:
                                continue
                            c.cat("scaling_compared", n)
                            bad = ~close(rs[0], s * us, rtol=1e-12)
                            okd = np.isfinite(dr) & np.isfinite(rs[1])
                            if s != 4.0:  # inexact scaling may flip which of several tied bins is the peak
                                okd &= unique_peak
                            bad |= okd & (us > 0) & ~(angle_diff(rs[1], dr) <= 1e-9)
                            if np.any(bad):
                                i, nbad = first_bad(bad)
                                c.violation(dict(key, check="scaling", scale=s),
                                            f"u*({s} E)={rs[0][i]!r} != {s} * u*(E) = {s * us[i]!r} (directions {rs[1][i]!r}, {dr[i]!r}; {nbad} members)",
                                            member=i, count=nbad)
                            if method == "mean":
                                for i in np.nonzero(np.isfinite(us) & (us > 0))[0]:
                                    c.nontriv((unit["grid"], tuple(words[i]), "mean-scaling"))
    return c.result()


# ------------------------------------------------------------------------------------------
# 2D family
# ------------------------------------------------------------------------------------------
TWO_D_VARIANTS = ["plain", "nan_cell_in_peak_bin", "nan_cell_in_only_window"]


def reduce_2d(e2, d):
    """Independent 1D reduction of (nf, nd) densities on a uniform direction grid; a NaN direction
    cell is a missing cell and contributes nothing (a frequency without any valid cell has e = 0)."""
    nd = len(d)
    dth = 360.0 / nd
    v = np.where(np.isnan(e2), 0.0, e2)
    e = np.sum(v * dth, axis=-1)
    with np.errstate(invalid="ignore", divide="ignore"):
        a1 = np.sum(v * np.cos(np.radians(d)) * dth, axis=-1) / e
        b1 = np.sum(v * np.sin(np.radians(d)) * dth, axis=-1) / e
    return e, a1, b1


def run_2d(unit):
    c = Collector()
    N = unit["N"]
    d = np.arange(N) * 360.0 / N
    dth = 360.0 / N
    f = grids("quick")["GA"]
    nf = len(f)
    fmax, nb = 0.5, 20
    n_starts = n_window_starts(f, fmax, nb)
    variant = unit.get("variant", "plain")
    c0 = 2e-4
    if variant == "nan_cell_in_peak_bin":
        # one limb bin overshoots (unique arg-max of E f^4); a direction cell of that bin is NaN
        it, it_end, limb = n_starts // 2, nf - 1, "overshoot"
        nan_row = it - 3
    elif variant == "nan_cell_in_only_window":
        # the f^-4 range holds exactly one scanned window; a direction cell inside it is NaN
        it, limb = n_starts - 1, "below"
        it_end = it + nb + 1
        nan_row = it + 5
    else:
        it, it_end, limb, nan_row = n_starts // 2, nf - 1, "below", None
    e1, _, _ = tail_member(f, it, it_end, c0, 0.0, limb, None)
    k = np.arange(nf)
    configs = []  # (name, tail weights {bin: w}, limb bin)
    for j in range(N):
        configs.append((f"single:{j}", {j: 1.0}, (j + 2) % N))
    for j in range(N):
        configs.append((f"adjacent:{j}", {j: 0.75, (j + 1) % N: 0.25}, (j + 3) % N))
    for j in range(1, (N + 1) // 2):
        configs.append((f"mirror_east:{j}", {j: 0.5, (N - j) % N: 0.5}, N // 2))
    q = N // 4
    for j in range(1, q + 1):
        configs.append((f"mirror_north:{j}", {(q + j) % N: 0.5, (q - j) % N: 0.5}, (3 * q) % N))
    n = len(configs)
    E2 = np.zeros((n, nf, N))
    for i, (name, wts, lb) in enumerate(configs):
        for jb, w in wts.items():
            E2[i, k >= it, jb] = w * e1[k >= it] / dth
        E2[i, k < it, lb] = e1[k < it] / dth
        if nan_row is not None:
            # a cell that holds no energy: the reduction of the valid cells is unchanged
            empty = [j for j in range(N) if E2[i, nan_row, j] == 0.0]
            E2[i, nan_row, empty[i % len(empty)]] = np.nan
            c.cat("two_d_partial_nan_row")
    E1 = np.empty((n, nf)); A1 = np.empty((n, nf)); B1 = np.empty((n, nf))
    info = []
    for i in range(n):
        E1[i], A1[i], B1[i] = reduce_2d(E2[i], d)
        m = classify_member(f, E1[i], A1[i], B1[i], it, it_end, n_starts, nb)
        m["theta"] = going_to(float(A1[i, it]), float(B1[i, it]))
        info.append(m)
    if any(m["mean_class"] != "regular" for m in info):
        raise AssertionError("2d family: the reduced spectra are expected to be regular for the mean method")
    theta = np.array([m["theta"] for m in info])
    peak_level = np.array([m["peak_level"] for m in info])
    if any(m["peak_dirs"] is not None and len(m["peak_dirs"]) != 1 for m in info):
        raise AssertionError("2d family: at most one admissible peak direction is expected")
    # NaN = ill-conditioned (resultant <= 1e-9, e.g. two opposite bins): classified, not compared
    peak_theta = np.array([m["peak_dirs"][0] if m["peak_dirs"] else np.nan for m in info])
    theta = np.where(np.hypot(A1[:, it], B1[:, it]) > 1e-9, theta, np.nan)
    c.cat("two_d_direction_ill_conditioned", int(np.sum(np.isnan(theta))))
    if variant == "nan_cell_in_peak_bin" and not np.all(peak_level > 1.5 * c0):
        raise AssertionError("2d family: the overshooting bin is expected to be the peak")
    quadrant_cats(c, theta[np.isfinite(theta)])
    c.cat("two_d_single_bin", N)
    c.cat("two_d_pair", n - N)
    ukey = {"family": "2d", "N": N, "variant": variant}
    c.case(dict(ukey, configs=[x[0] for x in configs]))
    c.sample(dict(ukey, config=configs[N + 1][0], reduced_direction=float(theta[N + 1]), it=it, c=c0))
    seam = np.array([name.startswith("mirror_east") for name, _, _ in configs])
    seam_bad = 0
    seam_example = None
    for layout in ("time", "time_lat", "flat"):
        if layout == "time":
            s2 = make_2d(f, d, E2)
        else:
            s2 = make_2d(f, d, reshape_lead(E2, "time_lat", E2.shape[1:]), flat=(layout == "flat"))
        s1 = build_1d(f, E1, A1, B1, layout)
        c.cat("layout_" + layout, n)
        for pset in PARAMS:
            p = pvals(pset)
            kw = lib_kwargs(pset, fmax, nb, True)
            if pset != "default":
                c.cat("nondefault_params", n)
            for method in METHODS:
                going = None
                for convention in CONVENTIONS:
                    key = dict(ukey, layout=layout, method=method, params=pset, convention=convention)
                    c.evaluations += n
                    r = call(c, key, s2, method, convention, kw)
                    if r is None:
                        continue
                    us, dr, u10 = r
                    if us.shape != (n,):
                        c.violation(dict(key, check="shape"), f"result has {us.shape} members, expected {n}")
                        continue
                    # the seam members are reported under their own key (direction 360.0)
                    rng_bad = seam & np.isfinite(dr) & ~((dr >= 0) & (dr < 360.0))
                    if np.any(rng_bad):
                        seam_bad += int(np.sum(rng_bad))
                        if seam_example is None:
                            i = int(np.nonzero(rng_bad)[0][0])
                            seam_example = {"key": key, "config": configs[i][0], "direction": float(dr[i]),
                                            "b1_of_reduction": float(B1[i, -1]), "a1_of_reduction": float(A1[i, -1])}
                    dr_chk = np.where(rng_bad, 0.0, dr)
                    generic_checks(c, key, us, dr_chk, u10, p, convention, going)
                    if convention == CONVENTIONS[0]:
                        going = dr_chk
                    ref = ustar_ref(peak_level if method == "peak" else np.full(n, c0), p)
                    c.cat("peak_compared" if method == "peak" else "mean_compared", n)
                    dir_ref = peak_theta if method == "peak" else theta
                    if convention == CONVENTIONS[1]:
                        dir_ref = (270.0 - dir_ref) % 360.0
                    bad = ~close(us, ref, rtol=1e-12)
                    if np.any(bad):
                        i, nbad = first_bad(bad)
                        c.violation(dict(key, check="closed form"),
                                    f"2D {configs[i][0]}: u*={us[i]!r}, closed form for the 1D reduction {ref[i]!r} ({nbad} members)",
                                    member=i, count=nbad, config=configs[i][0])
                    well = np.isfinite(dir_ref)
                    bad = well & ~(angle_diff(dr, dir_ref) <= 1e-9)
                    if np.any(bad):
                        i, nbad = first_bad(bad)
                        c.violation(dict(key, check="direction"),
                                    f"2D {configs[i][0]}: direction={dr[i]!r}, expected {dir_ref[i]!r} ({nbad} members)",
                                    member=i, count=nbad, config=configs[i][0])
                    # the library's answer for the independently reduced 1D spectrum
                    r1 = call(c, dict(key, input="1d reduction"), s1, method, convention, kw)
                    if r1 is not None:
                        bad = ~(close(us, r1[0], rtol=1e-12) & close(u10, r1[2], rtol=1e-12)
                                & (~well | (angle_diff(dr, r1[1]) <= 1e-9)))
                        if np.any(bad):
                            i, nbad = first_bad(bad)
                            c.violation(dict(key, check="2d vs 1d reduction"),
                                        f"2D {configs[i][0]}: (u*, dir, u10)=({us[i]!r},{dr[i]!r},{u10[i]!r}) but the 1D reduction "
                                        f"gives ({r1[0][i]!r},{r1[1][i]!r},{r1[2][i]!r}) ({nbad} members)", member=i, count=nbad)
                    for i in range(n):
                        c.nontriv((N, variant, configs[i][0], method))
    if seam_bad:
        c.violation(dict(ukey, check="direction in [0,360)", cls="tiny_negative_angle", input="mirror_east"),
                    f"2D spectrum symmetric about east: direction {seam_example['direction']!r} is not in [0,360) "
                    f"(b1 of the reduction {seam_example['b1_of_reduction']!r}); {seam_bad} member results",
                    count=seam_bad, example=seam_example)
    return c.result()


# ------------------------------------------------------------------------------------------
# wrap family: resultants within rounding of the 0/360 seam
# ------------------------------------------------------------------------------------------
def run_wrap(unit):
    c = Collector()
    f = WGRIDS["W1"]
    nf = len(f)
    seam_b1 = [-2e-16, -1e-17, -1e-20, -0.0, 0.0, 1e-20, 2e-16]
    cases = [("b1", 0.8, b) for b in seam_b1]
    cases += [("theta", 0.8 * math.cos(math.radians(t)), 0.8 * math.sin(math.radians(t))) for t in (360.0, 720.0, -360.0, 359.999999, 1e-6)]
    n = len(cases)
    E = np.tile(1e-3 * f ** -4.0, (n, 1))
    A1 = np.array([[a] * nf for _, a, _ in cases])
    B1 = np.array([[b] * nf for _, _, b in cases])
    exp = np.array([going_to(a, b) % 360.0 for _, a, b in cases])  # compared on the circle only
    c.cat("wrap_seam", n)
    bad_total, example = 0, None
    for layout in ("time", "time_lat", "flat"):
        spec = build_1d(f, E, A1, B1, layout)
        for method in METHODS:
            kw = {"number_of_bins": 3} if method == "mean" else {}
            going = None
            for convention in CONVENTIONS:
                key = {"family": "wrap", "layout": layout, "method": method, "convention": convention}
                c.evaluations += n
                r = call(c, key, spec, method, convention, kw)
                if r is None:
                    continue
                us, dr, u10 = r
                rng_bad = np.isfinite(dr) & ~((dr >= 0) & (dr < 360.0))
                if np.any(rng_bad):
                    bad_total += int(np.sum(rng_bad))
                    if example is None:
                        i = int(np.nonzero(rng_bad)[0][0])
                        example = {"key": key, "a1": cases[i][1], "b1": cases[i][2], "direction": float(dr[i])}
                dr_chk = np.where(rng_bad, 0.0, dr)
                generic_checks(c, key, us, dr_chk, u10, pvals("default"), convention, going)
                if convention == CONVENTIONS[0]:
                    going = dr_chk
                dir_ref = exp if convention == CONVENTIONS[0] else (270.0 - exp) % 360.0
                bad = ~(angle_diff(dr, dir_ref) <= 1e-9)
                if np.any(bad):
                    i, nbad = first_bad(bad)
                    c.violation(dict(key, check="direction"), f"direction={dr[i]!r}, expected {dir_ref[i]!r} on the circle "
                                f"(a1={cases[i][1]!r}, b1={cases[i][2]!r})", member=i, count=nbad)
                for i in range(n):
                    c.nontriv((cases[i][1], cases[i][2], method))
    if bad_total:
        c.violation({"family": "wrap", "check": "direction in [0,360)", "cls": "tiny_negative_angle", "input": "1d moments"},
                    f"direction {example['direction']!r} is not in [0,360) for a1={example['a1']!r}, b1={example['b1']!r} "
                    f"({bad_total} member results)", count=bad_total, example=example)
    return c.result()


def run_unit(unit):
    return {"tail": run_tail, "words": run_words, "2d": run_2d, "wrap": run_wrap}[unit["kind"]](unit)
