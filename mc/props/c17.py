"""C17  Time conversions denote the same UTC instant for every input representation.

Engine E1.  An instant is an integer number of microseconds (nanoseconds for datetime64[ns]) since
1970-01-01T00:00:00Z.  Every representation of it is *built* from that integer with the module's own
civil-calendar arithmetic (days_from_civil / civil_from_days, Hinnant's algorithms), and every result
is *read back* field by field with the same arithmetic -- never with datetime.timestamp(),
fromtimestamp(), astimezone() or fromisoformat(), which are what the library itself uses.

Space: instants (calendar boundaries, 2^31, 10^9, leap days, 1970 and 2100 ends; each -1 s, +0,
+1 us, +0.25 s, +0.5 s, +0.999999 s, +1 s) x UTC offsets (-12:00..+14:00 every 30 min, +05:45, +08:45,
+12:45) x representations (aware datetime, naive datetime, ISO strings: Z / numeric offset / no
zone, with no / 3-digit / 6-digit fraction, int, float, np.int64, np.float64, np.datetime64 in
s/ms/us/ns) x functions (to_datetime_utc, to_datetime64 and back, datetime_to_iso_time_string and
back), plus containers (list, tuple, object ndarray, pd.Series, DataArray, typed ndarrays/Series) of
mixed representations in every rotation; datetime64 arrays of every unit (s, ms, us, ns) inside every
container that can carry them (ndarray, DataArray values, DataArray coordinate, naive and tz-aware
pd.Series, Series built from Python datetimes, 2-D ndarray / DataArray) -- the unit the container
really holds is read back and counted, so a silent coercion to ns cannot make that family vacuous; and the packed integers: every hh, every hhmm, every
hhmmss, every yymmdd, every yyyymmdd of a year range, and a date x time lattice through
datetime_from_time_and_date_integers (both output kinds).
"""
import re
from datetime import datetime, timedelta, timezone
from fractions import Fraction as Fr

import numpy as np

from mc.common import Collector

ID = "C17"
LEVEL = "exploration"
RULE = (
    "full product local zone {Newfoundland with DST, UTC, +05:45} x instant x offset x representation x function, "
    "containers x rotations (local zone Newfoundland), and all valid packed "
    "integers per magnitude class. One evaluation = one library call (one element for packed integers). A scalar "
    "case is non-trivial unless it is the aware-UTC datetime itself (identity); distinct = distinct "
    "(instant, offset, representation); packed: distinct integers (all non-trivial)."
)
ASSUMPTIONS = [
    "instants 1970-01-01 .. 2100-12-31 on the stated lattice; fixed UTC offsets (datetime.timezone), no zoneinfo",
    "ISO strings in the extended format YYYY-MM-DDTHH:MM:SS[.fff[fff]][Z|+HH:MM|-HH:MM] (what isoformat() and the "
    "library emit); basic format, date-only strings and a blank separator are not enumerated",
    "'to whole seconds through datetime64' is read as: a datetime64 input with a sub-second part, and anything that "
    "went through to_datetime64, may come back either exactly or floored to the whole second (the library floors)",
    "float epoch seconds denote the exact binary value; the result may differ by at most 1 microsecond",
    "packed integers are Python ints; each is decoded by its magnitude class (>=10000 hhmmss, >=100 hhmm, else hh; "
    ">1000000 yyyymmdd, else yymmdd = 20yy). Integers that are only valid in a wider class with leading zeros "
    "(e.g. 30 for 00:30, 1813 for 00:18:13) are ambiguous by construction and not enumerated",
    "None inside a sequence is enumerated for to_datetime_utc only; sequences are not passed to "
    "datetime_to_iso_time_string (it returns one string)",
]
REQUIRED_CATEGORIES = [
    "repr:aware", "repr:naive", "repr:iso_z", "repr:iso_offset", "repr:iso_nozone", "repr:int", "repr:float",
    "repr:np_int64", "repr:np_float64", "repr:dt64_s", "repr:dt64_ms", "repr:dt64_us", "repr:dt64_ns",
    "fractional_second", "offset_half_hour", "offset_quarter_hour", "offset_negative", "local_date_differs_from_utc",
    "none_to_none", "roundtrip_datetime64", "roundtrip_iso", "container:list", "container:tuple",
    "container:ndarray_object", "container:series_object", "container:dataarray_object", "container:ndarray_dt64",
    "container:series_tz", "container:dataarray_dt64", "container:ndarray_str", "container:ndarray_float",
    "container:ndarray_int", "packed:hh", "packed:hhmm", "packed:hhmmss", "packed:yymmdd", "packed:yyyymmdd",
    "packed:combined", "packed:combined_dt64", "leap_day", "container_2d",
    "unit_kept:ndarray_dt64:ns", "unit_kept:ndarray_dt64:us", "unit_kept:ndarray_dt64:ms", "unit_kept:ndarray_dt64:s",
    "unit_kept:dataarray_dt64:ns", "unit_kept:dataarray_dt64:us", "unit_kept:dataarray_dt64:ms", "unit_kept:dataarray_dt64:s",
    "unit_kept:series_tz:ns", "unit_kept:series_tz:us", "unit_kept:series_tz:ms", "unit_kept:series_tz:s",
    "local_zone:NST3:30NDT", "local_zone:UTC0",
    "local_zone:NPT-5:45",
]

US = 10 ** 6
# The process-local time zone is a configuration axis: "naive inputs are read as UTC" and "the result is UTC"
# can only fail visibly when local time is not UTC (POSIX TZ strings, no tz database needed; the second has DST).
LOCAL_ZONES = ["NST3:30NDT,M3.2.0,M11.1.0", "UTC0", "NPT-5:45"]


# ------------------------------------------------------------------------------------------
# independent calendar arithmetic
# ------------------------------------------------------------------------------------------
def days_from_civil(y, m, d):
    y -= m <= 2
    era = (y if y >= 0 else y - 399) // 400
    yoe = y - era * 400
    doy = (153 * (m + (-3 if m > 2 else 9)) + 2) // 5 + d - 1
    doe = yoe * 365 + yoe // 4 - yoe // 100 + doy
    return era * 146097 + doe - 719468


def civil_from_days(z):
    z += 719468
    era = (z if z >= 0 else z - 146096) // 146097
    doe = z - era * 146097
    yoe = (doe - doe // 1460 + doe // 36524 - doe // 146096) // 365
    y = yoe + era * 400
    doy = doe - (365 * yoe + yoe // 4 - yoe // 100)
    mp = (5 * doy + 2) // 153
    d = doy - (153 * mp + 2) // 5 + 1
    m = mp + (3 if mp < 10 else -9)
    return (y + (m <= 2), m, d)


def is_leap(y):
    return y % 4 == 0 and (y % 100 != 0 or y % 400 == 0)


MDAYS = [31, 28, 31, 30, 31, 30, 31, 31, 30, 31, 30, 31]


def month_days(y, m):
    return 29 if (m == 2 and is_leap(y)) else MDAYS[m - 1]


def _selfcheck_calendar():
    """The two algorithms are checked against a third, dumb, day-by-day count (harness self check)."""
    assert days_from_civil(1970, 1, 1) == 0 and days_from_civil(2000, 3, 1) == 11017
    assert days_from_civil(2038, 1, 19) == 24855 and days_from_civil(2100, 1, 1) == 47482
    n = days_from_civil(1899, 12, 31)
    for y in range(1900, 2201):
        for m in range(1, 13):
            for d in range(1, month_days(y, m) + 1):
                n += 1
                assert days_from_civil(y, m, d) == n and civil_from_days(n) == (y, m, d), (y, m, d)


def fields_from_us(us):
    """(Y, M, D, h, m, s, microsecond) of an epoch-microsecond count."""
    sec, micro = divmod(us, US)
    days, sod = divmod(sec, 86400)
    y, mo, d = civil_from_days(days)
    return (y, mo, d, sod // 3600, (sod // 60) % 60, sod % 60, micro)


def us_from_fields(y, mo, d, h=0, mi=0, s=0, micro=0):
    return ((days_from_civil(y, mo, d) * 86400 + h * 3600 + mi * 60 + s) * US) + micro


def td_us(td):
    return (td.days * 86400 + td.seconds) * US + td.microseconds


def epoch_us_of(dt):
    """epoch microseconds denoted by a datetime, from its fields and its utcoffset only."""
    off = dt.utcoffset()
    return us_from_fields(dt.year, dt.month, dt.day, dt.hour, dt.minute, dt.second, dt.microsecond) - (
        td_us(off) if off is not None else 0
    )


_UNIT_NS = {"s": 10 ** 9, "ms": 10 ** 6, "us": 10 ** 3, "ns": 1}


def epoch_ns_of_dt64(d):
    unit, count = np.datetime_data(d.dtype)
    if unit not in _UNIT_NS:
        return None
    return int(d.astype("int64")) * count * _UNIT_NS[unit]


ISO_RE = re.compile(r"^(\d{4})-(\d{2})-(\d{2})T(\d{2}):(\d{2}):(\d{2})(?:\.(\d{1,6}))?(Z|[+-]\d{2}:\d{2})?$")


def parse_iso_us(s):
    m = ISO_RE.match(s)
    if not m:
        return None
    y, mo, d, h, mi, sec = (int(m.group(i)) for i in range(1, 7))
    frac = m.group(7) or ""
    micro = int((frac + "000000")[:6]) if frac else 0
    z = m.group(8)
    off = 0
    if z and z != "Z":
        off = (int(z[1:3]) * 60 + int(z[4:6])) * (1 if z[0] == "+" else -1)
    if not (1 <= mo <= 12 and 1 <= d <= month_days(y, mo) and h < 24 and mi < 60 and sec < 60):
        return None
    return us_from_fields(y, mo, d, h, mi, sec, micro) - off * 60 * US


# ------------------------------------------------------------------------------------------
# alphabets
# ------------------------------------------------------------------------------------------
OFFSETS = sorted(set(range(-12 * 60, 14 * 60 + 1, 30)) | {5 * 60 + 45, 8 * 60 + 45, 12 * 60 + 45})
DELTAS_US = [-US, 0, 1, 250000, 500000, 999999, US]
BASES_QUICK = [
    (1970, 1, 1, 0, 0, 0), (1999, 12, 31, 23, 59, 59), (2000, 2, 29, 0, 0, 0), (2000, 2, 29, 23, 59, 59),
    (2001, 9, 9, 1, 46, 40), (2022, 11, 9, 10, 20, 42), (2024, 2, 29, 12, 0, 0), (2024, 12, 31, 23, 59, 59),
    (2038, 1, 19, 3, 14, 7), (2038, 1, 19, 3, 14, 8), (2099, 12, 31, 23, 59, 59), (2100, 2, 28, 23, 59, 59),
    (2100, 3, 1, 0, 0, 0), (2100, 12, 31, 23, 59, 58),
]
YEARS_THOROUGH = [1970, 1971, 1972, 1999, 2000, 2001, 2023, 2024, 2037, 2038, 2039, 2096, 2099, 2100]
END_US = us_from_fields(2100, 12, 31, 23, 59, 59, 999999)


def bases(tier):
    if tier == "quick":
        return list(BASES_QUICK)
    out = list(BASES_QUICK)
    for y in YEARS_THOROUGH:
        for m in range(1, 13):
            out.append((y, m, 1, 0, 0, 0))
            out.append((y, m, month_days(y, m), 23, 59, 59))
            out.append((y, m, 15, 12, 30, 30))
    seen, res = set(), []
    for b in out:
        if b not in seen:
            seen.add(b)
            res.append(b)
    return res


def instants_of(base):
    b = us_from_fields(*base)
    return [b + d for d in DELTAS_US if 0 <= b + d <= END_US]


def fmt_off(off):
    sign = "+" if off >= 0 else "-"
    a = abs(off)
    return f"{sign}{a // 60:02d}:{a % 60:02d}"


def iso_text(us_local, style):
    y, mo, d, h, mi, s, micro = fields_from_us(us_local)
    head = f"{y:04d}-{mo:02d}-{d:02d}T{h:02d}:{mi:02d}:{s:02d}"
    if style == "auto":  # what datetime.isoformat() does
        return head + (f".{micro:06d}" if micro else "")
    if style == "f6":
        return head + f".{micro:06d}"
    if style == "f3":
        return head + f".{micro // 1000:03d}"
    raise ValueError(style)


def iso_styles(us):
    st = ["auto", "f6"]
    if us % 1000 == 0 and us % US != 0:
        st.append("f3")
    return st


def offset_reprs(us, off):
    """representations that depend on the UTC offset: (tag, object, python expression)."""
    loc = us + off * 60 * US
    y, mo, d, h, mi, s, micro = fields_from_us(loc)
    tz = timezone(timedelta(minutes=off))
    out = [(
        "aware", datetime(y, mo, d, h, mi, s, micro, tzinfo=tz),
        f"datetime({y},{mo},{d},{h},{mi},{s},{micro},tzinfo=timezone(timedelta(minutes={off})))",
    )]
    for st in iso_styles(us):
        txt = iso_text(loc, st) + fmt_off(off)
        out.append(("iso_offset", txt, repr(txt)))
    return out


def plain_reprs(us):
    """representations without an offset (read as UTC)."""
    y, mo, d, h, mi, s, micro = fields_from_us(us)
    out = [("naive", datetime(y, mo, d, h, mi, s, micro), f"datetime({y},{mo},{d},{h},{mi},{s},{micro})")]
    for st in iso_styles(us):
        txt = iso_text(us, st)
        out.append(("iso_z", txt + "Z", repr(txt + "Z")))
        out.append(("iso_nozone", txt, repr(txt)))
    sec, micro_ = divmod(us, US)
    if micro_ == 0:
        out.append(("int", sec, repr(sec)))
        out.append(("np_int64", np.int64(sec), f"np.int64({sec})"))
        out.append(("dt64_s", np.datetime64(sec, "s"), f"np.datetime64({sec},'s')"))
    x = us / US  # correctly rounded quotient
    out.append(("float", x, repr(x)))
    out.append(("np_float64", np.float64(x), f"np.float64({x!r})"))
    if us % 1000 == 0:
        out.append(("dt64_ms", np.datetime64(us // 1000, "ms"), f"np.datetime64({us // 1000},'ms')"))
    out.append(("dt64_us", np.datetime64(us, "us"), f"np.datetime64({us},'us')"))
    out.append(("dt64_ns", np.datetime64(us * 1000, "ns"), f"np.datetime64({us * 1000},'ns')"))
    if micro_:
        out.append(("dt64_ns", np.datetime64(us * 1000 + 999, "ns"), f"np.datetime64({us * 1000 + 999},'ns')"))
    return out


# ------------------------------------------------------------------------------------------
# what the property admits for one representation
# ------------------------------------------------------------------------------------------
class Want:
    """admissible answers for an input that denotes `exact` (a Fraction of microseconds)."""

    def __init__(self, tag, obj, us):
        self.tag = tag
        if tag in ("float", "np_float64"):
            self.exact = Fr(float(obj)) * US
            self.tol = 1
        elif tag == "dt64_ns":
            self.exact = Fr(epoch_ns_of_dt64(obj), 1000)
            self.tol = 1  # sub-microsecond part cannot be carried by a datetime
        else:
            self.exact = Fr(us)
            self.tol = 0
        # a sub-second datetime64 denotes that instant: flooring it to whole seconds is NOT the same
        # instant (the library did that before fix 50a6825; "to whole seconds" in the statement is about
        # the round trip *through* to_datetime64, which is checked separately)
        self.floor_ok = False
        fl = int(self.exact // US)
        self.floor_secs = {fl}
        if self.tol:
            self.floor_secs.add(int(Fr(round(self.exact)) // US))  # after rounding to a microsecond
        self.floor_us = fl * US

    def instant_ok(self, got_us):
        if abs(got_us - self.exact) <= self.tol:
            return True
        return self.floor_ok and got_us == self.floor_us


DT64_UNITS = ("ns", "us", "ms", "s")


def want_of_dt64(val):
    """what a datetime64 element (of whatever unit the container really holds) denotes."""
    unit = np.datetime_data(val.dtype)[0]
    ns = epoch_ns_of_dt64(val)
    if ns % 1000 == 0:
        return Want("dt64_" + unit, val, ns // 1000)
    return Want("dt64_ns", val, None)


def dt64_counts(us_list, unit):
    """integer counts in `unit` of the instants that are representable in it."""
    div = {"ns": None, "us": 1, "ms": 1000, "s": US}[unit]
    if div is None:
        return [u * 1000 for u in us_list]
    return [u // div for u in us_list if u % div == 0]


def flatten(x):
    if isinstance(x, (list, tuple, np.ndarray)):
        out = []
        for y in x:
            out += flatten(y)
        return out
    return [x]


def check_utc_datetime(c, key, r, want, detail):
    """r must be an aware datetime with zero offset denoting the instant."""
    if not isinstance(r, datetime):
        c.violation(dict(key, check="type"), f"result {r!r} is not a datetime", **detail)
        return None
    off = r.utcoffset()
    if r.tzinfo is None or off is None:
        c.violation(dict(key, check="aware"), f"result {r!r} is timezone naive", **detail)
        return None
    if td_us(off) != 0:
        c.violation(dict(key, check="utc"), f"result {r!r} is not in UTC", **detail)
        return None
    got = epoch_us_of(r)
    if not want.instant_ok(got):
        c.violation(dict(key, check="instant"),
                    f"{detail.get('call')} -> {r.isoformat()} ; expected instant {fmt_us(want.exact)}",
                    got_us=got, expected_us=str(want.exact), **detail)
        return None
    return got


def fmt_us(x):
    x = Fr(x)
    us = int(x // 1)
    y, mo, d, h, mi, s, micro = fields_from_us(us)
    extra = "" if x == us else f"(+{float(x - us):.3f}us)"
    return f"{y:04d}-{mo:02d}-{d:02d}T{h:02d}:{mi:02d}:{s:02d}.{micro:06d}Z{extra}"


def guarded(c, key, detail, fn, *args, **kw):
    try:
        return True, fn(*args, **kw)
    except Exception as exc:  # noqa  library exception on an input inside the domain
        import traceback

        tb = traceback.extract_tb(exc.__traceback__)
        if tb and tb[-1].filename.startswith("/verif/"):
            raise
        c.violation(dict(key, check="raises"), f"{detail.get('call')} raised {type(exc).__name__}: {exc}",
                    traceback=traceback.format_exc()[-1200:], **detail)
        return False, None


# ------------------------------------------------------------------------------------------
# scalar conversions
# ------------------------------------------------------------------------------------------
def scalar_case(c, lib, tag, obj, expr, us, frac):
    to_utc, to_dt64, to_iso = lib
    want = Want(tag, obj, us)
    key = {"repr": tag, "frac": frac}
    c.cat("repr:" + tag)

    # 1. to_datetime_utc ---------------------------------------------------------------------
    k1 = dict(key, fn="to_datetime_utc")
    det = {"call": f"to_datetime_utc({expr})"}
    c.evaluations += 1
    ok, r = guarded(c, k1, det, to_utc, obj)
    got = check_utc_datetime(c, k1, r, want, det) if ok else None
    if got is not None and want.floor_ok and got != want.exact and got == want.floor_us:
        c.cat("datetime64_subsecond_floored")

    # 2. to_datetime64 and back ---------------------------------------------------------------
    k2 = dict(key, fn="to_datetime64")
    det = {"call": f"to_datetime64({expr})"}
    c.evaluations += 1
    ok, d64 = guarded(c, k2, det, to_dt64, obj)
    if ok:
        if not isinstance(d64, np.datetime64):
            c.violation(dict(k2, check="type"), f"{det['call']} -> {d64!r} is not a numpy datetime64", **det)
        else:
            ns = epoch_ns_of_dt64(d64)
            adm = {s * 10 ** 9 for s in want.floor_secs}
            if want.tol == 0:
                adm.add(int(want.exact) * 1000)  # an exact (sub-second) datetime64 would be admissible too
            if ns not in adm:
                c.violation(dict(k2, check="instant"),
                            f"{det['call']} -> {d64!r}; expected {fmt_us(want.floor_us)} (whole seconds)",
                            got_ns=ns, expected_us=str(want.exact), **det)
            else:
                c.evaluations += 1
                c.cat("roundtrip_datetime64")
                k2b = dict(key, fn="to_datetime_utc(to_datetime64)")
                det2 = {"call": f"to_datetime_utc(to_datetime64({expr}))"}
                ok2, back = guarded(c, k2b, det2, to_utc, d64)
                if ok2:
                    w2 = Want("dt64_ns", np.datetime64(ns, "ns"), None)
                    check_utc_datetime(c, k2b, back, w2, det2)

    # 3. ISO string and back ---------------------------------------------------------------------
    k3 = dict(key, fn="datetime_to_iso_time_string")
    det = {"call": f"datetime_to_iso_time_string({expr})"}
    c.evaluations += 1
    ok, s = guarded(c, k3, det, to_iso, obj)
    if ok:
        if not isinstance(s, str):
            c.violation(dict(k3, check="type"), f"{det['call']} -> {s!r} is not a string", **det)
        else:
            p = parse_iso_us(s)
            if p is None:
                c.violation(dict(k3, check="format"), f"{det['call']} -> {s!r} is not an ISO-8601 date-time", **det)
            elif not want.instant_ok(p):
                c.violation(dict(k3, check="instant"),
                            f"{det['call']} -> {s!r}; expected instant {fmt_us(want.exact)}", **det)
            else:
                c.evaluations += 1
                c.cat("roundtrip_iso")
                k3b = dict(key, fn="to_datetime_utc(iso_string)")
                det2 = {"call": f"to_datetime_utc(datetime_to_iso_time_string({expr}))", "string": s}
                ok2, back = guarded(c, k3b, det2, to_utc, s)
                if ok2:
                    check_utc_datetime(c, k3b, back, Want("iso_z", s, p), det2)


def run_scalar(unit):
    from ocean_science_utilities.tools.time import to_datetime_utc, to_datetime64, datetime_to_iso_time_string

    lib = (to_datetime_utc, to_datetime64, datetime_to_iso_time_string)
    c = Collector()
    for base in unit["bases"]:
        base = tuple(base)
        for us in instants_of(base):
            frac = "whole" if us % US == 0 else "fractional"
            if frac == "fractional":
                c.cat("fractional_second")
            f = fields_from_us(us)
            if (f[1], f[2]) == (2, 29):
                c.cat("leap_day")
            c.case({"us": us})
            for tag, obj, expr in plain_reprs(us):
                scalar_case(c, lib, tag, obj, expr, us, frac)
                c.nontriv((us, None, tag, expr))
            for off in OFFSETS:
                if off % 60 == 30:
                    c.cat("offset_half_hour")
                elif off % 60 == 45:
                    c.cat("offset_quarter_hour")
                if off < 0:
                    c.cat("offset_negative")
                if fields_from_us(us + off * 60 * US)[:3] != f[:3]:
                    c.cat("local_date_differs_from_utc")
                for tag, obj, expr in offset_reprs(us, off):
                    scalar_case(c, lib, tag, obj, expr, us, frac)
                    if not (tag == "aware" and off == 0):
                        c.nontriv((us, off, tag, expr))
            if len(c.samples) < 2:
                c.sample({"instant": fmt_us(us), "representations": [e for _, _, e in plain_reprs(us)][:8]
                          + [e for _, _, e in offset_reprs(us, 345)]})
    # None -> None
    for name, fn in (("to_datetime_utc", to_datetime_utc), ("to_datetime64", to_datetime64),
                     ("datetime_to_iso_time_string", datetime_to_iso_time_string)):
        c.evaluations += 1
        ok, r = guarded(c, {"fn": name, "repr": "none"}, {"call": f"{name}(None)"}, fn, None)
        c.cat("none_to_none")
        if ok and r is not None:
            c.violation({"fn": name, "repr": "none", "check": "none"}, f"{name}(None) -> {r!r}")
    c.cat("local_zone:" + unit.get("tz", LOCAL_ZONES[0]).split(",")[0])
    res = c.result()
    if not unit.get("count_distinct", True):
        res["distinct_nontrivial"] = 0  # the same (instant, offset, representation) triples under another local zone
    return res


# ------------------------------------------------------------------------------------------
# containers
# ------------------------------------------------------------------------------------------
def mixed_members(us_list):
    """a heterogeneous list over a group of instants: instant j contributes every len(group)-th of its
    representations starting at j, so that the group as a whole uses every representation slot."""
    members = []
    g = len(us_list)
    for j, us in enumerate(us_list):
        reps = plain_reprs(us)
        for off in (330, -210, 765, 0, 345, -720, 840):
            reps += offset_reprs(us, off)
        for r in reps[j::g]:
            members.append((us,) + r)
    return members


def run_container(unit):
    import pandas as pd
    import xarray
    from ocean_science_utilities.tools.time import to_datetime_utc, to_datetime64

    c = Collector()
    kind = unit["container"]
    tier = unit["tier"]
    all_us = []
    for b in bases(tier):
        all_us += instants_of(tuple(b))
    # groups of instants -> one mixed sequence per group, every rotation
    gsize = 7
    groups = [all_us[i:i + gsize] for i in range(0, len(all_us), gsize)]
    if tier == "thorough":
        groups = groups[::3] if kind in ("series_object", "dataarray_object") else groups

    def build(objs):
        if kind == "list":
            return list(objs)
        if kind == "tuple":
            return tuple(objs)
        arr = np.empty(len(objs), dtype=object)
        for i, o in enumerate(objs):
            arr[i] = o
        if kind == "ndarray_object":
            return arr
        if kind == "series_object":
            return pd.Series(arr, dtype=object)
        if kind == "dataarray_object":
            return xarray.DataArray(arr, dims=("time",))
        raise ValueError(kind)

    def check_seq(objs, wants, exprs, label, with_dt64=True, two_d=False):
        key = {"fn": "to_datetime_utc", "container": kind, "content": label}
        det = {"call": f"to_datetime_utc(<{kind} of {len(wants)}>)", "members": exprs[:12]}
        c.evaluations += 1
        c.cat("container:" + kind)
        seq = objs
        ok, res = guarded(c, key, det, to_datetime_utc, seq)
        if ok and two_d:
            # the statement does not fix the shape of the answer for a 2-D input: nested or flat, the
            # members must come back in row-major order
            c.cat("container_2d")
            res = flatten(res) if isinstance(res, (list, tuple, np.ndarray)) else res
        if ok:
            if not isinstance(res, (list, tuple, np.ndarray)) or len(res) != len(wants):
                c.violation(dict(key, check="length"), f"{det['call']} -> {type(res).__name__} of length "
                            f"{len(res) if hasattr(res, '__len__') else '?'}; expected {len(wants)}", **det)
            else:
                for i, (r, w) in enumerate(zip(res, wants)):
                    if w is None:
                        c.cat("none_to_none")
                        if r is not None:
                            c.violation(dict(key, check="none"), f"None inside a {kind} -> {r!r}", **det)
                        continue
                    check_utc_datetime(c, dict(key, repr=w.tag), r, w,
                                       {"call": f"to_datetime_utc(<{kind}>)[{i}] for member {exprs[i]}"})
        if not with_dt64:
            return
        key = {"fn": "to_datetime64", "container": kind, "content": label}
        det = {"call": f"to_datetime64(<{kind} of {len(objs)}>)", "members": exprs[:12]}
        c.evaluations += 1
        ok, res = guarded(c, key, det, to_datetime64, seq)
        if ok:
            if not isinstance(res, np.ndarray) or res.dtype.kind != "M" or res.shape != (len(wants),):
                c.violation(dict(key, check="type"), f"{det['call']} -> {res!r}: not a datetime64 array of length "
                            f"{len(wants)}", **det)
            else:
                for i, w in enumerate(wants):
                    ns = epoch_ns_of_dt64(res[i])
                    adm = {s * 10 ** 9 for s in w.floor_secs}
                    if w.tol == 0:
                        adm.add(int(w.exact) * 1000)
                    if ns not in adm:
                        c.violation(dict(key, check="instant", repr=w.tag),
                                    f"to_datetime64(<{kind}>)[{i}] for member {exprs[i]} -> {res[i]!r}; expected "
                                    f"{fmt_us(w.floor_us)}", **det)

    if kind in ("list", "tuple", "ndarray_object", "series_object", "dataarray_object"):
        for g in groups:
            mem = mixed_members(g)
            n = len(mem)
            for rot in range(n):
                m = mem[rot:] + mem[:rot]
                objs = [x[2] for x in m]
                wants = [Want(x[1], x[2], x[0]) for x in m]
                exprs = [x[3] for x in m]
                c.case({"k": kind, "g": g[0], "rot": rot})
                c.nontriv((kind, g[0], rot))
                check_seq(build(objs), wants, exprs, "mixed")
                if rot % 5 == 0:
                    # the same sequence with a None in it (to_datetime_utc only)
                    p = rot % (n + 1)
                    check_seq(build(objs[:p] + [None] + objs[p:]), wants[:p] + [None] + wants[p:],
                              exprs[:p] + ["None"] + exprs[p:], "mixed_with_none", with_dt64=False)
        # the empty sequence
        c.evaluations += 1
        ok, res = guarded(c, {"fn": "to_datetime_utc", "container": kind, "content": "empty"},
                          {"call": f"to_datetime_utc(<empty {kind}>)"}, to_datetime_utc, build([]))
        if ok and len(res) != 0:
            c.violation({"fn": "to_datetime_utc", "container": kind, "content": "empty", "check": "length"},
                        f"empty {kind} -> {res!r}")
    else:
        # homogeneous typed containers over all instants, in chunks, every rotation of a chunk of 5
        whole = [u for u in all_us if u % US == 0]
        milli = [u for u in all_us if u % 1000 == 0]
        whole_set, milli_set = set(whole), set(milli)
        for chunk_i in range(0, len(all_us), 5):
            sel = all_us[chunk_i:chunk_i + 5]
            selw = [u for u in sel if u in whole_set] or whole[:1]
            selm = [u for u in sel if u in milli_set] or milli[:1]
            for rot in range(len(sel)):
                r_ = lambda lst: lst[rot % len(lst):] + lst[:rot % len(lst)]  # noqa
                c.case({"k": kind, "c": chunk_i, "rot": rot})
                c.nontriv((kind, chunk_i, rot))
                if kind in ("ndarray_dt64", "dataarray_dt64", "series_tz"):
                    # datetime64 of EVERY unit inside every container that can carry it.  What the container
                    # really holds after construction is read back (unit_kept:* categories are required, so a
                    # library version that silently coerces to ns makes the run fail its vacuity check
                    # instead of passing emptily); the expected instants are taken from the held values.
                    for unit_ in DT64_UNITS:
                        cnt = dt64_counts(r_(sel), unit_) or dt64_counts(whole[:1], unit_)
                        arr = np.array(cnt, dtype="int64").astype(f"datetime64[{unit_}]")
                        ex = [f"np.datetime64({x},'{unit_}')" for x in cnt]
                        variants = []
                        if kind == "ndarray_dt64":
                            variants.append(("dt64_" + unit_, arr, arr, True, False))
                            if rot == 0:
                                variants.append(("dt64_" + unit_ + "_2d", np.stack([arr, arr[::-1]]),
                                                 np.concatenate([arr, arr[::-1]]), False, True))
                        elif kind == "dataarray_dt64":
                            da = xarray.DataArray(arr, dims=("time",))
                            variants.append(("dt64_" + unit_, da, da.values, True, False))
                            co = xarray.DataArray(np.arange(len(arr), dtype=float), dims=("time",),
                                                  coords={"time": arr})["time"]
                            variants.append(("coord_dt64_" + unit_, co, co.values, True, False))
                            if rot == 0:
                                d2 = xarray.DataArray(np.stack([arr, arr[::-1]]), dims=("x", "time"))
                                variants.append(("dt64_" + unit_ + "_2d", d2, d2.values.reshape(-1), False, True))
                        else:
                            for tzoff in (None, 0, 330, -210):
                                sr = pd.Series(arr)
                                if tzoff is not None:
                                    sr = sr.dt.tz_localize("UTC").dt.tz_convert(timezone(timedelta(minutes=tzoff)))
                                variants.append((("series_naive_" if tzoff is None else "series_tz_") + unit_, sr,
                                                 sr.values, True, False))
                            if rot == 0 and unit_ == "us":
                                # a Series built from Python datetimes (pandas infers the unit itself)
                                py = [datetime(*fields_from_us(u)) for u in dt64_counts(r_(sel), "us")]
                                sr = pd.Series(py)
                                variants.append(("series_from_datetimes", sr, sr.values, True, False))
                        for label, obj, held, with64, two_d in variants:
                            held = np.asarray(held)
                            if held.dtype.kind != "M" or len(held) != (2 if two_d else 1) * len(cnt):
                                raise AssertionError(f"harness: {kind}/{label} holds {held.dtype} x {len(held)}")
                            held_unit = np.datetime_data(held.dtype)[0]
                            c.cat(f"unit_kept:{kind}:{held_unit}")
                            src_ns = [x * _UNIT_NS[unit_] for x in cnt]
                            if two_d:
                                src_ns = src_ns + src_ns[::-1]
                            if [epoch_ns_of_dt64(v) for v in held] != src_ns:
                                raise AssertionError(f"harness: {kind}/{label} does not hold the instants put in")
                            wants = [want_of_dt64(v) for v in held]
                            exprs = (ex + ex[::-1]) if two_d else ex
                            check_seq(obj, wants, [f"{e} held as [{held_unit}]" for e in exprs], label,
                                      with_dt64=with64, two_d=two_d)
                elif kind == "ndarray_str":
                    src = r_(sel)
                    for st, zone in (("auto", "Z"), ("f6", ""), ("f6", "+05:45"), ("auto", "-03:30")):
                        offm = {"Z": 0, "": 0, "+05:45": 345, "-03:30": -210}[zone]
                        txt = [iso_text(u + offm * 60 * US, st) + zone for u in src]
                        arr = np.array(txt)
                        wants = [Want("iso_offset", t, u) for t, u in zip(txt, src)]
                        check_seq(arr, wants, [repr(t) for t in txt], "str" + zone)
                        if rot == 0:
                            check_seq(pd.Series(txt), wants, [repr(t) for t in txt], "series_str" + zone)
                elif kind == "ndarray_float":
                    src = r_(sel)
                    arr = np.array([u / US for u in src], dtype="float64")
                    wants = [Want("np_float64", arr[i], u) for i, u in enumerate(src)]
                    check_seq(arr, wants, [repr(float(x)) for x in arr], "float64")
                    if rot == 0:
                        check_seq(pd.Series(arr), wants, [repr(float(x)) for x in arr], "series_float64")
                elif kind == "ndarray_int":
                    src = r_(selw)
                    arr = np.array([u // US for u in src], dtype="int64")
                    wants = [Want("np_int64", arr[i], u) for i, u in enumerate(src)]
                    check_seq(arr, wants, [str(int(x)) for x in arr], "int64")
                    if rot == 0:
                        check_seq(pd.Series(arr), wants, [str(int(x)) for x in arr], "series_int64")
                        check_seq(xarray.DataArray(arr, dims=("time",)), wants, [str(int(x)) for x in arr], "dataarray_int64")
    c.sample({"container": kind, "groups": len(groups), "example_members": [x[3] for x in mixed_members(groups[0])][:6]})
    return c.result()


# ------------------------------------------------------------------------------------------
# packed integers
# ------------------------------------------------------------------------------------------
def check_date_result(c, key, call, r, y, m, d, secs=0):
    """r must be the aware UTC datetime y-m-d + secs."""
    if not isinstance(r, datetime) or r.tzinfo is None or r.utcoffset() is None or td_us(r.utcoffset()) != 0:
        c.violation(dict(key, check="utc"), f"{call} -> {r!r} is not an aware UTC datetime")
        return
    want = (days_from_civil(y, m, d) * 86400 + secs) * US
    if epoch_us_of(r) != want:
        c.violation(dict(key, check="fields"), f"{call} -> {r.isoformat()}; expected {fmt_us(want)}")


def run_packed(unit):
    from ocean_science_utilities.tools.time import (
        time_from_timeint, date_from_dateint, datetime_from_time_and_date_integers,
    )

    c = Collector()
    part = unit["part"]
    if part == "times":
        def one(t, h, m, s, cls):
            c.evaluations += 1
            c.cat("packed:" + cls)
            c.nontriv(n=1)
            key = {"fn": "time_from_timeint", "class": cls}
            ok, td = guarded(c, key, {"call": f"time_from_timeint({t})"}, time_from_timeint, t)
            if ok:
                if not isinstance(td, timedelta):
                    c.violation(dict(key, check="type"), f"time_from_timeint({t}) -> {td!r}")
                elif td_us(td) != (h * 3600 + m * 60 + s) * US:
                    c.violation(dict(key, check="fields"),
                                f"time_from_timeint({t}) -> {td!r}; expected {h:02d}:{m:02d}:{s:02d}", time_int=t)
        for h in range(24):
            one(h, h, 0, 0, "hh")
        for h in range(1, 24):
            for m in range(60):
                one(h * 100 + m, h, m, 0, "hhmm")
                for s in range(60):
                    one(h * 10000 + m * 100 + s, h, m, s, "hhmmss")
        c.case({"part": "times"})
        c.sample({"time_int": 201813, "decoded": str(time_from_timeint(201813))})
    elif part == "dates":
        y0, y1, two = unit["y0"], unit["y1"], unit["two_digit"]
        cls = "yymmdd" if two else "yyyymmdd"
        key = {"fn": "date_from_dateint", "class": cls}
        for y in range(y0, y1 + 1):
            for m in range(1, 13):
                for d in range(1, month_days(y, m) + 1):
                    t = ((y - 2000) if two else y) * 10000 + m * 100 + d
                    c.evaluations += 1
                    call = f"date_from_dateint({t})"
                    ok, r = guarded(c, key, {"call": call}, date_from_dateint, t)
                    if ok:
                        check_date_result(c, key, call, r, y, m, d)
            c.cat("packed:" + cls, 366 if is_leap(y) else 365)
            c.nontriv(n=366 if is_leap(y) else 365)
            if is_leap(y):
                c.cat("leap_day")
        c.case({"part": "dates", "y0": y0, "y1": y1, "two": two})
        c.sample({"class": cls, "years": [y0, y1]})
    elif part == "combined":
        years = unit["years"]
        times = [(h, h, 0, 0) for h in range(24)]
        times += [(h * 100 + m, h, m, 0) for h in (1, 9, 10, 12, 23) for m in range(60)]
        times += [(h * 10000 + m * 100 + s, h, m, s) for h in (1, 9, 10, 23) for m in (0, 1, 9, 10, 59) for s in (0, 1, 9, 10, 59)]
        for y in years:
            for m in range(1, 13):
                for d in sorted({1, 2, 15, month_days(y, m) - 1, month_days(y, m)}):
                    forms = [("yyyymmdd", y * 10000 + m * 100 + d)]
                    if 2000 <= y <= 2099:
                        forms.append(("yymmdd", (y - 2000) * 10000 + m * 100 + d))
                    for cls, di in forms:
                        for ti, h, mi, s in times:
                            secs = h * 3600 + mi * 60 + s
                            key = {"fn": "datetime_from_time_and_date_integers", "class": cls}
                            call = f"datetime_from_time_and_date_integers({di}, {ti})"
                            c.evaluations += 1
                            c.cat("packed:combined")
                            c.nontriv(n=1)
                            ok, r = guarded(c, key, {"call": call}, datetime_from_time_and_date_integers, di, ti)
                            if ok:
                                check_date_result(c, key, call, r, y, m, d, secs)
                            if 1970 <= y <= 2100:
                                key2 = dict(key, out="datetime64")
                                call2 = f"datetime_from_time_and_date_integers({di}, {ti}, as_datetime64=True)"
                                c.evaluations += 1
                                c.cat("packed:combined_dt64")
                                ok, r = guarded(c, key2, {"call": call2}, datetime_from_time_and_date_integers, di, ti,
                                                as_datetime64=True)
                                if ok:
                                    want_ns = (days_from_civil(y, m, d) * 86400 + secs) * 10 ** 9
                                    if not isinstance(r, np.datetime64) or epoch_ns_of_dt64(r) != want_ns:
                                        c.violation(dict(key2, check="instant"),
                                                    f"{call2} -> {r!r}; expected {fmt_us(want_ns // 1000)}")
        c.case({"part": "combined", "years": years})
        c.sample({"call": "datetime_from_time_and_date_integers(20221109, 102042)",
                  "result": str(datetime_from_time_and_date_integers(20221109, 102042))})
    return c.result()


# ------------------------------------------------------------------------------------------
def units(tier):
    us = []
    bs = bases(tier)
    nchunk = 14 if tier == "quick" else 40
    per = -(-len(bs) // nchunk)
    for zi, tz in enumerate(LOCAL_ZONES):
        for i in range(0, len(bs), per):
            chunk = bs[i:i + per]
            us.append({"name": f"scalar:tz{zi}:{i // per:02d}", "kind": "scalar", "bases": [list(b) for b in chunk],
                       "tz": tz, "count_distinct": zi == 0, "cost": 10 * len(chunk)})
    for kind in ("list", "tuple", "ndarray_object", "series_object", "dataarray_object", "ndarray_dt64",
                 "dataarray_dt64", "series_tz", "ndarray_str", "ndarray_float", "ndarray_int"):
        us.append({"name": f"container:{kind}", "kind": "container", "container": kind,
                   "cost": 30 if "series" in kind or "dataarray" in kind else 10})
    us.append({"name": "packed:times", "kind": "packed", "part": "times", "cost": 8})
    us.append({"name": "packed:yymmdd", "kind": "packed", "part": "dates", "y0": 2000, "y1": 2099, "two_digit": True,
               "cost": 5})
    if tier == "quick":
        ranges = [(1970, 2035), (2036, 2100), (1000, 1003), (1582, 1583), (1899, 1904), (2399, 2400), (9996, 9999)]
    else:
        ranges = [(y, min(y + 499, 9999)) for y in range(1000, 10000, 500)]
    for y0, y1 in ranges:
        us.append({"name": f"packed:yyyymmdd:{y0}-{y1}", "kind": "packed", "part": "dates", "y0": y0, "y1": y1,
                   "two_digit": False, "cost": max(1, (y1 - y0) // 8)})
    ylat = [1000, 1970, 1999, 2000, 2024, 2038, 2099, 2100, 9999]
    if tier == "thorough":
        ylat = sorted(set(ylat) | set(range(1968, 2102, 4)) | {2001, 2023, 2037, 2039})
    for i in range(0, len(ylat), 3):
        us.append({"name": f"packed:combined:{ylat[i]}", "kind": "packed", "part": "combined", "years": ylat[i:i + 3],
                   "cost": 12})
    return us


_CHECKED = False


def run_unit(unit):
    global _CHECKED
    import os
    import time as _time

    os.environ["TZ"] = unit.get("tz", LOCAL_ZONES[0])
    _time.tzset()
    if not _CHECKED:
        _selfcheck_calendar()
        _CHECKED = True
    if unit["kind"] == "scalar":
        return run_scalar(unit)
    if unit["kind"] == "container":
        return run_container(unit)
    return run_packed(unit)


def write_repro(v, path):
    call = v.get("detail", {}).get("call") or v.get("what", "")
    with open(path, "w") as fp:
        fp.write(
            "import numpy as np\nfrom datetime import datetime, timezone, timedelta\n"
            "from ocean_science_utilities.tools.time import *\n"
            f"# {v.get('what')}\n"
            f"print({call!s})\n" if call.endswith(")") and "<" not in call else f"# {v.get('what')}\n"
        )
