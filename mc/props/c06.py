"""C06  Estimators reproduce the input moments; Newton and scipy agree; output rotates and
mirrors with the input; the MEM2 Jacobian is the derivative of the constraint function.

Engine E1 (product-space enumeration).  Alphabet

* von-Mises mixtures on a deterministic lattice: lobe width (circular spread) in
  {1.5, 2, 3 bins, 30, 50, 75 degrees} (thorough: five more), mean direction every 15 degrees plus
  sub-bin offsets, second lobe weight in {0, 0.3, 0.5} at separation {60, 120, 180} degrees,
  isotropic background in {0, 0.1};  N in {24, 36} (thorough: 72, 144);
  **every rotation by k bins and the mirror image** of every case (2N relatives per case);
* the five 'hard' moment sets of tests/spectrum/estimators/test_mem2.py with all their rotations
  and mirrors (N = 36, 72; thorough also 144); quick also runs the narrow lobes (1.5, 2, 3 bins) on
  N = 72 for mem / approximate / newton;
* input arrangement (N = 36; thorough 24, 36, 72): the mixture lattice as a (42, F) array of (points,
  frequencies) and as (6, 7, F), entries differing along every axis, in C / Fortran / transposed-view /
  swapaxes-view memory layout; and on descending (clockwise) and rolled direction grids - reproduction,
  solver agreement and the MEM alias oracle for all of them;
* call histories: every custom solver_config of a small alphabet x solution method in between two
  rounds of default calls (thorough: also all ordered pairs of configs);
* Jacobian: lambda in {-3,-1.5,0,1.5,3}^4 (thorough {-3,..,3}^4), N in {24,36}(,72,144), two grid
  origins, plus the first-guess multipliers of the hard cases in every rotation.

Oracle (reference model: numpy / math / scipy.special only, nothing from the library)

* analytic moments of the mixture (Bessel ratios) are the input;
* mem2 newton / scipy:  || m_in - m(D) ||_2 <= 0.01 (+1e-9), m(D) the midpoint-rule moments of
  the returned distribution; newton vs. scipy: moment difference <= 0.02;
* mem: the closed form is an AR(2) spectrum sampled on the grid, so its discrete moments are the
  aliased Fourier coefficients sum_k c_{m+kN} / sum_k c_{kN} with c_n = P1 c_{n-1} + P2 c_{n-2}
  (P from the 2x2 Yule-Walker system, c_n by recursion): |m(D) - aliased| <= 1e-9;
* equivariance: moments rotated by e^{ik Delta}, e^{2ik Delta} => np.roll(D, k); mirrored
  moments => D[(-j) mod N].  mem, mem2-approximate and mem2-newton are deterministic arithmetic
  on the rotated inputs: 1e-9 max(D) (measured worst case on the unchanged tree over the whole
  thorough alphabet incl. the hard cases: mem 6.5e-12, approximate 5.9e-15, newton 3.2e-11 - narrow
  lobes at N=144 - so the bound has a 30-fold margin over rounding times conditioning).  mem2-scipy
  (MINPACK lm with a finite-difference Jacobian, xtol 1.5e-8; measured up to 9.2e-3): 1e-6 max(D),
  a larger mismatch is a violation only if the two outputs differ by more than two solver
  tolerances (0.02) in moment space - both outputs are members of the exponential family
  exp(-lambda.T), on which the moment map is injective ("solver-tolerance divergence", counted);
* history: [default calls] ; [calls with a custom solver_config through the public keyword path
  estimate_directional_distribution(..., solver_config=...)] ; [the same default calls] => results
  bit-identical, newton still within 0.01, module defaults (mem2.NUMERICS) untouched.  Run in a
  fresh interpreter so that a changed module state can neither leak into nor come from other units;
* Jacobian: mem2_jacobian == central differences of moment_constraints (h=1e-6, tol 1e-6),
  == covariance matrix of (cos t, sin t, cos 2t, sin 2t) under D (1e-10), exactly symmetric;
  moment_constraints == m - E_D[T] (1e-10).
"""
import contextlib
import io
import json
import math
import sys
import traceback

import numpy as np

from mc.common import Collector

ID = "C06"
LEVEL = "exploration"
RULE = (
    "full Cartesian product: von-Mises mixture lattice (lobe width x mean direction x second lobe (weight, separation) "
    "x background) x N x all 2N relatives (N rotations x {identity, mirror}) x variant {mem, mem2/approximate, "
    "mem2/newton, mem2/scipy}; the 5 shipped hard cases x all 2N relatives x variant; Jacobian: lambda lattice^4 x N x "
    "2 grid origins plus first-guess multipliers of the hard cases in every rotation; call histories [default ; custom "
    "solver_config call(s) ; default] over a 5-config x 2-method alphabet in a fresh interpreter. A mixture case is non-trivial "
    "when its moments are anisotropic (|c1|+|c2| > 1e-6) so that the estimator output is not the uniform "
    "distribution; distinct = distinct (mixture or hard case, N, relative). A Jacobian point is non-trivial when "
    "lambda != 0; distinct = distinct (lambda, N, grid origin)."
)
ASSUMPTIONS = [
    "lattice, not continuum: nothing is claimed between lattice points",
    "uniform ascending direction grids starting at 0 for the estimators (as as_frequency_direction_spectrum builds)",
    "moment reproduction is demanded only for realisable moments (mixtures; hard cases 0-3); hard case 4 is outside "
    "the realisable set (|c2-c1^2| > 1-|c1|^2), no distribution has its moments, only equivariance is checked for it",
    "mem2/scipy equivariance beyond 1e-6 is judged in moment space against twice the solver tolerance; mem, "
    "mem2/approximate and mem2/newton must be equivariant to 1e-9 max(D)",
    "arrangement family: uniform grids in descending / rolled order and 6 memory layouts, base cases only (no relatives)",
    "history family: solver_config alphabet of 5 dicts x {newton, scipy}; histories of length 1 (thorough: and 2)",
]
REQUIRED_CATEGORIES = [
    "unimodal", "bimodal", "background", "width_1.5bin", "sub_bin_mean_direction",
    "quadrant_1", "quadrant_2", "quadrant_3", "quadrant_4", "mirror_relatives", "rotation_relatives",
    "reproduction_checked_newton", "reproduction_checked_scipy", "newton_scipy_compared", "mem_alias_checked",
    "equiv_exact_mem", "equiv_exact_mem2/approximate", "equiv_exact_mem2/newton", "equiv_exact_mem2/scipy",
    "hard_case", "hard_case_unrealisable", "history_custom_config_then_default", "memory_layout:2d-fortran", "memory_layout:3d-fortran",
    "memory_layout:2d-T-view", "grid_order:descending", "grid_order:roll_half", "arrangement_mem_alias_checked",
    "arrangement_reproduction_checked", "arrangement_newton_scipy_compared", "jacobian_points", "jacobian_first_guess_points", "increments_checked",
]

VARIANTS = {
    "mem": ("mem", {}),
    "mem2/approximate": ("mem2", {"solution_method": "approximate"}),
    "mem2/newton": ("mem2", {"solution_method": "newton"}),
    "mem2/scipy": ("mem2", {"solution_method": "scipy"}),
}
ATOL = 0.01  # the solver's absolute tolerance quoted by the property
# distribution-space equivariance tolerance, relative to max(D) of the base case
EQUIV_TOL = {"mem": 1e-9, "mem2/approximate": 1e-9, "mem2/newton": 1e-9, "mem2/scipy": 1e-6}

HARD = [
    (0.557185, -0.795699, -0.305963, -0.884653),
    (-0.564027, -0.505376, -0.231672, 0.471163),
    (-0.533724, 0.751711, -0.27957, -0.808407),
    (0.458456, -0.848485, -0.515151, -0.753666),
    (0.458456 + 0.06, -0.848485, -0.515151, -0.753666),
]


# --------------------------------------------------------------------------------------------
# reference model
# --------------------------------------------------------------------------------------------
def bessel_ratio(order, kappa):
    from scipy import special

    if kappa <= 0:
        return 0.0
    return float(special.ive(order, kappa) / special.ive(0, kappa))


def kappa_for_spread(sigma):
    """kappa with circular spread sqrt(2 (1 - I1/I0)) = sigma [rad], by bisection."""

    def spread(k):
        return math.sqrt(max(0.0, 2 * (1 - bessel_ratio(1, k))))

    lo, hi = 1e-9, 1e7
    if spread(lo) < sigma:
        raise ValueError("spread not attainable")
    for _ in range(300):
        mid = math.sqrt(lo * hi)
        if spread(mid) > sigma:
            lo = mid
        else:
            hi = mid
    return math.sqrt(lo * hi)


def widths(N, tier):
    dl = 360.0 / N
    w = [("1.5bin", 1.5 * dl), ("2bin", 2 * dl), ("3bin", 3 * dl), ("30deg", 30.0), ("50deg", 50.0), ("75deg", 75.0)]
    if tier != "quick":
        w += [("1.75bin", 1.75 * dl), ("2.5bin", 2.5 * dl), ("4bin", 4 * dl), ("40deg", 40.0), ("60deg", 60.0)]
    return w


def mean_directions(tier):
    mu = [float(x) for x in range(0, 360, 15)] + [3.75, 7.5]
    if tier != "quick":
        mu += [1.25, 11.25, 97.5, 183.75, 277.5]
    return mu


MODES = [(0.0, 0.0)] + [(w, s) for w in (0.3, 0.5) for s in (60.0, 120.0, 180.0)]
BACKGROUNDS = [0.0, 0.1]


def base_cases(N, tier):
    """-> list of (meta dict, c1, c2): analytic moments of
    (1-bg) [ (1-w) VM(mu,kappa) + w VM(mu+sep,kappa) ] + bg / 2 pi."""
    out = []
    for wname, wdeg in widths(N, tier):
        kappa = kappa_for_spread(math.radians(wdeg))
        r1, r2 = bessel_ratio(1, kappa), bessel_ratio(2, kappa)
        for mu in mean_directions(tier):
            for w, sep in MODES:
                for bg in BACKGROUNDS:
                    c1 = c2 = 0j
                    for weight, m in ((1 - w, mu), (w, mu + sep)):
                        t = math.radians(m)
                        c1 += weight * r1 * complex(math.cos(t), math.sin(t))
                        c2 += weight * r2 * complex(math.cos(2 * t), math.sin(2 * t))
                    out.append(({"width": wname, "width_deg": wdeg, "kappa": kappa, "mu": mu, "w2": w, "sep": sep,
                                 "bg": bg}, (1 - bg) * c1, (1 - bg) * c2))
    return out


def relatives(c1, c2, N):
    """(nb,) complex -> (nb, 2N): columns 0..N-1 rotation by k bins, N..2N-1 mirror then rotation."""
    k = np.arange(N)
    dl = 2 * np.pi / N
    r1 = np.cos(k * dl) + 1j * np.sin(k * dl)
    r2 = np.cos(2 * k * dl) + 1j * np.sin(2 * k * dl)
    C1 = np.concatenate([c1[:, None] * r1, np.conj(c1)[:, None] * r1], axis=1)
    C2 = np.concatenate([c2[:, None] * r2, np.conj(c2)[:, None] * r2], axis=1)
    return C1, C2


def expected_relatives(D0, N):
    """D0 (nb,N) -> (nb,2N,N): what equivariance predicts from the base output."""
    out = np.empty((D0.shape[0], 2 * N, N))
    Dm = D0[:, (-np.arange(N)) % N]
    for k in range(N):
        out[:, k, :] = np.roll(D0, k, axis=-1)
        out[:, N + k, :] = np.roll(Dm, k, axis=-1)
    return out


def disc_moments(D, N):
    """midpoint-rule moments of D (per radian) on theta_j = 2 pi j / N -> complex c1, c2."""
    th = 2 * np.pi * np.arange(N) / N
    dl = 2 * np.pi / N
    m1 = (D * np.cos(th)).sum(-1) * dl + 1j * (D * np.sin(th)).sum(-1) * dl
    m2 = (D * np.cos(2 * th)).sum(-1) * dl + 1j * (D * np.sin(2 * th)).sum(-1) * dl
    return m1, m2


def mnorm(d1, d2):
    return np.sqrt(np.abs(d1) ** 2 + np.abs(d2) ** 2)


def realisability(c1, c2):
    """< 0 strictly inside the set of moments of non-negative densities."""
    return np.abs(c2 - c1 * c1) - (1 - np.abs(c1) ** 2)


def mem_aliased_moments(c1, c2, N, max_terms=400000):
    """Discrete (N-point, discretely normalised) moments of the AR(2) maximum-entropy spectrum
    whose first two Fourier coefficients are c1, c2.  Returns (m1, m2, converged mask)."""
    c1 = np.asarray(c1, dtype=complex).ravel()
    c2 = np.asarray(c2, dtype=complex).ravel()
    n = len(c1)
    # Yule-Walker: c1 = P1 + P2 conj(c1) ; c2 = P1 c1 + P2
    P1 = np.empty(n, dtype=complex)
    P2 = np.empty(n, dtype=complex)
    for i in range(n):
        A = np.array([[1.0, np.conj(c1[i])], [c1[i], 1.0]], dtype=complex)
        P1[i], P2[i] = np.linalg.solve(A, np.array([c1[i], c2[i]]))
    # sums over the residue classes 0, 1, 2, N-1, N-2 (negative indices via c_{-n} = conj(c_n))
    S = {r: np.zeros(n, dtype=complex) for r in (0, 1 % N, 2 % N, (N - 1) % N, (N - 2) % N)}
    prev2 = np.conj(c1)  # c_{-1}
    prev1 = np.ones(n, dtype=complex)  # c_0
    S[0] += prev1
    conv = np.zeros(n, dtype=bool)
    idx = 0
    while idx < max_terms:
        idx += 1
        cur = P1 * prev1 + P2 * prev2
        r = idx % N
        if r in S:
            S[r] = S[r] + cur
        prev2, prev1 = prev1, cur
        if idx % N == 0:
            small = (np.abs(prev1) < 1e-18) & (np.abs(prev2) < 1e-18)
            big = ~np.isfinite(prev1) | (np.abs(prev1) > 1e6)
            conv = small
            if np.all(small | big):
                break
    # sum_k c_{m+kN} = sum_{n>=0, n=m mod N} c_n + sum_{n>=1, n=-m mod N} conj(c_n)
    tot0 = S[0] + np.conj(S[0] - 1.0)
    tot1 = S[1 % N] + np.conj(S[(N - 1) % N])
    tot2 = S[2 % N] + np.conj(S[(N - 2) % N])
    with np.errstate(all="ignore"):
        return tot1 / tot0, tot2 / tot0, conv


# --------------------------------------------------------------------------------------------
# harness helpers
# --------------------------------------------------------------------------------------------
@contextlib.contextmanager
def quiet():
    """numba_progress writes a tqdm bar to sys.stdout for >= 10 points; keep the log clean."""
    old = sys.stdout, sys.stderr
    sys.stdout, sys.stderr = io.StringIO(), io.StringIO()
    try:
        yield
    finally:
        sys.stdout, sys.stderr = old


def robust(fn):
    """Retry when numba cannot write its on-disk cache because a concurrent run of the shared
    runner pruned the cache directory (infrastructure, not the library under test)."""
    import os

    for attempt in range(4):
        try:
            return fn()
        except FileNotFoundError as exc:
            cache = os.environ.get("NUMBA_CACHE_DIR", "")
            name = str(getattr(exc, "filename", "") or "")
            if attempt == 3 or not cache or not name.startswith(cache):
                raise
            os.makedirs(os.path.dirname(name), exist_ok=True)


class Agg:
    """one reported violation per distinct key and unit, with a count and first examples"""

    def __init__(self, c):
        self.c = c
        self.d = {}

    def add(self, key, what, **detail):
        k = json.dumps(key, sort_keys=True)
        if k not in self.d:
            self.d[k] = [key, what, detail, 0]
        self.d[k][3] += 1

    def flush(self):
        for key, what, detail, n in self.d.values():
            self.c.violation(key, f"{what} [{n} member(s) with this key in the unit]", members=n, **detail)
        self.c.extra["violating_members"] = sum(v[3] for v in self.d.values())


def tb_tail(exc):
    return "".join(traceback.format_exception(type(exc), exc, exc.__traceback__))[-1500:]


def estimate(variant, C1, C2, N):
    """C1, C2 complex (m,) -> D (m,N) per radian."""
    from ocean_science_utilities.wavespectra.estimators.estimate import estimate_directional_distribution

    method, kw = VARIANTS[variant]
    direction = np.linspace(0, 360, N, endpoint=False)
    a = [np.ascontiguousarray(x)[None, :] for x in (C1.real, C1.imag, C2.real, C2.imag)]
    with quiet():
        D = robust(lambda: estimate_directional_distribution(*a, direction, method, **kw))
    return D[0] * (180.0 / np.pi)


def describe(meta, rel, N):
    k = rel % N
    return f"{meta} relative={'mirror+' if rel >= N else ''}rot{k}"


# --------------------------------------------------------------------------------------------
# the mixture / hard-case check
# --------------------------------------------------------------------------------------------
def check_chunk(c, agg, N, metas, c1, c2, family, demand_reproduction, variants=None):
    """metas: list of json-able descriptions, c1/c2 complex (nb,); demand_reproduction (nb,) bool."""
    variants = list(VARIANTS) if variants is None else list(variants)
    nb = len(c1)
    C1, C2 = relatives(c1, c2, N)  # (nb,2N)
    flat1, flat2 = C1.ravel(), C2.ravel()
    out = {}
    for variant in variants:
        try:
            D = estimate(variant, flat1, flat2, N)
        except Exception as exc:  # noqa: library raised inside the property's domain
            agg.add({"family": family, "N": N, "variant": variant, "check": "raises", "exception": type(exc).__name__},
                    f"{variant} N={N} raises {type(exc).__name__}: {exc} on {family} moments", traceback=tb_tail(exc),
                    first_case=str(metas[0]))
            continue
        if D.shape != (nb * 2 * N, N):
            agg.add({"family": family, "N": N, "variant": variant, "check": "shape"}, f"{variant}: result shape {D.shape}")
            continue
        out[variant] = D.reshape(nb, 2 * N, N)
    c.evaluations += nb * 2 * N * len(out)
    # distinct non-trivial inputs are counted exactly (relatives of different cases coincide, e.g. a
    # mean direction of 15 degrees is the k=1 rotation of 0 degrees for N=24) in finalize()
    c.cat("rotation_relatives", nb * N)
    c.cat("mirror_relatives", nb * N)
    ang = np.degrees(np.arctan2(C1.imag, C1.real)) % 360
    strong = np.abs(C1) > 1e-9
    for qd in range(4):
        c.cat(f"quadrant_{qd + 1}", int(np.sum(strong & (ang >= 90 * qd) & (ang < 90 * (qd + 1)))))

    moms = {}
    for variant, D in out.items():
        fin = np.isfinite(D).all(-1)
        for b, r in zip(*np.nonzero(~fin)):
            agg.add({"family": family, "N": N, "variant": variant, "check": "finite", "width": metas[b].get("width")},
                    f"{variant} N={N}: non-finite distribution for {describe(metas[b], r, N)}")
        moms[variant] = disc_moments(np.where(np.isfinite(D), D, 0.0), N) + (fin,)

    # ---- reproduction of the input moments by the solvers ------------------------------------
    for variant in ("mem2/newton", "mem2/scipy"):
        if variant not in out:
            continue
        m1, m2, fin = moms[variant]
        res = mnorm(m1 - C1, m2 - C2)
        dem = demand_reproduction[:, None] & fin
        bad = dem & ~(res <= ATOL + 1e-9)
        c.cat("reproduction_checked_" + variant.split("/")[1], int(dem.sum()))
        for b, r in zip(*np.nonzero(bad)):
            agg.add({"family": family, "N": N, "variant": variant, "check": "reproduces_moments",
                     "width": metas[b].get("width")},
                    f"{variant} N={N}: |m_in - m(D)| = {res[b, r]:.4g} > {ATOL} for {describe(metas[b], r, N)}",
                    residual=float(res[b, r]), input=[complex(C1[b, r]).real, complex(C1[b, r]).imag,
                                                      complex(C2[b, r]).real, complex(C2[b, r]).imag])
    # ---- newton vs scipy ---------------------------------------------------------------------------
    if "mem2/newton" in out and "mem2/scipy" in out:
        a1, a2, fa = moms["mem2/newton"]
        s1, s2, fs = moms["mem2/scipy"]
        diff = mnorm(a1 - s1, a2 - s2)
        dem = demand_reproduction[:, None] & fa & fs
        bad = dem & ~(diff <= 2 * ATOL + 1e-9)
        c.cat("newton_scipy_compared", int(dem.sum()))
        for b, r in zip(*np.nonzero(bad)):
            agg.add({"family": family, "N": N, "variant": "mem2/newton-vs-scipy", "check": "solvers_agree",
                     "width": metas[b].get("width")},
                    f"N={N}: newton and scipy moments differ by {diff[b, r]:.4g} > {2 * ATOL} for {describe(metas[b], r, N)}")
    # ---- mem: aliased AR(2) oracle ---------------------------------------------------------------
    if "mem" in out:
        m1, m2, fin = moms["mem"]
        inside = realisability(C1, C2) < -1e-9
        r1, r2, conv = mem_aliased_moments(flat1, flat2, N)
        r1, r2, conv = r1.reshape(C1.shape), r2.reshape(C1.shape), conv.reshape(C1.shape)
        usable = inside & conv & fin & demand_reproduction[:, None]
        err = mnorm(m1 - r1, m2 - r2)
        bad = usable & ~(err <= 1e-9)
        c.cat("mem_alias_checked", int(usable.sum()))
        c.cat("mem_alias_oracle_not_converged(skipped)", int((inside & ~conv).sum()))
        for b, r in zip(*np.nonzero(bad)):
            agg.add({"family": family, "N": N, "variant": "mem", "check": "aliased_ar2_moments",
                     "width": metas[b].get("width")},
                    f"mem N={N}: discrete moments differ from the aliased AR(2) coefficients by {err[b, r]:.3g} for "
                    f"{describe(metas[b], r, N)}", error=float(err[b, r]))
    # ---- equivariance ------------------------------------------------------------------------------
    for variant, D in out.items():
        m1, m2, fin = moms[variant]
        exp = expected_relatives(D[:, 0, :], N)
        scale = np.max(np.abs(D[:, 0, :]), axis=-1)[:, None]
        with np.errstate(invalid="ignore"):
            mis = np.max(np.abs(D - exp), axis=-1) / scale
        ok_in = fin & fin[:, :1]
        # mem, mem2/approximate and mem2/newton are deterministic arithmetic on the rotated inputs: a
        # rounding-derived tolerance applies (EQUIV_TOL).  Only scipy's lm (finite-difference Jacobian,
        # xtol 1.5e-8) is judged leniently.
        solver = variant == "mem2/scipy"
        tol = EQUIV_TOL[variant]
        if ok_in.any():
            w = float(np.max(mis[ok_in]))
            key = f"equiv_worst_rel_deviation:{variant}"
            prev = c.extra.get(key)
            if prev is None or w > float(prev[0].split()[0]):
                c.extra[key] = [f"{w:.3e} (N={N}, {family})"]
        exact = ok_in & (mis <= tol)
        c.cat("equiv_exact_" + variant, int(exact.sum()))
        off = ok_in & ~(mis <= tol)
        if not off.any():
            continue
        e1, e2 = disc_moments(exp, N)
        delta = mnorm(m1 - e1, m2 - e2)
        for b, r in zip(*np.nonzero(off)):
            if solver and delta[b, r] <= 2 * ATOL + 1e-9:
                c.cat("equiv_solver_tolerance_divergence_" + variant, 1)
                continue
            agg.add({"family": family, "N": N, "variant": variant, "check": "equivariance",
                     "relative": "mirror" if r >= N else "rotation", "width": metas[b].get("width")},
                    f"{variant} N={N}: output of the {'mirrored and ' if r >= N else ''}rotated (k={r % N}) moments is not "
                    f"the rolled output of the base case: max|dD|/max D = {mis[b, r]:.3g}, moment distance "
                    f"{delta[b, r]:.3g} ({metas[b]})", mismatch=float(mis[b, r]), moment_distance=float(delta[b, r]),
                    k=int(r % N), mirrored=bool(r >= N))
    return out


def run_mix(unit):
    c = Collector()
    agg = Agg(c)
    N, tier = unit["N"], unit["tier"]
    cases = base_cases(N, tier)
    if unit.get("narrow"):
        cases = [x for x in cases if x[0]["width"] in NARROW]
    cases = cases[unit["shard"]::unit["shards"]]
    dl = 360.0 / N
    nb_chunk = max(1, 4000 // (2 * N))
    for s in range(0, len(cases), nb_chunk):
        blk = cases[s:s + nb_chunk]
        metas = [m for m, _, _ in blk]
        c1 = np.array([x for _, x, _ in blk])
        c2 = np.array([x for _, _, x in blk])
        check_chunk(c, agg, N, metas, c1, c2, "vonmises", np.ones(len(blk), dtype=bool), unit.get("variants"))
        for m in metas:
            c.cat("unimodal" if m["w2"] == 0 else "bimodal", 1)
            c.cat("background", 1 if m["bg"] > 0 else 0)
            c.cat("width_" + m["width"], 1)
            c.cat("sub_bin_mean_direction", 1 if (m["mu"] / dl) % 1 != 0 else 0)
        c.case({"N": N, "cases": [[m["width"], m["mu"], m["w2"], m["sep"], m["bg"]] for m in metas]})
        if s == 0:
            c.sample({"N": N, "case": metas[0], "a1": c1[0].real, "b1": c1[0].imag, "a2": c2[0].real, "b2": c2[0].imag,
                      "relatives": 2 * N})
    agg.flush()
    return c.result()


def run_hard(unit):
    c = Collector()
    agg = Agg(c)
    N = unit["N"]
    c1 = np.array([complex(h[0], h[1]) for h in HARD])
    c2 = np.array([complex(h[2], h[3]) for h in HARD])
    inside = realisability(c1, c2) < -1e-9
    metas = [{"hard_case": i, "width": f"hard{i}", "realisable": bool(inside[i])} for i in range(len(HARD))]
    check_chunk(c, agg, N, metas, c1, c2, "hard", inside, unit.get("variants"))
    c.cat("hard_case", int(inside.sum()) * 2 * N)
    c.cat("hard_case_unrealisable", int((~inside).sum()) * 2 * N)
    c.case({"N": N, "hard": True})
    c.sample({"N": N, "hard_case": 0, "moments": list(HARD[0]), "relatives": 2 * N})
    agg.flush()
    return c.result()


# --------------------------------------------------------------------------------------------
# Jacobian
# --------------------------------------------------------------------------------------------
def ref_distribution(lam, T, inc):
    ip = lam @ T
    ip = ip - ip.min()
    w = np.exp(-ip)
    return w / np.sum(w * inc)


def ref_constraints(lam, T, mom, inc):
    D = ref_distribution(lam, T, inc)
    return mom - (T * D * inc).sum(-1)


def ref_jacobian(lam, T, inc):
    """d/dlambda_n (m - E[T_m]) = Cov(T_m, T_n)."""
    p = ref_distribution(lam, T, inc) * inc
    mean = (T * p).sum(-1)
    Tc = T - mean[:, None]
    return (Tc * p) @ Tc.T


def lambda_lattice(tier):
    v = [-3.0, -1.5, 0.0, 1.5, 3.0] if tier == "quick" else [-3.0, -2.0, -1.0, 0.0, 1.0, 2.0, 3.0]
    return [np.array([a, b, cc, d]) for a in v for b in v for cc in v for d in v]


def run_jac(unit):
    from ocean_science_utilities.wavespectra.estimators.mem2 import (
        mem2_jacobian, moment_constraints, initial_value,
    )
    from ocean_science_utilities.wavespectra.estimators.utils import get_direction_increment

    c = Collector()
    agg = Agg(c)
    N, origin = unit["N"], unit["origin"]
    start = {"0": 0.0, "half_bin": 180.0 / N, "-180": -180.0}[origin]
    theta = np.radians(start + np.arange(N) * 360.0 / N)
    T = np.stack([np.cos(theta), np.sin(theta), np.cos(2 * theta), np.sin(2 * theta)])
    inc = np.full(N, 2 * np.pi / N)
    key0 = {"N": N, "grid_origin": origin}
    # the increments the scipy variant and the shipped tests use
    try:
        lib_inc = robust(lambda: get_direction_increment(theta.copy()))
        c.evaluations += 1
        c.cat("increments_checked", N)
        if lib_inc.shape != (N,) or not np.all(np.abs(lib_inc - inc) <= 1e-12):
            agg.add(dict(key0, check="direction_increment"),
                    f"get_direction_increment differs from 2 pi/N on a uniform grid (origin {origin}, N={N}): "
                    f"max error {np.max(np.abs(lib_inc - inc)):.3g}")
    except Exception as exc:  # noqa
        agg.add(dict(key0, check="raises", function="get_direction_increment", exception=type(exc).__name__),
                f"get_direction_increment raises {type(exc).__name__}: {exc}", traceback=tb_tail(exc))
    mom = np.array([0.3, -0.2, 0.1, 0.05])
    points = [("lattice", lam) for lam in lambda_lattice(unit["tier"])]
    if origin == "0":
        dl = 2 * np.pi / N
        for h in HARD:
            for k in range(N):
                for mirror in (False, True):
                    h1 = complex(h[0], -h[1] if mirror else h[1]) * complex(math.cos(k * dl), math.sin(k * dl))
                    h2 = complex(h[2], -h[3] if mirror else h[3]) * complex(math.cos(2 * k * dl), math.sin(2 * k * dl))
                    g = robust(lambda: initial_value(np.array(h1.real), np.array(h1.imag), np.array(h2.real), np.array(h2.imag)))
                    points.append(("first_guess", np.array(g, dtype=float).reshape(4)))
    h = 1e-6
    for kind, lam in points:
        try:
            J = robust(lambda: mem2_jacobian(lam.copy(), T.copy(), inc.copy(), np.empty((4, 4))))
            F0 = robust(lambda: moment_constraints(lam.copy(), T.copy(), mom.copy(), inc.copy()))
            cd = np.empty((4, 4))
            for n in range(4):
                e = np.zeros(4)
                e[n] = h
                cd[:, n] = (moment_constraints(lam + e, T.copy(), mom.copy(), inc.copy())
                            - moment_constraints(lam - e, T.copy(), mom.copy(), inc.copy())) / (2 * h)
        except Exception as exc:  # noqa
            agg.add(dict(key0, check="raises", function="mem2_jacobian/moment_constraints", exception=type(exc).__name__),
                    f"raises {type(exc).__name__}: {exc} at lambda={lam.tolist()}", traceback=tb_tail(exc))
            continue
        c.evaluations += 1
        c.cat("jacobian_points" if kind == "lattice" else "jacobian_first_guess_points", 1)
        if np.any(lam != 0):
            c.nontriv((kind, tuple(np.round(lam, 12).tolist())))
        lam_s = [round(float(x), 6) for x in lam]
        Jr = ref_jacobian(lam, T, inc)
        Fr = ref_constraints(lam, T, mom, inc)
        if not np.all(np.isfinite(J)):
            agg.add(dict(key0, check="jacobian_finite", points=kind), f"mem2_jacobian not finite at lambda={lam_s}")
            continue
        if not np.array_equal(J, J.T):
            agg.add(dict(key0, check="jacobian_symmetric", points=kind),
                    f"mem2_jacobian not symmetric at lambda={lam_s}: max |J-J^T| = {np.max(np.abs(J - J.T)):.3g}")
        err_cd = float(np.max(np.abs(J - cd)))
        if not err_cd <= 1e-6:
            i, j = np.unravel_index(np.argmax(np.abs(J - cd)), (4, 4))
            agg.add(dict(key0, check="jacobian_vs_central_difference", points=kind),
                    f"mem2_jacobian[{i},{j}]={J[i, j]!r} but d(moment_constraints[{i}])/d(lambda[{j}])={cd[i, j]!r} "
                    f"at lambda={lam_s} (N={N})", error=err_cd)
        err_an = float(np.max(np.abs(J - Jr)))
        if not err_an <= 1e-10:
            i, j = np.unravel_index(np.argmax(np.abs(J - Jr)), (4, 4))
            agg.add(dict(key0, check="jacobian_vs_covariance", points=kind),
                    f"mem2_jacobian[{i},{j}]={J[i, j]!r} but Cov(T{i},T{j})={Jr[i, j]!r} at lambda={lam_s} (N={N})",
                    error=err_an)
        err_f = float(np.max(np.abs(F0 - Fr)))
        if not err_f <= 1e-10:
            agg.add(dict(key0, check="moment_constraints_vs_reference", points=kind),
                    f"moment_constraints={F0.tolist()} but m - E[T]={Fr.tolist()} at lambda={lam_s} (N={N})", error=err_f)
    c.case({"N": N, "origin": origin, "points": len(points)})
    c.sample({"N": N, "grid_origin": origin, "lambda": points[7][1].tolist(), "kind": points[7][0]})
    agg.flush()
    return c.result()


# --------------------------------------------------------------------------------------------
# input arrangement: memory layout of the moment arrays, order of the direction grid
# --------------------------------------------------------------------------------------------
def moments_on_grid(D, theta):
    """midpoint-rule moments of D (per radian) on an arbitrary ordering theta of the uniform grid"""
    dl = 2 * np.pi / len(theta)
    m1 = (D * np.cos(theta)).sum(-1) * dl + 1j * (D * np.sin(theta)).sum(-1) * dl
    m2 = (D * np.cos(2 * theta)).sum(-1) * dl + 1j * (D * np.sin(2 * theta)).sum(-1) * dl
    return m1, m2


def estimate_raw(variant, arrays, direction):
    """the moment arrays are handed over exactly as they are (Fortran order, views); -> per radian"""
    from ocean_science_utilities.wavespectra.estimators.estimate import estimate_directional_distribution

    method, kw = VARIANTS[variant]
    with quiet():
        D = robust(lambda: estimate_directional_distribution(*arrays, direction.copy(), method, **kw))
    return D * (180.0 / np.pi)


def judge_plain(c, agg, N, theta, C1, C2, out, key0, label):
    """reproduction (newton, scipy), newton-vs-scipy agreement and the aliased AR(2) oracle (mem) for
    outputs out[variant] of shape C1.shape + (N,) on the grid ordering theta."""
    moms = {}
    for variant, D in out.items():
        fin = np.isfinite(D).all(-1)
        if not fin.all():
            agg.add(dict(key0, variant=variant, check="finite"), f"{variant} N={N} ({label}): non-finite distribution")
        moms[variant] = moments_on_grid(np.where(np.isfinite(D), D, 0.0), theta) + (fin,)
    for variant in ("mem2/newton", "mem2/scipy"):
        if variant in out:
            m1, m2, fin = moms[variant]
            res = mnorm(m1 - C1, m2 - C2)
            bad = fin & ~(res <= ATOL + 1e-9)
            c.cat("arrangement_reproduction_checked", int(fin.sum()))
            for idx in zip(*np.nonzero(bad)):
                agg.add(dict(key0, variant=variant, check="reproduces_moments"),
                        f"{variant} N={N} ({label}): |m_in - m(D)| = {res[idx]:.4g} > {ATOL} at entry {idx}",
                        residual=float(res[idx]))
    if "mem2/newton" in out and "mem2/scipy" in out:
        a1, a2, fa = moms["mem2/newton"]
        s1, s2, fs = moms["mem2/scipy"]
        diff = mnorm(a1 - s1, a2 - s2)
        bad = fa & fs & ~(diff <= 2 * ATOL + 1e-9)
        c.cat("arrangement_newton_scipy_compared", int((fa & fs).sum()))
        for idx in zip(*np.nonzero(bad)):
            agg.add(dict(key0, variant="mem2/newton-vs-scipy", check="solvers_agree"),
                    f"N={N} ({label}): newton and scipy moments differ by {diff[idx]:.4g} > {2 * ATOL} at entry {idx}")
    if "mem" in out:
        m1, m2, fin = moms["mem"]
        r1, r2, conv = mem_aliased_moments(C1.ravel(), C2.ravel(), N)
        r1, r2, conv = r1.reshape(C1.shape), r2.reshape(C1.shape), conv.reshape(C1.shape)
        usable = (realisability(C1, C2) < -1e-9) & conv & fin
        err = mnorm(m1 - r1, m2 - r2)
        bad = usable & ~(err <= 1e-9)
        c.cat("arrangement_mem_alias_checked", int(usable.sum()))
        for idx in zip(*np.nonzero(bad)):
            agg.add(dict(key0, variant="mem", check="aliased_ar2_moments"),
                    f"mem N={N} ({label}): discrete moments differ from the aliased AR(2) coefficients by {err[idx]:.3g} "
                    f"at entry {idx}", error=float(err[idx]))


def run_arrangement(unit):
    c = Collector()
    agg = Agg(c)
    N, part = unit["N"], unit["part"]
    cases = base_cases(N, "quick")
    P = 42
    F = len(cases) // P
    if P * F != len(cases) or F % 1:
        raise AssertionError("case count does not factor")
    c1 = np.array([x for _, x, _ in cases]).reshape(P, F)
    c2 = np.array([x for _, _, x in cases]).reshape(P, F)
    comps2 = [np.ascontiguousarray(x) for x in (c1.real, c1.imag, c2.real, c2.imag)]
    for x in comps2:  # entries must differ between points and between frequencies
        if not (np.all(x.std(axis=0) > 0) and np.all(x.std(axis=1) > 0)):
            raise AssertionError("moment arrays do not vary along both axes")
    theta0 = 2 * np.pi * np.arange(N) / N
    deg0 = np.linspace(0, 360, N, endpoint=False)
    if part == "memory_layout":
        lead3 = (6, 7)
        comps3 = [x.reshape(lead3 + (F,)) for x in comps2]
        arrangements = {
            "2d-C": (comps2, c1, c2),
            "2d-fortran": ([np.asfortranarray(x) for x in comps2], c1, c2),
            "2d-T-view": ([np.ascontiguousarray(x.T).T for x in comps2], c1, c2),
            "3d-fortran": ([np.asfortranarray(x) for x in comps3], c1.reshape(lead3 + (F,)), c2.reshape(lead3 + (F,))),
            "3d-T-view": ([np.ascontiguousarray(x.transpose(2, 1, 0)).transpose(2, 1, 0) for x in comps3],
                          c1.reshape(lead3 + (F,)), c2.reshape(lead3 + (F,))),
            "3d-swapaxes-view": ([np.ascontiguousarray(x.swapaxes(0, 1)).swapaxes(0, 1) for x in comps3],
                                 c1.reshape(lead3 + (F,)), c2.reshape(lead3 + (F,))),
        }
        for name, (arrs, _, _) in arrangements.items():
            want = {"C": (True, False), "fortran": (False, True), "T-view": (False, True), "swapaxes-view": (False, False)}[name.split("-", 1)[1]]
            for x in arrs:
                if (x.flags.c_contiguous, x.flags.f_contiguous) != want:
                    raise AssertionError("memory layout not as intended: " + name)
        grids = {name: (deg0, theta0) for name in arrangements}
    else:
        arrangements = {}
        grids = {}
        for name, deg in (("descending", deg0[::-1].copy()), ("roll_half", np.roll(deg0, N // 2)), ("roll_1", np.roll(deg0, 1))):
            arrangements[name] = (comps2, c1, c2)
            grids[name] = (deg, np.radians(deg))
    for name, (arrs, C1, C2) in arrangements.items():
        deg, theta = grids[name]
        key0 = {"family": "arrangement", "N": N, part: name}
        out = {}
        for variant in VARIANTS:
            try:
                D = estimate_raw(variant, arrs, deg)
            except Exception as exc:  # noqa
                agg.add(dict(key0, variant=variant, check="raises", exception=type(exc).__name__),
                        f"{variant} N={N} raises {type(exc).__name__}: {exc} ({part} {name})", traceback=tb_tail(exc))
                continue
            if D.shape != C1.shape + (N,):
                agg.add(dict(key0, variant=variant, check="shape"), f"{variant}: result shape {D.shape} ({part} {name})")
                continue
            out[variant] = D
            c.evaluations += C1.size
        judge_plain(c, agg, N, theta, C1, C2, out, key0, f"{part} {name}")
        c.cat(f"{part}:{name}", C1.size)
        c.case({"N": N, part: name})
    c.extra["arrangement_distinct"] = len(arrangements) * len(cases)
    c.sample({"N": N, part: list(arrangements), "entries": [P, F]})
    agg.flush()
    return c.result()


# --------------------------------------------------------------------------------------------
# history family: a call with a custom solver_config must not change later default calls
# --------------------------------------------------------------------------------------------
DOCUMENTED_NUMERICS = {"atol": 0.01, "max_iter": 100, "max_line_search_depth": 8, "rcond": 1e-6,
                       "use_mem_when_failing_to_converge": True}
CUSTOM_CONFIGS = [
    ("empty", {}),
    ("atol_0.05", {"atol": 0.05}),
    ("atol_0.5_max_iter_1", {"atol": 0.5, "max_iter": 1}),
    ("max_iter_2", {"max_iter": 2}),
    ("no_mem_fallback", {"use_mem_when_failing_to_converge": False}),
]
CUSTOM_METHODS = ["newton", "scipy"]  # mem2() merges solver_config before it dispatches on solution_method
HIST_MARK = "@@C06-HISTORY@@"


def history_child(tier):
    """Runs in a FRESH interpreter.  [default newton/scipy/approximate/mem on mixtures + hard cases] ;
    [call(s) with a custom solver_config through estimate_directional_distribution(..., solver_config=)]
    ; [the same default calls] -> bit-identical, newton still within the default tolerance 0.01, module
    defaults untouched.  Stops at the first offending history."""
    import warnings

    from mc import runner

    runner.setup_environment()
    warnings.simplefilter("ignore")
    runner.assert_library_from_tree()
    import ocean_science_utilities.wavespectra.estimators.mem2 as M
    from ocean_science_utilities.wavespectra.estimators.estimate import estimate_directional_distribution as edd

    rep = {"violations": [], "evaluations": 0, "histories": 0, "harness_error": None, "members": 0,
           "custom_calls_raising_not_converged": 0}
    if dict(M.NUMERICS) != DOCUMENTED_NUMERICS:
        rep["harness_error"] = f"module defaults at start {dict(M.NUMERICS)!r} != documented {DOCUMENTED_NUMERICS!r}"
        return rep
    N = 36
    cases = base_cases(N, "quick")[::7]
    c1 = np.array([x for _, x, _ in cases] + [complex(h[0], h[1]) for h in HARD])
    c2 = np.array([x for _, _, x in cases] + [complex(h[2], h[3]) for h in HARD])
    realisable = realisability(c1, c2) < -1e-9
    rep["members"] = len(c1)
    direction = np.linspace(0, 360, N, endpoint=False)
    args = lambda: [np.ascontiguousarray(x)[None, :] for x in (c1.real, c1.imag, c2.real, c2.imag)]  # noqa: E731

    def default_calls():
        out = {}
        for variant, (method, kw) in VARIANTS.items():
            with quiet():
                out[variant] = robust(lambda: edd(*args(), direction.copy(), method, **kw))[0] * (180.0 / np.pi)
            rep["evaluations"] += len(c1)
        return out

    base = default_calls()
    histories = [[(sm, c)] for sm in CUSTOM_METHODS for c in CUSTOM_CONFIGS]
    if tier != "quick":
        histories += [[("newton", a), ("newton", b)] for a in CUSTOM_CONFIGS for b in CUSTOM_CONFIGS]
    for hist in histories:
        hname = " ; ".join(f"{sm}:{cn}" for sm, (cn, _) in hist)
        key = {"family": "history", "history": hname, "N": N}
        for sm, (cname, cfg) in hist:
            try:
                with quiet():
                    robust(lambda: edd(*args(), direction.copy(), "mem2", solution_method=sm, solver_config=dict(cfg)))
            except ValueError as exc:
                if "did not converge" in str(exc) and cfg.get("use_mem_when_failing_to_converge") is False:
                    rep["custom_calls_raising_not_converged"] += 1  # documented behaviour of that setting
                else:
                    rep["violations"].append([dict(key, check="raises", exception="ValueError"),
                                              f"call with solver_config={cfg} ({sm}) raises ValueError: {exc}", {}])
            except Exception as exc:  # noqa
                rep["violations"].append([dict(key, check="raises", exception=type(exc).__name__),
                                          f"call with solver_config={cfg} ({sm}) raises {type(exc).__name__}: {exc}",
                                          {"traceback": tb_tail(exc)}])
            rep["evaluations"] += len(c1)
        rep["histories"] += 1
        bad = False
        if dict(M.NUMERICS) != DOCUMENTED_NUMERICS:
            rep["violations"].append([dict(key, check="module_defaults_changed"),
                                      f"after [{hname}] the module defaults are {dict(M.NUMERICS)!r}", {}])
            bad = True
        try:
            again = default_calls()
            for variant in VARIANTS:
                if not np.array_equal(again[variant], base[variant], equal_nan=True):
                    d = np.abs(again[variant] - base[variant])
                    rep["violations"].append([
                        dict(key, check="default_call_changed_by_history", variant=variant),
                        f"{variant}: default call after [{hname}] differs from the same call before it "
                        f"(max |dD| = {float(np.nanmax(d)):.3g}, {int((d > 0).any(-1).sum())} members)", {}])
                    bad = True
            m1, m2 = disc_moments(again["mem2/newton"], N)
            res = mnorm(m1 - c1, m2 - c2)
            worst = float(np.max(res[realisable]))
            if not worst <= ATOL + 1e-9:
                rep["violations"].append([
                    dict(key, check="reproduces_moments_after_history", variant="mem2/newton"),
                    f"mem2/newton default call after [{hname}]: |m_in - m(D)| up to {worst:.4g} > {ATOL}", {}])
                bad = True
        except Exception as exc:  # noqa
            rep["violations"].append([dict(key, check="default_call_raises_after_history", exception=type(exc).__name__),
                                      f"default call after [{hname}] raises {type(exc).__name__}: {exc}",
                                      {"traceback": tb_tail(exc)}])
            bad = True
        if bad:
            rep["stopped_after"] = hname
            break
    return rep


def run_history(unit):
    import os
    import subprocess

    c = Collector()
    verif = os.path.dirname(os.path.dirname(os.path.dirname(os.path.abspath(__file__))))
    p = subprocess.run([sys.executable, "-m", "mc.props.c06", "history", unit["tier"]], cwd=verif,
                       capture_output=True, text=True, env=dict(os.environ))
    lines = [ln for ln in p.stdout.splitlines() if ln.startswith(HIST_MARK)]
    if p.returncode != 0 or not lines:
        raise RuntimeError(f"history child failed (exit {p.returncode}): {p.stderr[-1500:]}")
    rep = json.loads(lines[-1][len(HIST_MARK):])
    if rep["harness_error"]:
        raise AssertionError(rep["harness_error"])
    for key, what, detail in rep["violations"]:
        c.violation(key, what, **detail)
    c.evaluations += rep["evaluations"]
    c.cat("history_custom_config_then_default", rep["histories"])
    c.cat("history_custom_call_raised_not_converged(documented)", rep["custom_calls_raising_not_converged"])
    c.extra["history_distinct"] = rep["histories"]
    c.case({"history": True, "tier": unit["tier"]})
    c.sample({"history": "default ; newton:atol_0.05 ; default", "members": rep["members"], "N": 36,
              "fresh_interpreter": True})
    return c.result()


# --------------------------------------------------------------------------------------------
def tier_N(tier):
    return [24, 36] if tier == "quick" else [24, 36, 72, 144]


NARROW = ("1.5bin", "2bin", "3bin")


def hard_N(tier):
    return [36, 72] if tier == "quick" else [36, 72, 144]


PER_SOLVE_MS = {24: 0.3, 36: 0.35, 72: 0.6, 144: 1.2}  # all four variants together, scheduling only


def units(tier):
    us = []
    for N in tier_N(tier):
        nb = len(widths(N, tier)) * len(mean_directions(tier)) * len(MODES) * len(BACKGROUNDS)
        total_ms = nb * 2 * N * PER_SOLVE_MS[N]
        shards = max(4, int(math.ceil(total_ms / 20000.0)))
        for s in range(shards):
            us.append({"name": f"mix:N{N}:{s}/{shards}", "kind": "mix", "N": N, "shard": s, "shards": shards,
                       "cost": total_ms / shards})
    if tier == "quick":
        # narrow lobes (1.5-3 bins) on the fine grid: where an orientation dependent Newton path shows;
        # without the scipy variant (which dominates the cost and is judged leniently anyway)
        N, shards = 72, 4
        for s in range(shards):
            us.append({"name": f"narrow:N{N}:{s}/{shards}", "kind": "mix", "N": N, "shard": s, "shards": shards,
                       "narrow": True, "variants": ["mem", "mem2/approximate", "mem2/newton"], "cost": 6000})
    us.append({"name": "history:solver_config", "kind": "history", "cost": 40000})
    for N in ([36] if tier == "quick" else [24, 36, 72]):
        for part in ("memory_layout", "grid_order"):
            us.append({"name": f"arrangement:{part}:N{N}", "kind": "arrangement", "part": part, "N": N, "cost": 8000})
    for N in hard_N(tier):
        us.append({"name": f"hard:N{N}", "kind": "hard", "N": N, "cost": 5 * 2 * N * 3.0})
    for N in tier_N(tier):
        for origin in ("0", "half_bin", "-180"):
            us.append({"name": f"jac:N{N}:{origin}", "kind": "jac", "N": N, "origin": origin,
                       "cost": len(lambda_lattice(tier)) * 0.5})
    return us


def distinct_inputs(c1, c2, N):
    C1, C2 = relatives(np.asarray(c1), np.asarray(c2), N)
    keep = (np.abs(C1) + np.abs(C2)) > 1e-6
    arr = np.round(np.stack([C1.real, C1.imag, C2.real, C2.imag], axis=-1)[keep], 9) + 0.0
    return len(np.unique(arr, axis=0))


def finalize(coverage, results, tier):
    """distinct_nontrivial = number of distinct anisotropic input quadruples per N over all cases and
    relatives (exact, de-duplicated across units) + distinct non-zero Jacobian points."""
    total = 0
    per_N = {}
    for N in tier_N(tier):
        cases = base_cases(N, tier)
        per_N[f"mixtures_N{N}"] = distinct_inputs([x for _, x, _ in cases], [x for _, _, x in cases], N)
    if tier == "quick":
        cases = [x for x in base_cases(72, tier) if x[0]["width"] in NARROW]
        per_N["narrow_mixtures_N72"] = distinct_inputs([x for _, x, _ in cases], [x for _, _, x in cases], 72)
    for N in hard_N(tier):
        per_N[f"hard_N{N}"] = distinct_inputs([complex(h[0], h[1]) for h in HARD], [complex(h[2], h[3]) for h in HARD], N)
    total = sum(per_N.values())
    jac = sum(int(r.get("distinct_nontrivial", 0)) for r in results if str(r.get("unit", "")).startswith("jac:"))
    hist = sum(int(r.get("extra", {}).get("history_distinct", 0)) for r in results)
    arr = sum(int(r.get("extra", {}).get("arrangement_distinct", 0)) for r in results)
    coverage["distinct_nontrivial"] = int(total + jac + hist + arr)
    coverage["distinct_arrangement_cases"] = int(arr)
    coverage["distinct_histories"] = int(hist)
    coverage["distinct_inputs_per_grid"] = per_N
    coverage["distinct_jacobian_points"] = int(jac)


def run_unit(unit):
    return {"mix": run_mix, "hard": run_hard, "jac": run_jac, "history": run_history,
            "arrangement": run_arrangement}[unit["kind"]](unit)


if __name__ == "__main__":
    if len(sys.argv) >= 3 and sys.argv[1] == "history":
        _rep = history_child(sys.argv[2])
        sys.stdout.write("\n" + HIST_MARK + json.dumps(_rep) + "\n")
