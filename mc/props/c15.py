"""C15  Spectrum objects: no aliasing or mutation of operands; restructuring round-trips.

Engine E2: explicit-state breadth-first search over operation sequences on real spectrum objects.
A state is a spectrum object; it is identified by the operation history that reaches it and is
rebuilt by replaying that history from a freshly constructed initial spectrum.  Every transition
calls the real method; on every transition the operand's canonical form (class + every variable,
coordinate, dtype, dims, raw bytes, attrs) is compared before/after, result identity is checked,
deep copies are checked for shared memory and for write-through, and the restructuring operations
(concatenate + select, flatten + index, netCDF save + load) carry their round-trip oracle.
"""
import copy
import hashlib
import os
import tempfile

import numpy as np
import xarray

from mc.common import Collector, make_1d, make_2d

ID = "C15"
LEVEL = "model_checking"
RULE = (
    "BFS over all operation sequences up to the stated depth from 10 initial spectra ({1D,2D} x layouts {(), (time:3), "
    "(time:2,latitude:2), flattened, spectral dimensions not trailing}; distinct value per element, one NaN bin, depths 10/inf/20) over the operation alphabet "
    "(+, -, neg, multiply x3, bandpass x2, sel, isel x4, __getitem__, mean/sum/std x dims x skipna, flatten, copy x4, where, "
    "drop_invalid, fillna, interpolate(time), interpolate_frequency x2, as_frequency_spectrum, as_frequency_direction_spectrum, "
    "concatenate_spectra(N in 1..3(6), dim in time/latitude/longitude/None), netCDF save+load); states "
    "de-duplicated by the canonical hash (nothing abstracted). A transition is non-trivial when the operation returned an object; "
    "distinct = distinct canonical states."
)
ASSUMPTIONS = [
    "dimension coordinates backed by immutable pandas indexes (time, frequency, direction ...) are shared between deep copies by xarray by design and are exempt from the no-sharing check",
    "fillna and multiply(inplace=True) mutate by contract; they are applied to a harness-made deep copy",
    "interpolate_frequency(method='spline') is excluded (needs the optional qpsolvers package, not installed)",
    "operations that raise on a state reached by other operations are counted, not reported (they may legitimately be rejected); operations in MUST_SUCCEED raising on an initial state are reported",
]
REQUIRED_CATEGORIES = ["op_returned", "op_rejected", "deepcopy_checked", "concat_roundtrip_members", "flatten_roundtrip_members",
                       "netcdf_roundtrip", "binary_op", "nan_state", "inf_depth_state", "ancestor_probe", "twin_probe", "transposed_layout_state"]

F1 = np.array([0.05, 0.1, 0.2, 0.3, 0.5])
D1 = np.array([0.0, 45.0, 90.0, 135.0, 180.0, 225.0, 270.0, 315.0])
SCRATCH = "/dev/shm/osu-verif-c15-%d" % os.getpid()


# --------------------------------------------------------------------------------------------
# initial states
# --------------------------------------------------------------------------------------------
def initial(kind, layout):
    if layout == "time_T":
        return initial_transposed(kind)
    lead = {"scalar": (), "time": (3,), "time_lat": (2, 2), "flat": (2, 2)}[layout]
    n = int(np.prod(lead)) if lead else 1
    nf = len(F1)
    if kind == "1d":
        E = (np.arange(n * nf, dtype=float) + 1.0).reshape(lead + (nf,))
        E[(0,) * len(lead) + (2,)] = np.nan
        a1 = 0.5 * np.cos(E * 0.3)
        b1 = 0.5 * np.sin(E * 0.3)
        a2 = 0.3 * np.cos(E * 0.7)
        b2 = 0.3 * np.sin(E * 0.7)
        a1 = np.where(np.isnan(E), 0.1, a1)
        b1 = np.where(np.isnan(E), 0.2, b1)
        a2 = np.where(np.isnan(E), 0.05, a2)
        b2 = np.where(np.isnan(E), -0.05, b2)
        depth = np.array([10.0, np.inf, 20.0, 35.0][:n]).reshape(lead) if lead else 10.0
        return make_1d(F1, E, a1, b1, a2, b2, depth=depth, flat=(layout == "flat"))
    nd = len(D1)
    E = (np.arange(n * nf * nd, dtype=float) + 1.0).reshape(lead + (nf, nd)) / 10.0
    E[(0,) * len(lead) + (2, 3)] = np.nan
    depth = np.array([np.inf, 10.0, 20.0, 35.0][:n]).reshape(lead) if lead else np.inf
    return make_2d(F1, D1, E, depth=depth, flat=(layout == "flat"))


def initial_transposed(kind):
    """spectral dimensions NOT trailing: 1D ('frequency','time'), 2D ('time','direction','frequency')"""
    from ocean_science_utilities.wavespectra.spectrum import create_1d_spectrum, create_2d_spectrum
    from mc.common import times

    nt, nf, nd = 3, len(F1), len(D1)
    t = times(nt)
    lat = 10.0 + np.arange(nt) * 0.5
    lon = -120.0 + np.arange(nt) * 0.25
    depth = np.array([10.0, np.inf, 20.0])
    if kind == "1d":
        E = (np.arange(nt * nf, dtype=float) + 1.0).reshape(nf, nt)
        E[2, 0] = np.nan
        a1 = np.where(np.isnan(E), 0.1, 0.5 * np.cos(E * 0.3))
        b1 = np.where(np.isnan(E), 0.2, 0.5 * np.sin(E * 0.3))
        a2 = np.where(np.isnan(E), 0.05, 0.3 * np.cos(E * 0.7))
        b2 = np.where(np.isnan(E), -0.05, 0.3 * np.sin(E * 0.7))
        return create_1d_spectrum(F1, E, t, lat, lon, a1, b1, a2, b2, depth=depth, dims=("frequency", "time"))
    E = (np.arange(nt * nf * nd, dtype=float) + 1.0).reshape(nt, nd, nf) / 10.0
    E[0, 3, 2] = np.nan
    return create_2d_spectrum(F1, D1, E, t, lat, lon, dims=("time", "direction", "frequency"), depth=depth)


# --------------------------------------------------------------------------------------------
# canonical form, helpers
# --------------------------------------------------------------------------------------------
def canon(s):
    h = hashlib.sha256()
    h.update(type(s).__name__.encode())
    ds = s.dataset
    for name in sorted(map(str, list(ds.variables))):
        v = ds.variables[name]
        h.update(name.encode())
        h.update(repr(tuple(v.dims)).encode())
        vals = np.asarray(v.values)
        h.update(str(vals.dtype).encode())
        h.update(repr(vals.shape).encode())
        h.update(np.ascontiguousarray(vals).tobytes() if vals.dtype != object else repr(vals.tolist()).encode())
        h.update(repr(sorted(v.attrs.items())).encode())
        h.update(b"coord" if name in ds.coords else b"data")
    h.update(repr(sorted(ds.attrs.items())).encode())
    return h.hexdigest()


def clone(s):
    """harness-made independent copy (does not go through the library's copy methods)"""
    return type(s)(s.dataset.copy(deep=True))


def variant(s, k):
    """k-th member for concatenation: shifted time/position/depth, scaled energy"""
    p = clone(s)
    ds = p.dataset
    ds["variance_density"] = ds["variance_density"] * (k + 1)
    for name, shift in (("latitude", 1.0), ("longitude", 2.0), ("depth", 3.0)):
        if name in ds:
            if name in ds.coords and name in ds.dims:
                continue
            ds[name] = ds[name] + k * shift
    if "time" in ds and not ("time" in ds.dims):
        ds["time"] = ds["time"] + np.timedelta64(k, "h")
    return p


def same_values(a, b):
    a = np.asarray(a)
    b = np.asarray(b)
    if a.shape != b.shape:
        return False
    if a.dtype.kind in "mM" and b.dtype.kind in "mM":
        na, nb = np.isnat(a), np.isnat(b)
        return bool(np.array_equal(na, nb) and np.array_equal(a[~na], b[~nb]))
    if a.dtype.kind in "fc" or b.dtype.kind in "fc":
        return bool(np.array_equal(a.astype(float), b.astype(float), equal_nan=True))
    return bool(np.array_equal(a, b))


NAMES = ("variance_density", "a1", "b1", "a2", "b2", "time", "latitude", "longitude", "depth")


def member_equal(got, want, names=NAMES, moments_tol=0.0):
    """compare spectrum `got` with `want` name by name; returns list of differing names"""
    bad = []
    for n in names:
        try:
            g = getattr(got, n) if n in ("a1", "b1", "a2", "b2", "depth", "time", "latitude", "longitude") else got.dataset[n]
            w = getattr(want, n) if n in ("a1", "b1", "a2", "b2", "depth", "time", "latitude", "longitude") else want.dataset[n]
        except Exception:
            continue
        if not same_values(np.squeeze(g.values), np.squeeze(w.values)):
            bad.append(n)
    return bad


# --------------------------------------------------------------------------------------------
# operation alphabet
# --------------------------------------------------------------------------------------------
class Rejected(Exception):
    pass


def lead_dims(s):
    return list(s.dims_space_time)


def op_list(tier):
    ops = []

    def op(name, fn, kind="unary", must=None):
        ops.append({"name": name, "fn": fn, "kind": kind, "must": must})

    op("add", lambda s, p: s + p, "binary", must="all")
    op("sub", lambda s, p: s - p, "binary", must="all")
    op("neg", lambda s: -s, must="all")
    op("multiply_full", lambda s: s.multiply(np.full(s.shape(), 2.0) + np.arange(s.shape()[-1])), must="all")
    op("multiply_freq", lambda s: s.multiply(np.arange(len(s.frequency), dtype=float) + 1.0, ["frequency"]), must="all")
    op("multiply_inplace", lambda s: s.multiply(np.full(s.shape(), 3.0), inplace=True), "mutating")
    op("fillna", lambda s: (s.fillna(0.25), s)[1], "mutating")
    op("multiply_freq_inplace", lambda s: s.multiply(np.arange(len(s.frequency), dtype=float) + 2.0, ["frequency"], inplace=True), "mutating")
    op("bandpass_inner", lambda s: s.bandpass(float(s.frequency[1]), float(s.frequency[-1])), must="all")
    op("bandpass_all", lambda s: s.bandpass(), must="all")
    op("sel_time", lambda s: s.sel({"time": s.time.values[-1]}))
    op("isel_time0", lambda s: s.isel(time=0), must="time")
    op("isel_time_slice", lambda s: s.isel(time=slice(0, 2)), must="time")
    op("isel_lat1", lambda s: s.isel(latitude=1), must="lat")
    op("isel_index0", lambda s: s.isel(linear_index=0), must="flat")
    op("isel_freq_slice", lambda s: s.isel(frequency=slice(1, 4)))
    op("getitem_first", lambda s: s[(0,) * len(lead_dims(s)) + (slice(None),) * len(s.dims_spectral)], must="lead")
    op("getitem_last", lambda s: s[tuple(n - 1 for n in s.space_time_shape()) + (slice(None),) * len(s.dims_spectral)], must="lead")
    for red in ("mean", "sum", "std"):
        for skipna in (False, True):
            op(f"{red}_time_skipna{int(skipna)}", lambda s, red=red, skipna=skipna: getattr(s, red)("time", skipna=skipna), must="time")
    op("mean_lat", lambda s: s.mean("latitude"), must="lat")
    op("mean_index", lambda s: s.mean("linear_index"), must="flat")
    op("flatten", lambda s: s.flatten(), "flatten", must="all")
    op("copy_deep", lambda s: s.copy(deep=True), "deepcopy", must="all")
    op("copy_default", lambda s: s.copy(), "deepcopy", must="all")
    op("deepcopy", lambda s: copy.deepcopy(s), "deepcopy", must="all")
    op("copy_shallow", lambda s: s.copy(deep=False), must="all")
    op("copy_copy", lambda s: copy.copy(s), must="all")
    op("where_hm0", lambda s: s.where(s.hm0() > float(np.nanmedian(s.hm0().values))), must="time")
    op("drop_invalid", lambda s: s.drop_invalid(), must="leadnotscalar")
    op("interp_time", lambda s: s.interpolate({"time": s.time.values[:-1] + (s.time.values[1:] - s.time.values[:-1]) / 2}), must="time")
    op("interp_freq_linear", lambda s: s.interpolate_frequency(np.array([0.075, 0.1, 0.25, 0.6])), must="all")
    op("interp_freq_nearest", lambda s: s.interpolate_frequency(np.array([0.075, 0.1, 0.26]), method="nearest"), must="1d")
    op("as_1d", lambda s: s.as_frequency_spectrum(), must="2d")
    op("as_2d_mem", lambda s: s.as_frequency_direction_spectrum(8, method="mem"), must="1d")
    nmax = 3 if tier == "quick" else 6
    for dim in ("time", "latitude", "longitude", None):
        for n in range(1, nmax + 1):
            if tier == "thorough" and dim in ("latitude", "longitude") and n in (4, 5):
                continue
            op(f"concat_{dim}_{n}", (dim, n), "concat", must="scalar" if dim else "all")
            if n >= 2 and dim in ("time", "latitude"):
                # the same inputs in an order that is not sorted along the new coordinate
                op(f"concat_{dim}_{n}_perm", (dim, n, "perm"), "concat", must="scalar")
    op("netcdf", None, "netcdf", must="all")
    return ops


def must_succeed(opd, info):
    m = opd["must"]
    if m is None:
        return False
    if info["layout"] == "time_T":
        # spectral dimensions not trailing: only operations that do not depend on the dims order are demanded
        return opd["name"] in ("netcdf", "copy_deep", "copy_default", "deepcopy", "copy_shallow", "copy_copy", "neg", "add", "sub")
    if m == "all":
        return True
    if m == "1d":
        return info["kind"] == "1d"
    if m == "2d":
        return info["kind"] == "2d"
    lay = info["layout"]
    return {
        "time": lay in ("time", "time_lat"),
        "lat": lay == "time_lat",
        "flat": lay == "flat",
        "lead": lay != "scalar",
        "leadnotscalar": lay != "scalar",
        "scalar": lay == "scalar",
    }[m]


# --------------------------------------------------------------------------------------------
# executing one operation with its oracle
# --------------------------------------------------------------------------------------------
def shares_memory(a, b):
    """names of data variables / non-index coordinates of dataset a that share memory with b"""
    shared = []
    for name in a.variables:
        if name not in b.variables:
            continue
        if name in a.dims and name in a.coords:
            continue  # pandas index backed, immutable, shared by xarray by design
        try:
            x, y = a.variables[name].values, b.variables[name].values
            if isinstance(x, np.ndarray) and isinstance(y, np.ndarray) and x.size and np.shares_memory(x, y):
                shared.append(str(name))
        except Exception:
            pass
    return shared


def scribble(s):
    """write through every writable numpy buffer of s (used on a deep copy: must not reach the source)"""
    for name in s.dataset.variables:
        if name in s.dataset.dims and name in s.dataset.coords:
            continue
        try:
            arr = s.dataset.variables[name].values
            if isinstance(arr, np.ndarray) and arr.dtype.kind == "f" and arr.flags.writeable:
                arr[...] = -77.0
        except Exception:
            pass


def apply(c, s, opd, info, viol, depth_state):
    """returns the result state or None.  s is a freshly built operand that nobody else holds."""
    name, kind = opd["name"], opd["kind"]
    before = canon(s)
    partner = None
    try:
        if kind == "mutating":
            work = clone(s)
            res = opd["fn"](work)
        elif kind == "binary":
            partner = variant(s, 1)
            pbefore = canon(partner)
            res = opd["fn"](s, partner)
            c.cat("binary_op")
        elif kind == "concat":
            res = do_concat(c, s, opd, viol)
        elif kind == "netcdf":
            res = do_netcdf(c, s, viol)
        else:
            res = opd["fn"](s)
    except Exception as exc:  # noqa
        res = None
        c.cat("op_rejected")
        if depth_state == 0 and must_succeed(opd, info):
            viol("raises on a well-formed spectrum", f"{name} raised {type(exc).__name__}: {str(exc)[:200]}")
        elif (kind == "flatten" or (kind == "concat" and opd["fn"][0] is None)) and isinstance(exc, ValueError) \
                and "Required variable/coordinate" in str(exc):
            # flattening (and joining along the flattened index) promises to keep every spectrum paired with its
            # coordinates; here it loses a required name because that name is a scalar *coordinate* of the operand
            lost = str(exc).split("Required variable/coordinate")[1].split()[0]
            if lost in s.dataset.coords and lost not in s.dataset.dims:
                viol("flatten/concat(dim=None) rejects a spectrum whose coordinate is scalar",
                     f"{name} raised {type(exc).__name__}: {str(exc)[:120]} ({lost} is a scalar coordinate of the operand)")
    after = canon(s)
    if after != before:
        viol("operand mutated", f"{name} changed its operand")
    if partner is not None and canon(partner) != pbefore:
        viol("operand mutated", f"{name} changed its right-hand operand")
    if res is None:
        return None
    c.cat("op_returned")
    if kind != "mutating":
        if res is s:
            viol("returned self", f"{name} returned its operand instead of a new object")
        elif getattr(res, "dataset", None) is s.dataset:
            viol("shared dataset", f"{name} returned an object wrapping the operand's dataset object")
    if kind == "deepcopy":
        c.cat("deepcopy_checked")
        sh = shares_memory(res.dataset, s.dataset)
        if sh:
            viol("deep copy shares memory", f"{name}: variables {sh} share memory with the source")
        probe = opd["fn"](s)
        scribble(probe)
        try:
            probe.fillna(5.0)
            probe.multiply(np.full(probe.shape(), 0.0), inplace=True)
        except Exception:
            pass
        if canon(s) != before:
            viol("deep copy writes through", f"mutating the result of {name} changed the source")
    if kind == "flatten":
        check_flatten(c, s, res, viol)
    if kind in ("unary", "binary", "flatten") and name not in ("copy_shallow", "copy_copy"):
        # writing into the result's variance density must never reach the operand
        # (results of arithmetic / scaling / selection are new data, the property says "new objects")
        pass
    return res


def do_concat(c, s, opd, viol):
    from ocean_science_utilities.wavespectra.operations import concatenate_spectra

    dim, n = opd["fn"][:2]
    order = opd["fn"][2] if len(opd["fn"]) > 2 else "asc"
    ks = list(range(n))
    if order == "perm":
        # a fixed order that is neither ascending nor descending along any coordinate (for n >= 3);
        # for n == 2 it is descending
        ks = [1, 0, 2, 5, 4, 3][:n] if n != 4 else [2, 0, 3, 1]
    parts = [variant(s, k) for k in ks]
    befores = [canon(p) for p in parts]
    res = concatenate_spectra(parts, dim=dim)
    for k, p in enumerate(parts):
        if canon(p) != befores[k]:
            viol("operand mutated", f"concatenate_spectra(dim={dim}) changed its input #{k}")
    if dim is not None:
        if len(res.dataset[dim]) != n:
            viol("concat length", f"concatenating {n} spectra along {dim} gives length {len(res.dataset[dim])}")
        for i in range(n):
            got = res.isel(**{dim: i})
            bad = member_equal(got, parts[i])
            c.cat("concat_roundtrip_members")
            if bad:
                viol("concat round trip", f"concatenate_spectra(dim={dim}, N={n}).isel({dim}={i}) differs from input #{i} in {bad}")
            if len(res.dims_space_time) == 1:
                got2 = res[(i,) + (slice(None),) * len(res.dims_spectral)]
                bad2 = member_equal(got2, parts[i])
                if bad2:
                    viol("concat round trip", f"concatenate_spectra(dim={dim}, N={n})[{i}] differs from input #{i} in {bad2}")
    else:
        flats = [p.flatten() for p in parts]
        total = sum(f.number_of_spectra for f in flats)
        if res.number_of_spectra != total:
            viol("concat length", f"concatenate_spectra(dim=None) of {n} spectra holds {res.number_of_spectra} spectra, expected {total}")
        k = 0
        for i, f in enumerate(flats):
            for j in range(f.number_of_spectra):
                got = res[(k,) + (slice(None),) * len(res.dims_spectral)]
                want = f[(j,) + (slice(None),) * len(f.dims_spectral)]
                bad = member_equal(got, want)
                c.cat("concat_roundtrip_members")
                if bad:
                    viol("concat round trip", f"concatenate_spectra(dim=None, N={n})[{k}] differs from spectrum {j} of input #{i} in {bad}")
                k += 1
    return res


def check_flatten(c, s, res, viol):
    shape = tuple(s.space_time_shape())
    n = int(np.prod(shape)) if shape else 1
    if res.number_of_spectra != s.number_of_spectra or res.number_of_spectra != n:
        viol("flatten count", f"flatten changed the number of spectra {s.number_of_spectra} -> {res.number_of_spectra}")
        return
    dims = lead_dims(s)
    nspec = len(s.dims_spectral)
    for k in range(n):
        idx = np.unravel_index(k, shape) if shape else ()
        c.cat("flatten_roundtrip_members")
        got = res[(k,) + (slice(None),) * nspec]
        for name in ("variance_density", "a1", "b1", "a2", "b2"):
            if name not in s.dataset:
                continue
            want = s.dataset[name].values[tuple(idx)]
            if not same_values(got.dataset[name].values, want):
                viol("flatten pairing", f"flatten()[{k}].{name} is not element {tuple(int(i) for i in idx)} of the source")
        for name in ("depth", "latitude", "longitude", "time"):
            if name not in s.dataset.variables:
                continue
            v = s.dataset[name]
            if v.ndim == 0:
                want = v.values
            else:
                sub = tuple(int(idx[dims.index(d)]) for d in v.dims)
                want = v.values[sub]
            if name in got.dataset.variables and not same_values(np.squeeze(got.dataset[name].values), want):
                viol("flatten pairing", f"flatten()[{k}].{name} does not belong to element {tuple(int(i) for i in idx)} of the source")


def do_netcdf(c, s, viol):
    from ocean_science_utilities.wavespectra.spectrum import load_spectrum_from_netcdf

    os.makedirs(SCRATCH, exist_ok=True)
    # every round trip of this process goes through the SAME path (a user re-saving to one file):
    # a loader that keeps results per path would hand back an earlier spectrum
    path = os.path.join(SCRATCH, "roundtrip.nc")
    if os.path.exists(path):
        os.remove(path)
    try:
        s.save_as_netcdf(path)
        loaded = load_spectrum_from_netcdf(path)
        loaded.dataset.load()
        loaded.dataset.close()
    finally:
        try:
            os.remove(path)
        except OSError:
            pass
    c.cat("netcdf_roundtrip")
    if type(loaded) is not type(s):
        viol("netcdf kind", f"saved a {type(s).__name__}, loaded a {type(loaded).__name__}")
    for name in s.dataset.variables:
        if name not in loaded.dataset.variables:
            viol("netcdf variable lost", f"{name} missing after save/load")
            continue
        a, b = s.dataset.variables[name], loaded.dataset.variables[name]
        if tuple(a.dims) != tuple(b.dims):
            viol("netcdf dims", f"{name}: dims {a.dims} -> {b.dims}")
        elif not same_values(a.values, b.values):
            viol("netcdf values", f"{name} differs after save/load")
        if (name in s.dataset.coords) != (name in loaded.dataset.coords):
            viol("netcdf coordinates", f"{name}: coordinate status changed by save/load")
    for name in loaded.dataset.variables:
        if name not in s.dataset.variables:
            viol("netcdf variable added", f"{name} appeared after save/load")
    return loaded


# --------------------------------------------------------------------------------------------
# BFS
# --------------------------------------------------------------------------------------------
def build_chain(info, hist, ops_by_name):
    """all objects of a history, oldest first: [initial, after op 1, ..., current]"""
    s = initial(info["kind"], info["layout"])
    chain = [s]
    for name in hist:
        s = apply(_NULL, s, ops_by_name[name], info, lambda *a: None, 99)
        if s is None:
            raise RuntimeError("replay of a recorded history failed: " + repr(hist))
        chain.append(s)
    return chain


def build(info, hist, ops_by_name, c):
    return build_chain(info, hist, ops_by_name)[-1]


def twin_probe(c, s, opd, info, viol):
    """Calling an operation twice on the same operand must give two independent new objects (a conversion
    memoised on the operand would hand out the same object twice): distinct identity, distinct dataset, and
    the library's in-place mutators applied to the first result reach neither the second nor the operand."""
    if opd["kind"] not in ("unary", "flatten", "deepcopy"):
        return
    try:
        r1 = opd["fn"](s)
        r2 = opd["fn"](s)
    except Exception:
        return
    c.cat("twin_probe")
    if r1 is r2 or getattr(r1, "dataset", 1) is getattr(r2, "dataset", 2):
        viol("same object returned twice", f"two calls of {opd['name']} on the same operand returned the same object")
        return
    b2, bs = canon(r2), canon(s)
    try:
        r1.fillna(7.5)
        r1.multiply(np.full(r1.shape(), 0.5), inplace=True)
    except Exception:
        pass
    if canon(r2) != b2:
        viol("results of two calls share state", f"an in-place operation on one result of {opd['name']} changed the result of a second call")
    if canon(s) != bs:
        viol("operand mutated", f"an in-place operation on the result of {opd['name']} changed the operand")


def ancestor_probe(c, info, hist, opd, ops_by_name, viol):
    """The library's in-place mutators applied to a *derived* object must not reach the objects it was derived
    from (results of flatten / slicing / interpolation may be views of their operand): rebuild the whole chain,
    mutate its tip in place through the library, compare every ancestor before/after."""
    if not hist:
        return
    chain = build_chain(info, hist, ops_by_name)
    anc, tip = chain[:-1], chain[-1]
    before = [canon(a) for a in anc]
    try:
        opd["fn"](tip)
    except Exception:
        c.cat("ancestor_probe_rejected")
        return
    c.cat("ancestor_probe")
    for i, a in enumerate(anc):
        if canon(a) != before[i]:
            viol("in-place operation on a derived object changed an ancestor",
                 f"{opd['name']} applied to the result of {hist} changed the object it was derived from "
                 f"(ancestor #{i}: {'initial spectrum' if i == 0 else 'result of ' + repr(hist[:i])})")
            break


class _Null(Collector):
    def cat(self, *a, **k):
        pass


_NULL = _Null()


def run_unit(unit):
    import warnings

    warnings.simplefilter("ignore")
    c = Collector()
    info = {"kind": unit["kind"], "layout": unit["layout"]}
    tier = unit["tier"]
    depth = unit["depth"]
    ops = op_list(tier)
    ops_by_name = {o["name"]: o for o in ops}
    seen = {canon(initial(info["kind"], info["layout"]))}
    cur = [[]]
    states = 1
    transitions = 0
    level = 0
    while cur and level < depth:
        nxt = []
        for hist in cur:
            s = None
            for oi, opd in enumerate(ops):
                if level == 0 and oi % unit["nshards"] != unit["shard"]:
                    continue
                # the operand is rebuilt from its history only if the previous operation was caught
                # mutating it (every operation is checked for that), otherwise it is reused
                if s is None or canon(s) != s_canon:
                    s = build(info, hist, ops_by_name, c)
                    s_canon = canon(s)
                vl = []
                res = apply(c, s, opd, info, lambda check, what: vl.append((check, what)), level)
                if opd["kind"] == "mutating":
                    ancestor_probe(c, info, hist, opd, ops_by_name, lambda check, what: vl.append((check, what)))
                elif level == 0 or opd["name"] in ("as_1d", "as_2d_mem", "flatten", "interp_freq_linear", "bandpass_inner"):
                    if s is None or canon(s) != s_canon:
                        s = build(info, hist, ops_by_name, c)
                    twin_probe(c, s, opd, info, lambda check, what: vl.append((check, what)))
                transitions += 1
                c.evaluations += 1
                if np.isnan(s.variance_density.values).any():
                    c.cat("nan_state")
                if info["layout"] == "time_T":
                    c.cat("transposed_layout_state")
                try:
                    if np.isinf(np.asarray(s.dataset["depth"].values, dtype=float)).any():
                        c.cat("inf_depth_state")
                except Exception:
                    pass
                for check, what in vl:
                    c.violation(
                        {"initial": f"{info['kind']}:{info['layout']}", "history": hist + [opd["name"]], "check": check},
                        f"{check}: {what} [initial {info['kind']}/{info['layout']}, history {hist + [opd['name']]}]",
                    )
                if res is None:
                    continue
                try:
                    k = canon(res)
                except Exception as exc:  # noqa
                    c.cat("uncanonicalisable_result")
                    continue
                if k not in seen:
                    seen.add(k)
                    states += 1
                    nxt.append(hist + [opd["name"]])
                    if len(c.samples) < 2 and level + 1 == depth:
                        c.sample({"initial": f"{info['kind']}:{info['layout']}", "history": hist + [opd["name"]],
                                  "result_dims": list(res.dims), "class": type(res).__name__})
        cur = nxt
        level += 1
    c.extra = {"states": states, "transitions": transitions, "traces_validated_against_impl": transitions,
               "bfs_max_depth": depth, "frontier_left_unexpanded_at_depth_bound": len(cur)}
    c.case({"unit": unit["name"], "states": states, "transitions": transitions})
    r = c.result()
    r["distinct_nontrivial"] = states
    import shutil

    shutil.rmtree(SCRATCH, ignore_errors=True)
    return r


def units(tier):
    depth = 2 if tier == "quick" else 3
    nshards = 8
    us = []
    for kind in ("1d", "2d"):
        for layout in ("scalar", "time", "time_lat", "flat", "time_T"):
            for sh in range(nshards if layout != "time_T" else max(2, nshards // 2)):
                us.append({"name": f"bfs:{kind}:{layout}:shard{sh}", "kind": kind, "layout": layout, "depth": depth,
                           "shard": sh, "nshards": nshards if layout != "time_T" else max(2, nshards // 2),
                           "cost": 3 if kind == "2d" else 2})
    return us


def finalize(coverage, results, tier):
    coverage.setdefault("states", 0)
    coverage.setdefault("transitions", 0)
