"""C02  Directional integration of a 2D spectrum conserves energy and bounds the moments;
the 2D -> 1D conversion preserves the bulk parameters.

Engine E1 (product-space enumeration).  One unit = one direction grid x one layout.  The batch
axis is the directional density: every base density (unit impulse in every bin, every pair of
impulses for N <= 12, uniform, a cos^2 lobe centred on every bin, all-zero, all-NaN) with no
hole and with a zero bin / a NaN bin at EVERY position.  Every member is a 4-frequency spectrum
(one zero-energy frequency, the other rows taken from neighbouring members with different
weights) so that the bulk parameters of the 1D reduction are non-degenerate.

Oracle: an independent numpy/math reference (no library import): forward wrapped bin widths,
e = sum E dtheta over the non-NaN bins, a1..b2 = weighted sums / e, trapezoid frequency moments;
bounds on the library's own moments; parity of every bulk parameter between the 2D object and
as_frequency_spectrum(); integrate_spectral_data and the two numba quadratures against the same
sums.
"""
import math
import re
import traceback

import numpy as np

from mc.common import Collector, _space, angle_diff, close, reshape_lead

ID = "C02"
LEVEL = "exploration"
RULE = (
    "full product: direction grid (uniform N x start {0, 7.5, 350 monotone, 350 wrapped mod 360, -170}; "
    "non-uniform: alternating widths, one 100-degree bin in the middle / as the wrap bin, one 179-degree bin, "
    "linearly growing widths; jittered-uniform grids whose widths all round to the same whole degree: nodes moved "
    "alternately by +-0.15 deg / one node moved by 0.3 deg; integer-dtype (int64) uniform coordinates) x layout {(), (time), (time,latitude), flattened} x member, member = base density "
    "(impulse in every bin, every impulse pair for N<=12, uniform, cos^2 lobe on every bin, all-zero, all-NaN) x "
    "hole {none, zero bin at every position, NaN bin at every position}. Named restriction 'scalar_layout_subset': "
    "layout () runs, without hole, the impulse in every bin, uniform, two lobes, two pairs, all-zero, all-NaN, and "
    "impulse 0 / uniform / lobe 0 with a NaN at their maximum and a zero in the last (wrap) bin, on the first two "
    "bands only (one xarray call per member and quantity). A member is non-trivial when at least two of its four "
    "frequencies carry energy (so moments, peak and band averages are all compared); distinct = distinct "
    "(grid, base, hole) triples, counted once (in the (time) layout). Named restriction 'extra_grid_layouts': in "
    "the quick tier the jittered and integer grids run the (time) and flattened layouts only. Three grids also run "
    "the layout 'time_T' (spectral dimensions stored as (direction, frequency)). Every library result is fitted to "
    "one entry per member; a size mismatch (e.g. a conversion that drops members) is a violation. Family 'everyN:*': EVERY uniform grid size N = 8..144 (start cycling over {0,7.5,350,-170} by N % 4) with eleven "
    "members (impulse in the first / last / middle bin, lobes across the wrap, uniform, a pair on both sides of the "
    "wrap, zero and NaN holes in the first / last bin): bin widths, e, moments, bounds, integrate_spectral_data and "
    "the converted variables. Family 'dtype:*': variance density STORED as float32 / float16 / int32 / uint16 "
    "(even-integer valued members, exactly representable; NaN holes for the float types) on a uniform and a "
    "non-uniform grid, full oracle. History family (units 'history:*'): on two "
    "grids (thorough: four) x every layout, EVERY sequence of length 1..3 over the operation alphabet {read e, read "
    "a1..b2, read hm0, as_frequency_spectrum} + {multiply(full shape, inplace), multiply(per direction, inplace), "
    "fillna(1.0), spec['variance_density']=..., spec.dataset['variance_density']=..., in-place write into the "
    "object's own buffer spec.values[...] *= w} is executed on a fresh object "
    "holding six members (layout (): one member, a second one for length <= 2); every read is compared with the "
    "reference computed from the variance density the object holds at that moment, and after the last step the "
    "object is converted and e, the moments, their bounds, hm0 and the 2D->1D parity are checked against that "
    "density. Named restriction 'history_length3_quick': quick runs length 3 in the (time) layout only. A history "
    "is non-trivial when a read precedes an in-place modification (a stale cache could be observed)."
)
ASSUMPTIONS = [
    "every gap between neighbouring directions (including the wrap gap) is below 180 degrees: the library wraps "
    "bin widths into [-180,180), so a grid with a gap >= 180 degrees is treated as not covering the circle and is "
    "outside the alphabet",
    "densities are non-negative or NaN; amplitudes O(1); lattice of densities, not the continuum",
    "direction/spread of the 2D object and of the 1D reduction are compared with each other here (parity); "
    "their definitions are checked by C03",
]
REQUIRED_CATEGORIES = [
    "grid_uniform", "grid_nonuniform", "grid_start_nonzero", "grid_wrapped_coordinates",
    "member_nan_bin", "member_zero_bin", "member_impulse", "member_pair", "member_lobe",
    "cell_zero_energy", "cell_all_nan", "cell_moments_compared", "cell_on_unit_circle", "bounds_checked",
    "parity_compared", "parity_direction_compared", "layout_scalar", "layout_time", "layout_time_lat", "layout_flat",
    "integrate_spectral_data_compared", "numba_quadrature_compared", "depth_nan", "depth_finite",
    "history_executed", "history_read_then_mutate", "history_mutation_steps", "history_fillna_filled_bins",
    "grid_jittered", "grid_integer_dtype", "layout_time_T", "grid_every_N", "storage_dtype_members",
]

F = np.array([0.05, 0.1, 0.2, 0.35])
NF = len(F)
ROW_COEF = (1.0, 0.0, 2.5, 0.5)     # frequency 1 carries no energy
ROW_OFF = (0, 0, 1, 5)              # row i of member m is ROW_COEF[i] * density[(m + ROW_OFF[i]) % M]
BANDS = [None, (0.1, 0.35), (0.05, 0.1)]   # default band, edges on nodes, single-node band (m0 = 0)
DEPTHS = [np.inf, 5.0, 50.0, np.nan, 5000.0, 0.5]
LAYOUTS = ("scalar", "time", "time_lat", "flat")
# "time_T": leading dimension time, spectral dimensions stored as (direction, frequency)
LEAD_NAMES = {"scalar": (), "time": ("time",), "time_lat": ("time", "latitude"), "flat": ("linear_index",),
              "time_T": ("time",)}
TRANSPOSED_GRIDS = ("uni8@7.5", "alt12@0", "int12@0")   # grids that also run the "time_T" layout
EXTRA_LAYOUTS_QUICK = ("time", "flat")                  # named restriction 'extra_grid_layouts' (quick tier)


class ShapeMismatch(Exception):
    """a library result does not have one entry per member; reported as a violation, never a harness error."""

    def __init__(self, check, what):
        super().__init__(what)
        self.check, self.what = check, what


def fit(v, shape, check, what):
    v = np.asarray(v)
    if v.size != int(np.prod(shape)):
        raise ShapeMismatch(check, f"{what}: shape {v.shape}, expected {tuple(shape)} (one entry per member)")
    return v.reshape(shape)


def make_2d(f, d, E, depth=np.inf, flat=False, transposed=False, dtype=None):
    """as mc.common.make_2d, but the direction coordinate keeps its dtype (integer grids) and the spectral
    dimensions can be stored as (direction, frequency)."""
    from ocean_science_utilities.wavespectra.spectrum import create_2d_spectrum

    E = np.asarray(E, dtype=float)
    lead = E.shape[:-2]
    sp, dims = _space(lead)
    dep = np.broadcast_to(np.asarray(depth, dtype=float), lead).copy() if lead else float(depth)
    sdims = ("frequency", "direction")
    if transposed:
        E = np.ascontiguousarray(np.swapaxes(E, -1, -2))
        sdims = ("direction", "frequency")
    if dtype is not None:
        E = E.astype(dtype)     # storage dtype of the variance density (values are exactly representable)
    s = create_2d_spectrum(np.asarray(f, dtype=float), np.asarray(d), E, sp["time"], sp["latitude"], sp["longitude"],
                           dims=dims + sdims, depth=dep)
    return s.flatten() if flat else s
MAX_CELLS = 2_000_000   # doubles per batch array

# 'every N' family: every uniform grid size of the quantifier; storage-dtype family
EVERY_N = tuple(range(8, 145))
EVERY_N_STARTS = (0.0, 7.5, 350.0, -170.0)        # start of the grid with N bins: EVERY_N_STARTS[N % 4]
STORAGE_DTYPES = ("float32", "float16", "int32", "uint16")
DTYPE_GRIDS = ("uni12@7.5", "alt8@350w")

# history family: one object, a sequence of reads and in-place modifications (see run_history)
HISTORY_GRIDS = {"quick": ["alt8@350w", "uni12@7.5"], "thorough": ["uni36@-170", "widewrap12@0"]}
HISTORY_READS = ("e", "moments", "hm0", "as1d")
HISTORY_MUTATORS = ("mul_full", "mul_direction", "fillna", "setitem", "dataset_assign", "values_inplace")
HISTORY_OPS = HISTORY_READS + HISTORY_MUTATORS
HISTORY_MAXLEN = 3


# ---------------------------------------------------------------------------------------------
# alphabet
# ---------------------------------------------------------------------------------------------
def grids(tier):
    out = []
    ns = (8, 12, 36) + ((72, 144) if tier == "thorough" else ())
    for n in ns:
        step = 360.0 / n
        for sname, start, wrap in (("0", 0.0, False), ("7.5", 7.5, False), ("350", 350.0, False),
                                   ("350w", 350.0, True), ("-170", -170.0, False)):
            th = [start + j * step for j in range(n)]
            if wrap:
                th = [t % 360.0 for t in th]
            out.append({"name": f"uni{n}@{sname}", "theta": th, "uniform": True, "start": start, "wrapped": wrap})

    def from_widths(name, start, widths, wrap=False):
        tot = sum(widths)
        th, t = [], start
        for w in widths:
            th.append(t % 360.0 if wrap else t)
            t += w * 360.0 / tot
        out.append({"name": name, "theta": th, "uniform": False, "start": start, "wrapped": wrap})

    for n in (8, 12) + ((36,) if tier == "thorough" else ()):
        from_widths(f"alt{n}@0", 0.0, [0.5 if j % 2 == 0 else 1.5 for j in range(n)])
        rest = 260.0 / (n - 1)
        from_widths(f"widemid{n}@-170", -170.0, [100.0 if j == 2 else rest for j in range(n)])
        from_widths(f"widewrap{n}@0", 0.0, [100.0 if j == n - 1 else rest for j in range(n)])
        from_widths(f"grow{n}@7.5", 7.5, [float(j + 1) for j in range(n)])
    from_widths("alt8@350w", 350.0, [0.5 if j % 2 == 0 else 1.5 for j in range(8)], wrap=True)
    from_widths("wide179_8@0", 0.0, [179.0 if j == 3 else 181.0 / 7 for j in range(8)])

    # mildly irregular ("jittered uniform") grids: every width rounds to the same whole number of degrees
    def jitter(name, n, start, kind, wrap=False):
        step = 360.0 / n
        th = [start + j * step for j in range(n)]
        if kind == "alt":
            th = [t + (0.15 if j % 2 else -0.15) for j, t in enumerate(th)]
        else:
            th[3] += 0.3
        if wrap:
            th = [t % 360.0 for t in th]
        out.append({"name": name, "theta": th, "uniform": False, "start": start, "wrapped": wrap, "extra": "jitter"})

    jitter("jit12alt@0", 12, 0.0, "alt")
    jitter("jit8one@7.5", 8, 7.5, "one")
    if tier == "thorough":
        jitter("jit36alt@350w", 36, 350.0, "alt", wrap=True)
        jitter("jit36one@-170", 36, -170.0, "one")
        jitter("jit72alt@0", 72, 0.0, "alt")
    # integer-dtype direction coordinates (theta holds python ints -> int64 coordinate)
    for n, start, wrap in ((8, 0, False), (12, 0, False), (12, 350, True), (36, 0, False)) + (
            ((72, 0, False), (36, 350, True)) if tier == "thorough" else ()):
        step = 360 // n
        th = [start + j * step for j in range(n)]
        if wrap:
            th = [t % 360 for t in th]
        out.append({"name": f"int{n}@{start}{'w' if wrap else ''}", "theta": th, "uniform": True, "start": float(start),
                    "wrapped": wrap, "extra": "int"})
    return out


def base_densities(theta):
    """list of (label, density) over the direction bins."""
    n = len(theta)
    out = []
    for j in range(n):
        d = np.zeros(n)
        d[j] = 1.0
        out.append((("imp", j), d))
    if n <= 12:
        for i in range(n):
            for j in range(i + 1, n):
                d = np.zeros(n)
                d[i], d[j] = 1.0, 0.5
                out.append((("pair", i, j), d))
    out.append((("uni",), np.ones(n)))
    for j in range(n):
        d = np.array([max(0.0, math.cos(math.radians(theta[i] - theta[j]))) ** 2 for i in range(n)])
        out.append((("lobe", j), d))
    out.append((("zero",), np.zeros(n)))
    out.append((("nan",), np.full(n, np.nan)))
    return out


def members(theta):
    """(labels, X) with X of shape (M, N): every base with every hole."""
    n = len(theta)
    labels, rows = [], []
    for lab, d in base_densities(theta):
        labels.append(lab + ("none",))
        rows.append(d)
        for kind, val in (("z", 0.0), ("n", np.nan)):
            for p in range(n):
                x = d.copy()
                x[p] = val
                labels.append(lab + (kind, p))
                rows.append(x)
    return labels, np.array(rows)


def scalar_subset(theta, labels, X):
    """named restriction 'scalar_layout_subset' (one xarray call per member and quantity, ~0.5 s per member)."""
    n = len(theta)
    index = {lab: i for i, lab in enumerate(labels)}
    bases = [("imp", j) for j in range(n)] + [("uni",), ("lobe", 0), ("lobe", n // 3), ("zero",), ("nan",)]
    if n <= 12:
        bases += [("pair", 0, n // 2), ("pair", 1, 2)]
    sel = [index[b + ("none",)] for b in bases]
    dens = dict(base_densities(theta))
    for b in (("imp", 0), ("uni",), ("lobe", 0)):
        pmax = int(np.argmax(dens[b]))
        sel += [index[b + ("n", pmax)], index[b + ("z", n - 1)]]
    return sel


def units(tier):
    us = []
    for g in grids(tier):
        n = len(g["theta"])
        layouts = LAYOUTS
        if g.get("extra") and tier == "quick":
            layouts = EXTRA_LAYOUTS_QUICK
        if g["name"] in TRANSPOSED_GRIDS:
            layouts = tuple(layouts) + ("time_T",)
        for layout in layouts:
            cost = n * n if layout != "scalar" else 6 * n * n
            us.append({"name": f"{g['name']}:{layout}", "grid": g["name"], "layout": layout, "cost": cost})
    for r in range(8):     # every uniform N in 8..144, sharded by N % 8
        us.append({"name": f"everyN:{r}", "kind": "everyN", "residue": r, "layout": "time", "cost": 900})
    for gname in DTYPE_GRIDS:
        for dt in STORAGE_DTYPES:
            us.append({"name": f"dtype:{dt}:{gname}", "kind": "dtype", "grid": gname, "dtype": dt, "layout": "time",
                       "cost": 300})
    for gname in HISTORY_GRIDS["quick"] + (HISTORY_GRIDS["thorough"] if tier == "thorough" else []):
        for layout in LAYOUTS:
            # named restriction 'history_length3_quick': the quick tier runs the length-3 histories in the (time)
            # layout only (the other layouts run every history of length <= 2); thorough runs them in every layout
            if tier == "thorough" or layout == "time":
                for op in HISTORY_OPS:   # sharded by the first operation
                    us.append({"name": f"history:{gname}:{layout}:first={op}", "kind": "history", "grid": gname,
                               "layout": layout, "maxlen": HISTORY_MAXLEN, "first": op, "cost": 700})
            else:
                us.append({"name": f"history:{gname}:{layout}", "kind": "history", "grid": gname, "layout": layout,
                           "maxlen": 2, "first": None, "cost": 600})
    return us


# ---------------------------------------------------------------------------------------------
# reference model (no library import below this line until `observe`)
# ---------------------------------------------------------------------------------------------
def ref_widths(theta):
    n = len(theta)
    w = []
    for j in range(n):
        d = theta[(j + 1) % n] - theta[j]
        while d >= 180.0:
            d -= 360.0
        while d < -180.0:
            d += 360.0
        w.append(d)
    return np.array(w)


def ref_directional(theta, X):
    """per density: (e, A1, B1, A2, B2) un-normalised sums over the non-NaN bins."""
    w = ref_widths(theta)
    c1 = np.array([math.cos(math.radians(t)) for t in theta])
    s1 = np.array([math.sin(math.radians(t)) for t in theta])
    c2 = np.array([math.cos(2.0 * math.radians(t)) for t in theta])
    s2 = np.array([math.sin(2.0 * math.radians(t)) for t in theta])
    x0 = np.where(np.isnan(X), 0.0, X)
    return tuple((x0 * (w * k)[None, :]).sum(axis=1) for k in (np.ones(len(theta)), c1, s1, c2, s2))


def ref_cells(theta, X):
    """e (M, NF) and moments (4, M, NF) of the member spectra (NaN where e == 0)."""
    M = X.shape[0]
    e0, a1, b1, a2, b2 = ref_directional(theta, X)
    e = np.zeros((M, NF))
    mom = np.full((4, M, NF), np.nan)
    idx = np.arange(M)
    for i in range(NF):
        src = (idx + ROW_OFF[i]) % M
        e[:, i] = ROW_COEF[i] * e0[src]
        pos = e[:, i] > 0
        for q, num in enumerate((a1, b1, a2, b2)):
            mom[q, pos, i] = num[src][pos] / e0[src][pos]
    return e, mom


def band_mask(band):
    if band is None:
        return np.ones(NF, dtype=bool)
    return np.array([(f >= band[0]) and (f < band[1]) for f in F])


def trapz_band(g, mask):
    """trapezoid over the selected (contiguous) nodes; g shape (M, NF)."""
    sel = [i for i in range(NF) if mask[i]]
    tot = np.zeros(g.shape[0])
    for a, b in zip(sel[:-1], sel[1:]):
        tot = tot + 0.5 * (F[b] - F[a]) * (g[:, a] + g[:, b])
    return tot


def ref_bulk(e, mom, band):
    mask = band_mask(band)
    out = {}
    m0 = trapz_band(e, mask)
    m1 = trapz_band(e * F[None, :], mask)
    m2 = trapz_band(e * F[None, :] ** 2, mask)
    out["m0"] = m0
    with np.errstate(invalid="ignore", divide="ignore"):
        out["hm0"] = 4.0 * np.sqrt(m0)
        out["tm01"] = np.where(m1 > 0, m0 / np.where(m1 > 0, m1, 1.0), np.nan)
        out["tm02"] = np.where(m2 > 0, np.sqrt(m0 / np.where(m2 > 0, m2, 1.0)), np.nan)
    out["ratio_ok"] = m1 > 0
    em = np.where(mask[None, :], e, 0.0)
    order = np.sort(em, axis=1)
    top, second = order[:, -1], order[:, -2]
    out["peak_ok"] = (top > 0) & (top - second > 1e-9 * top)
    out["peak_index"] = np.argmax(em, axis=1)
    for q, nm in enumerate(("mean_a1", "mean_b1", "mean_a2", "mean_b2")):
        g = np.where(e > 0, np.where(e > 0, mom[q], 0.0) * e, 0.0)
        with np.errstate(invalid="ignore", divide="ignore"):
            out[nm] = np.where(m0 > 0, trapz_band(g, mask) / np.where(m0 > 0, m0, 1.0), np.nan)
    out["mean_ok"] = m0 > 0
    return out


# ---------------------------------------------------------------------------------------------
# library side
# ---------------------------------------------------------------------------------------------
BULK_FUNCS = ("m0", "hm0", "tm01", "tm02", "peak_index", "peak_frequency", "peak_period", "peak_direction",
              "peak_directional_spread", "mean_direction", "mean_directional_spread", "mean_a1", "mean_b1",
              "mean_a2", "mean_b2")
BULK_PROPS = ("significant_waveheight", "mean_period", "zero_crossing_period", "peak_wavenumber",
              "mean_direction_per_frequency", "mean_spread_per_frequency")
DIRECTION_LIKE = {"peak_direction", "mean_direction", "mean_direction_per_frequency"}


def _vals(x):
    return np.asarray(getattr(x, "values", x))


def observe(s, nbands, with_props=True):
    """every bulk quantity of a spectrum object -> {name: (dims, values)}."""
    obs = {}
    for b, band in enumerate(BANDS[:nbands]):
        args = () if band is None else band
        for fn in BULK_FUNCS:
            r = getattr(s, fn)(*args)
            obs[f"{fn}[{b}]"] = (tuple(getattr(r, "dims", ())), _vals(r))
    if with_props:
        for p in BULK_PROPS:
            try:
                r = getattr(s, p)
            except ValueError as exc:
                if p != "peak_wavenumber":
                    raise
                # peak_wavenumber is not one of the parameters C02 names; for a spectrum without leading
                # dimensions it raises (dispersion solver returns shape (1,)); only parity is demanded here
                obs[p] = (("raises",), np.array([np.nan] * max(1, s.number_of_spectra)))
                continue
            obs[p] = (tuple(getattr(r, "dims", ())), _vals(r))
        bv = s.bulk_variables()
        for v in bv.data_vars:
            obs["bulk_variables." + str(v)] = (tuple(bv[v].dims), _vals(bv[v]))
        obs["coord.depth"] = (tuple(s.depth.dims), _vals(s.depth))
        obs["dataset.depth"] = (tuple(s.dataset["depth"].dims), _vals(s.dataset["depth"]))
    return obs


def _numba_grid(fstep, dstep):
    import numba
    from numba import types

    d = numba.typed.Dict.empty(key_type=types.unicode_type, value_type=types.float64[::1])
    d["frequency_step"] = np.ascontiguousarray(fstep, dtype=float)
    d["direction_step"] = np.ascontiguousarray(dstep, dtype=float)
    return d


class Reporter:
    """caps the number of violations written per check name (all are counted)."""

    def __init__(self, c, base_key, cap=4):
        self.c, self.base, self.cap, self.n = c, base_key, cap, {}

    def __call__(self, check, what, label=None, **detail):
        k = self.n.get(check, 0)
        self.n[check] = k + 1
        what = re.sub(r"np\.(?:float64|int64|bool_?)\(([^()]*)\)", r"\1", what)
        if k < self.cap:
            key = dict(self.base, check=check)
            if label is not None:
                key["member"] = list(label)
            self.c.violation(key, f"{check}: {what}", **detail)
        else:
            self.c.violations_total += 1


def run_unit(unit):
    if unit.get("kind") == "history":
        return run_history(unit)
    if unit.get("kind") in ("everyN", "dtype"):
        return run_small(unit)
    tier = unit["tier"]
    g = next(x for x in grids(tier) if x["name"] == unit["grid"])
    layout = unit["layout"]
    theta = list(g["theta"])
    n = len(theta)
    c = Collector()
    rep = Reporter(c, {"grid": g["name"], "layout": layout})
    labels, X = members(theta)
    M = X.shape[0]
    e_ref, mom_ref = ref_cells(theta, X)
    bulk_ref = [ref_bulk(e_ref, mom_ref, band) for band in BANDS]
    w_ref = ref_widths(theta)
    assert np.all(w_ref > 0) and abs(w_ref.sum() - 360.0) < 1e-9, "alphabet: grid must cover the circle"

    c.cat("grid_uniform" if g["uniform"] else "grid_nonuniform")
    c.cat("grid_start_nonzero", int(g["start"] != 0.0))
    c.cat("grid_wrapped_coordinates", int(g["wrapped"]))
    c.cat("grid_jittered", int(g.get("extra") == "jitter"))
    c.cat("grid_integer_dtype", int(g.get("extra") == "int"))
    c.cat("layout_" + layout)

    if layout == "scalar":
        sel = scalar_subset(theta, labels, X)
        chunks = [[m] for m in sel]
    else:
        size = max(12, (MAX_CELLS // (NF * n)) // 12 * 12)
        chunks = [list(range(a, min(M, a + size))) for a in range(0, M, size)]

    first = True
    for chunk in chunks:
        idx = np.array(chunk)
        E = np.stack([ROW_COEF[i] * X[(idx + ROW_OFF[i]) % M] for i in range(NF)], axis=1)  # (c, NF, N)
        dep = np.array([DEPTHS[m % len(DEPTHS)] for m in chunk])
        if layout == "scalar":
            Ein, depin = E[0], dep[0]
        else:
            Ein = E if layout == "time_T" else reshape_lead(E, layout, (NF, n))
            depin = dep.reshape(Ein.shape[:-2])
        try:
            check_chunk(c, rep, g, layout, theta, w_ref, labels, chunk, E, Ein, depin, dep, e_ref, mom_ref,
                        bulk_ref, first)
        except ShapeMismatch as exc:
            rep(exc.check, exc.what, labels[chunk[0]])
        except Exception as exc:  # library raised inside the property's domain
            tb = traceback.format_exc()
            if traceback.extract_tb(exc.__traceback__)[-1].filename.startswith("/verif/"):
                raise  # harness error, not a library exception
            rep("raises", f"{type(exc).__name__}: {exc}", labels[chunk[0]], traceback=tb[-1500:])
        first = False

    c.case({"grid": g["name"], "layout": layout, "M": M, "theta0": theta[0], "thetaN": theta[-1]})
    r = c.result()
    if layout != "time":
        r["distinct_nontrivial"] = 0   # the same (grid, base, hole) triples; counted by the (time) unit
    return r


def check_chunk(c, rep, g, layout, theta, w_ref, labels, chunk, E, Ein, depin, dep, e_ref, mom_ref, bulk_ref, first,
                light=False, dtype=None):
    from ocean_science_utilities.wavespectra.operations import (
        integrate_spectral_data,
        numba_directionally_integrate_spectral_data,
        numba_integrate_spectral_data,
    )
    from ocean_science_utilities.wavespectra.spectrum import FrequencySpectrum

    n = len(theta)
    nc = len(chunk)
    lead_names = LEAD_NAMES[layout]
    s2 = make_2d(F, np.array(theta), Ein, depth=depin, flat=(layout == "flat"), transposed=(layout == "time_T"),
                 dtype=dtype)
    c.evaluations += nc
    idx = np.array(chunk)
    lab = lambda i: labels[chunk[i]]  # noqa: E731

    def flat(v, trailing=(), check="result shape", what="library result"):
        return fit(v, (nc,) + tuple(trailing), check, what)

    # ---- bin widths --------------------------------------------------------------------------
    if first:
        ds = s2.direction_step
        w = _vals(ds)
        if tuple(ds.dims) != ("direction",) or w.shape != (n,):
            rep("direction_step dims", f"dims {ds.dims} shape {w.shape}")
        else:
            if not abs(float(np.sum(w)) - 360.0) <= 360e-12:
                rep("direction_step sum", f"bin widths sum to {float(np.sum(w))!r}, not 360", widths=w.tolist())
            bad = ~close(w, w_ref, rtol=1e-12, atol=1e-11)
            for j in np.nonzero(bad)[0][:3]:
                rep("direction_step value", f"bin {int(j)} at {theta[j]}: width {w[j]!r}, forward wrapped difference "
                    f"is {w_ref[j]!r}", bin=int(j))
            if not np.array_equal(_vals(ds["direction"]), np.array(theta)):
                rep("direction_step coordinate", "direction coordinate of direction_step differs from the grid")

    # ---- e, a1, b1, a2, b2 ---------------------------------------------------------------------
    eref = e_ref[idx]                       # (nc, NF)
    mref = mom_ref[:, idx, :]               # (4, nc, NF)
    e_da = s2.e
    if tuple(e_da.dims) != lead_names + ("frequency",):
        rep("e dims", f"e has dims {e_da.dims}, expected {lead_names + ('frequency',)}")
        return
    e_lib = flat(_vals(e_da), (NF,), "e shape", "e")
    bad = ~close(e_lib, eref, rtol=1e-12, atol=0.0)
    for i, fi in zip(*np.nonzero(bad)):
        rep("e", f"e(f{fi})={e_lib[i, fi]!r}, sum E dtheta over non-NaN bins = {eref[i, fi]!r}", lab(i), f=int(fi),
            density=E[i, fi].tolist(), theta=theta)
        if rep.n["e"] > 50:
            break
    pos = eref > 0
    moms = {}
    for q, nm in enumerate(("a1", "b1", "a2", "b2")):
        da = getattr(s2, nm)
        if tuple(da.dims) != lead_names + ("frequency",):
            rep(nm + " dims", f"{nm} has dims {da.dims}")
            return
        v = flat(_vals(da), (NF,), nm + " shape", nm)
        moms[nm] = v
        with np.errstate(invalid="ignore"):
            bad = pos & ~(np.abs(v - mref[q]) <= 1e-12)
        for i, fi in zip(*np.nonzero(bad)):
            rep(nm, f"{nm}(f{fi})={v[i, fi]!r}, definition gives {mref[q][i, fi]!r}", lab(i), f=int(fi),
                density=E[i, fi].tolist(), theta=theta)
            if rep.n[nm] > 50:
                break
        with np.errstate(invalid="ignore"):
            bad = pos & ~(np.abs(v) <= 1.0 + 1e-12)
        for i, fi in zip(*np.nonzero(bad)):
            rep(nm + " bound", f"|{nm}|={abs(v[i, fi])!r} > 1 for a non-negative density", lab(i), f=int(fi))
            if rep.n[nm + " bound"] > 50:
                break
    with np.errstate(invalid="ignore"):
        r2 = moms["a1"] ** 2 + moms["b1"] ** 2
        bad = pos & ~(r2 <= 1.0 + 1e-12)
    for i, fi in zip(*np.nonzero(bad)):
        rep("a1^2+b1^2 bound", f"a1^2+b1^2={r2[i, fi]!r} > 1", lab(i), f=int(fi))
        if rep.n["a1^2+b1^2 bound"] > 50:
            break
    ncell = int(np.sum(pos))
    c.cat("cell_moments_compared", ncell)
    c.cat("bounds_checked", ncell)
    c.cat("cell_zero_energy", int(np.sum(~pos)))
    with np.errstate(invalid="ignore"):
        c.cat("cell_on_unit_circle", int(np.sum(pos & (mref[0] ** 2 + mref[1] ** 2 >= 1 - 1e-12))))
    c.cat("cell_all_nan", int(np.sum(np.all(np.isnan(E), axis=2))))
    c.cat("depth_nan", int(np.sum(np.isnan(dep))))
    c.cat("depth_finite", int(np.sum(np.isfinite(dep))))
    for i in range(nc):
        l = lab(i)
        if layout == "time":
            if np.sum(pos[i]) >= 2:
                c.nontriv((g["name"],) + tuple(l))
    kinds = [labels[m] for m in chunk]
    c.cat("member_nan_bin", sum(1 for l in kinds if l[-2] == "n"))
    c.cat("member_zero_bin", sum(1 for l in kinds if l[-2] == "z"))
    c.cat("member_impulse", sum(1 for l in kinds if l[0] == "imp"))
    c.cat("member_pair", sum(1 for l in kinds if l[0] == "pair"))
    c.cat("member_lobe", sum(1 for l in kinds if l[0] == "lobe"))

    # ---- integrate_spectral_data ------------------------------------------------------------------
    vd = s2.variance_density
    E0 = np.where(np.isnan(E), 0.0, E)
    tf = np.zeros((nc, n))
    for a in range(NF - 1):
        tf = tf + 0.5 * (F[a + 1] - F[a]) * (E0[:, a, :] + E0[:, a + 1, :])
    both = (tf * w_ref[None, :]).sum(axis=1)
    for dims, ref, trailing, names in (
        ("direction", eref, (NF,), lead_names + ("frequency",)),
        (["direction"], eref, (NF,), lead_names + ("frequency",)),
        ("frequency", tf, (n,), lead_names + ("direction",)),
        (["frequency", "direction"], both, (), lead_names),
        (["direction", "frequency"], both, (), lead_names),
    ):
        r = integrate_spectral_data(vd, dims)
        if tuple(r.dims) != names:
            rep("integrate_spectral_data dims", f"dims={dims}: result dims {r.dims}, expected {names}")
            continue
        v = flat(_vals(r), trailing, "integrate_spectral_data shape", f"integrate_spectral_data dims={dims}")
        bad = ~close(v, ref, rtol=1e-12, atol=0.0)
        if bad.ndim > 1:
            bad = bad.any(axis=tuple(range(1, bad.ndim)))
        for i in np.nonzero(bad)[0][:3]:
            rep("integrate_spectral_data", f"dims={dims}: {np.ravel(v[i])[:6].tolist()} vs reference "
                f"{np.ravel(ref[i])[:6].tolist()}", lab(i), dims=str(dims))
        c.cat("integrate_spectral_data_compared", nc)

    # ---- numba quadratures (NaN-free members; the functions do not skip NaN) ----------------------------
    if layout == "scalar":
        if not np.isnan(E[0]).any():
            fstep = _vals(s2.frequency_step)
            grid = _numba_grid(fstep, _vals(s2.direction_step))
            r1 = np.asarray(numba_directionally_integrate_spectral_data(np.ascontiguousarray(E[0]), grid))
            if r1.shape != (NF,) or not np.all(close(r1, eref[0], rtol=1e-10)):
                rep("numba_directionally_integrate_spectral_data", f"{r1.tolist()} vs {eref[0].tolist()}", lab(0))
            r2_ = float(numba_integrate_spectral_data(np.ascontiguousarray(E[0]), grid))
            want = float(np.sum(eref[0] * fstep))
            if not close(r2_, want, rtol=1e-10):
                rep("numba_integrate_spectral_data", f"{r2_!r} vs sum e(f) df = {want!r}", lab(0))
            c.cat("numba_quadrature_compared")

    # ---- 2D -> 1D --------------------------------------------------------------------------------------
    s1 = s2.as_frequency_spectrum()
    if not isinstance(s1, FrequencySpectrum):
        rep("as_frequency_spectrum type", f"returned {type(s1).__name__}")
        return
    for nm, ref in (("variance_density", e_lib), ("a1", moms["a1"]), ("b1", moms["b1"]), ("a2", moms["a2"]),
                    ("b2", moms["b2"])):
        da = s1.dataset[nm]
        if tuple(da.dims) != lead_names + ("frequency",):
            rep("as_frequency_spectrum dims", f"{nm} has dims {da.dims}")
            return
        v = flat(_vals(da), (NF,), "conversion shape", f"as_frequency_spectrum() {nm}")
        bad = ~close(v, ref, rtol=1e-12).all(axis=1)
        for i in np.nonzero(bad)[0][:3]:
            rep("as_frequency_spectrum " + nm, f"1D {nm}={v[i].tolist()} but the 2D object gives {ref[i].tolist()}",
                lab(i))
    if light:
        return      # 'every N' family: bin widths, e, moments, bounds, integrate_spectral_data, converted variables
    nbands = 2 if layout == "scalar" else len(BANDS)
    o2 = observe(s2, nbands)
    o1 = observe(s1, nbands)
    for name in o2:
        if name not in o1:
            rep("parity missing", f"{name} missing on the 1D object")
            continue
        d2, v2 = o2[name]
        d1, v1 = o1[name]
        if d1 != d2 or v1.shape != v2.shape:
            rep("parity dims", f"{name}: 2D dims {d2} shape {v2.shape}, 1D dims {d1} shape {v1.shape}")
            continue
        if v2.dtype.kind in "Mm" or v1.dtype.kind in "Mm":
            if not np.array_equal(v1, v2):
                rep("parity " + name, "time differs between the 2D object and its 1D reduction")
            continue
        if v2.size != nc * (v2.size // max(nc, 1)) or v2.size == 0:
            rep("parity shape", f"{name}: size {v2.size} for {nc} members")
            continue
        a = v2.reshape(nc, -1).astype(float)
        b = v1.reshape(nc, -1).astype(float)
        base = name.split("[")[0].split(".")[-1]
        if base in DIRECTION_LIKE:
            with np.errstate(invalid="ignore"):
                ok = (np.isnan(a) & np.isnan(b)) | (angle_diff(a, b) <= 1e-9)
            c.cat("parity_direction_compared", int(np.sum(~np.isnan(a))))
        else:
            ok = close(a, b, rtol=1e-12)
        for i in np.nonzero(~ok.all(axis=1))[0][:3]:
            rep("parity " + name, f"2D object {a[i].tolist()} vs as_frequency_spectrum() {b[i].tolist()}", lab(i),
                e=eref[i].tolist())
        c.cat("parity_compared", nc)

    # ---- carried variables against the inputs ------------------------------------------------------------
    depv = flat(o1["dataset.depth"][1], (), "conversion shape", "as_frequency_spectrum() depth")
    if not np.all(close(depv, dep, rtol=0.0)):
        rep("depth carried", f"1D depth {depv[:6].tolist()} vs input {dep[:6].tolist()}")
    if not np.all(close(flat(o1["coord.depth"][1], (), "conversion shape", "depth property"), np.where(np.isnan(dep), np.inf, dep), rtol=0.0)):
        rep("depth property", "depth property of the 1D object differs from the input (NaN -> inf)")
    for p in ("time", "latitude", "longitude"):
        for getter in (lambda s: s.dataset[p], lambda s: getattr(s, p)):
            a, b = getter(s2), getter(s1)
            if tuple(a.dims) != tuple(b.dims) or _vals(a).shape != _vals(b).shape or not np.array_equal(
                    _vals(a), _vals(b)):
                rep(p + " carried", f"{p} differs between the 2D object and its 1D reduction")

    # ---- bulk parameters computed from e(f) and the moments, against the reference ---------------------------
    for b, band in enumerate(BANDS[:nbands]):
        rb = {k: v[idx] for k, v in bulk_ref[b].items()}
        for oname, o in (("2D", o2), ("1D", o1)):
            get = lambda fn: flat(o[f"{fn}[{b}]"][1], (), "bulk shape", f"{oname} {fn}").astype(float)  # noqa: E731
            for fn, okmask in (("m0", None), ("hm0", None), ("tm01", rb["ratio_ok"]), ("tm02", rb["ratio_ok"]),
                               ("mean_a1", rb["mean_ok"]), ("mean_b1", rb["mean_ok"]),
                               ("mean_a2", rb["mean_ok"]), ("mean_b2", rb["mean_ok"])):
                v = get(fn)
                atol = 1e-12 if fn.startswith("mean_") else 0.0
                ok = close(v, rb[fn], rtol=1e-12, atol=atol)
                if okmask is not None:
                    ok = ok | ~okmask
                for i in np.nonzero(~ok)[0][:3]:
                    rep(f"bulk {fn}", f"{oname} {fn}{'' if band is None else band}={v[i]!r}, reference from e(f) and "
                        f"the moments {rb[fn][i]!r}", lab(i), band=b, e=eref[i].tolist())
            pk = get("peak_index")
            pf = get("peak_frequency")
            ok = ~rb["peak_ok"] | ((pk == rb["peak_index"]) & (pf == F[rb["peak_index"]]))
            for i in np.nonzero(~ok)[0][:3]:
                rep("bulk peak", f"{oname} peak index {pk[i]!r} / frequency {pf[i]!r}, reference index "
                    f"{int(rb['peak_index'][i])}", lab(i), band=b, e=eref[i].tolist())
            c.cat("peak_tie_or_empty_classified", int(np.sum(~rb["peak_ok"])))
            c.cat("band_ratio_classified", int(np.sum(~rb["mean_ok"])))

    if first:
        c.sample({"grid": g["name"], "theta": theta, "layout": layout, "member": list(lab(0)),
                  "density_rows": E[0].tolist(), "e": e_lib[0].tolist(), "a1": moms["a1"][0].tolist(),
                  "b1": moms["b1"][0].tolist(), "e_ref": eref[0].tolist()})


# ---------------------------------------------------------------------------------------------
# history family: reads and in-place modifications on ONE object
# ---------------------------------------------------------------------------------------------
def ref_from_density(theta, E):
    """E (n, NF, N), NaN allowed -> e (n, NF), moments (4, n, NF) (NaN where e == 0), hm0 (n,).  No library."""
    n = E.shape[0]
    sums = ref_directional(theta, E.reshape(n * NF, len(theta)))
    e = sums[0].reshape(n, NF)
    mom = np.full((4, n, NF), np.nan)
    pos = e > 0
    for q in range(4):
        num = sums[q + 1].reshape(n, NF)
        mom[q][pos] = num[pos] / e[pos]
    m0 = trapz_band(e, np.ones(NF, dtype=bool))
    return e, mom, 4.0 * np.sqrt(m0)


def history_members(theta, labels):
    n = len(theta)
    index = {lab: i for i, lab in enumerate(labels)}
    wanted = [("lobe", 1, "n", 1), ("imp", 0, "none"), ("nan", "none"), ("uni", "n", n - 1), ("lobe", 0, "z", 2),
              ("zero", "n", 2)]
    return [index[w] for w in wanted]


def all_histories():
    import itertools

    out = []
    for length in range(1, HISTORY_MAXLEN + 1):
        out += [list(h) for h in itertools.product(HISTORY_OPS, repeat=length)]
    return out


def run_history(unit):
    tier = unit["tier"]
    g = next(x for x in grids(tier) if x["name"] == unit["grid"])
    layout = unit["layout"]
    theta = list(g["theta"])
    n = len(theta)
    c = Collector()
    rep = Reporter(c, {"grid": g["name"], "layout": layout, "family": "history"}, cap=3)
    c.cat("layout_" + layout)
    labels, X = members(theta)
    M = X.shape[0]
    sel = history_members(theta, labels)
    lead_names = LEAD_NAMES[layout]

    def density(ms):
        idx = np.array(ms)
        return np.stack([ROW_COEF[i] * X[(idx + ROW_OFF[i]) % M] for i in range(NF)], axis=1)

    umax = unit["maxlen"]
    if layout == "scalar":
        member_sets = [([sel[0]], umax), ([sel[2]], min(2, umax))]
    else:
        member_sets = [(sel, umax)]
    wdir = np.array([0.5 + (j % 3) for j in range(n)])
    first = True
    for ms, maxlen in member_sets:
        E0 = density(ms)
        nm = len(ms)
        for hist in all_histories():
            if len(hist) > maxlen or (unit["first"] is not None and hist[0] != unit["first"]):
                continue
            try:
                one_history(c, rep, g, layout, theta, lead_names, E0, nm, hist, wdir)
            except ShapeMismatch as exc:
                rep("history " + exc.check, f"{exc.what} in history {hist}", history=hist)
            except Exception as exc:
                if traceback.extract_tb(exc.__traceback__)[-1].filename.startswith("/verif/"):
                    raise
                rep("history raises", f"{type(exc).__name__}: {exc} in history {hist}", history=hist,
                    traceback=traceback.format_exc()[-1500:])
            c.evaluations += nm
            c.cat("history_executed")
            seen_read = False
            stale_possible = False
            for op in hist:
                if op in HISTORY_READS:
                    seen_read = True
                elif seen_read:
                    stale_possible = True
            c.cat("history_mutation_steps", sum(1 for op in hist if op in HISTORY_MUTATORS))
            if stale_possible:
                c.cat("history_read_then_mutate")
                if layout == "time":
                    c.nontriv((g["name"], "history") + tuple(hist))
        if first:
            c.sample({"family": "history", "grid": g["name"], "layout": layout, "members": [list(labels[m]) for m in ms],
                      "operations": list(HISTORY_OPS), "max_length": maxlen, "histories": len(all_histories())})
            first = False
    c.case({"family": "history", "grid": g["name"], "layout": layout, "ops": list(HISTORY_OPS), "maxlen": umax,
            "first": unit["first"]})
    r = c.result()
    if layout != "time":
        r["distinct_nontrivial"] = 0
    return r


def one_history(c, rep, g, layout, theta, lead_names, E0, nm, hist, wdir):
    n = len(theta)
    if layout == "scalar":
        s = make_2d(F, np.array(theta), E0[0].copy())
    else:
        s = make_2d(F, np.array(theta), reshape_lead(E0.copy(), layout, (NF, n)), flat=(layout == "flat"))

    def current():
        """the variance density the object holds NOW, and the reference quantities that follow from it."""
        cur = fit(np.array(_vals(s.variance_density), dtype=float), (nm, NF, n), "history shape", "variance_density")
        return (cur,) + ref_from_density(theta, cur)

    def fail(step, what, **detail):
        rep(f"history {what}", f"after {hist[:step + 1]} (step {step}: {hist[step]}): {detail.pop('msg')}",
            history=list(hist), step=step, **detail)

    def chk_e(step, v, ref_e, what="e"):
        v = fit(np.asarray(v, dtype=float), (nm, NF), "history shape", what)
        if not np.all(close(v, ref_e, rtol=1e-12)):
            i = int(np.argwhere(~close(v, ref_e, rtol=1e-12))[0][0])
            fail(step, what, msg=f"{what}={v[i].tolist()} but the current variance density gives {ref_e[i].tolist()}")
            return False
        return True

    def chk_mom(step, vals, ref_e, ref_mom, what="moments"):
        pos = ref_e > 0
        ok = True
        for q, nmq in enumerate(("a1", "b1", "a2", "b2")):
            v = fit(np.asarray(vals[q], dtype=float), (nm, NF), "history shape", what + " " + nmq)
            with np.errstate(invalid="ignore"):
                bad = pos & ~(np.abs(v - ref_mom[q]) <= 1e-12)
                badb = pos & ~(np.abs(v) <= 1.0 + 1e-12)
            if bad.any():
                i, fi = np.argwhere(bad)[0]
                fail(step, what, msg=f"{nmq}(f{fi})={v[i, fi]} but the current variance density gives "
                     f"{ref_mom[q][i, fi]}")
                ok = False
            if badb.any():
                i, fi = np.argwhere(badb)[0]
                fail(step, what + " bound", msg=f"|{nmq}(f{fi})|={abs(v[i, fi])} > 1")
                ok = False
        a1 = fit(np.asarray(vals[0], dtype=float), (nm, NF), "history shape", what)
        b1 = fit(np.asarray(vals[1], dtype=float), (nm, NF), "history shape", what)
        with np.errstate(invalid="ignore"):
            bad = pos & ~(a1 ** 2 + b1 ** 2 <= 1.0 + 1e-12)
        if bad.any():
            i, fi = np.argwhere(bad)[0]
            fail(step, what + " bound", msg=f"a1^2+b1^2={a1[i, fi] ** 2 + b1[i, fi] ** 2} > 1 at f{fi}")
            ok = False
        return ok

    def chk_1d(step, s1, ref_e, ref_mom, ref_hm0):
        ok = chk_e(step, _vals(s1.dataset["variance_density"]), ref_e, "as_frequency_spectrum variance_density")
        ok &= chk_mom(step, [_vals(s1.dataset[k]) for k in ("a1", "b1", "a2", "b2")], ref_e, ref_mom,
                      "as_frequency_spectrum moments")
        h1 = fit(np.asarray(_vals(s1.hm0()), dtype=float), (nm,), "history shape", "1D hm0")
        if not np.all(close(h1, ref_hm0, rtol=1e-12)):
            fail(step, "as_frequency_spectrum hm0", msg=f"1D Hm0 {h1.tolist()} but the 2D variance density gives "
                 f"{ref_hm0.tolist()}")
            ok = False
        return ok

    for step, op in enumerate(hist):
        if op in HISTORY_READS:
            cur, ref_e, ref_mom, ref_hm0 = current()
            if op == "e":
                chk_e(step, _vals(s.e), ref_e)
            elif op == "moments":
                chk_mom(step, [_vals(getattr(s, k)) for k in ("a1", "b1", "a2", "b2")], ref_e, ref_mom)
            elif op == "hm0":
                h = fit(np.asarray(_vals(s.hm0()), dtype=float), (nm,), "history shape", "hm0")
                if not np.all(close(h, ref_hm0, rtol=1e-12)):
                    fail(step, "hm0", msg=f"Hm0 {h.tolist()} but the current variance density gives {ref_hm0.tolist()}")
            elif op == "as1d":
                chk_1d(step, s.as_frequency_spectrum(), ref_e, ref_mom, ref_hm0)
        elif op == "mul_full":
            s.multiply(np.full(s.shape(), 3.0), inplace=True)
        elif op == "mul_direction":
            s.multiply(wdir.copy(), dimensions=["direction"], inplace=True)
        elif op == "fillna":
            c.cat("history_fillna_filled_bins", int(np.sum(np.isnan(_vals(s.variance_density)))))
            s.fillna(1.0)
        elif op == "setitem":
            da = s.dataset["variance_density"]
            s["variance_density"] = da.copy(data=2.0 * _vals(da)[..., ::-1] + 0.25)
        elif op == "dataset_assign":
            s.dataset["variance_density"] = 0.5 * s.dataset["variance_density"].roll(direction=1, roll_coords=False)
        elif op == "values_inplace":
            buf = s.values            # the object's own buffer, edited in place (no new backing array)
            buf *= 1.0 + (np.arange(n) % 2) * 1.5
        else:
            raise AssertionError(op)

    # ---- after the last step: convert, and check everything the conversion evaluated (e and the four moments as
    # the object computes them NOW, their bounds, total variance) against the density the object holds now -------
    last = len(hist) - 1
    cur, ref_e, ref_mom, ref_hm0 = current()
    s1 = s.as_frequency_spectrum()
    chk_1d(last, s1, ref_e, ref_mom, ref_hm0)
    e_da = s.e
    if tuple(e_da.dims) != lead_names + ("frequency",):
        fail(last, "e dims", msg=f"e has dims {e_da.dims}")
        return
    chk_e(last, _vals(e_da), ref_e, "final e")
    h = fit(np.asarray(_vals(s.hm0()), dtype=float), (nm,), "history shape", "hm0")
    if not np.all(close(h, ref_hm0, rtol=1e-12)):
        fail(last, "final hm0", msg=f"Hm0 {h.tolist()} but the current variance density gives {ref_hm0.tolist()}")
    if len(hist) <= 2:
        chk_mom(last, [_vals(getattr(s, k)) for k in ("a1", "b1", "a2", "b2")], ref_e, ref_mom, "final moments")
        a = fit(np.asarray(_vals(s.mean_direction()), dtype=float), (nm,), "history shape", "mean_direction")
        b = fit(np.asarray(_vals(s1.mean_direction()), dtype=float), (nm,), "history shape", "1D mean_direction")
        with np.errstate(invalid="ignore"):
            ok = (np.isnan(a) & np.isnan(b)) | (angle_diff(a, b) <= 1e-9)
        if not np.all(ok):
            fail(last, "final parity mean_direction", msg=f"2D object {a.tolist()} vs as_frequency_spectrum() "
                 f"{b.tolist()}")


# ---------------------------------------------------------------------------------------------
# small-member families: every N in 8..144, storage dtype of the variance density
# ---------------------------------------------------------------------------------------------
def small_members(theta, integer, with_nan):
    """(labels, X): a few densities that put energy in the first / last bin and across the wrap.  integer=True
    gives even whole numbers (exactly representable in float16/float32/int32/uint16, also after the row weights)."""
    n = len(theta)
    labels, rows = [], []

    def lobe(j):
        d = np.array([max(0.0, math.cos(math.radians(theta[i] - theta[j]))) ** 2 for i in range(n)])
        return 2.0 * np.round(4.0 * d) if integer else d

    def imp(j, amp):
        d = np.zeros(n)
        d[j] = amp
        return d

    a = 6.0 if integer else 1.0
    base = [(("imp", 0), imp(0, a)), (("imp", n - 1), imp(n - 1, a)), (("imp", n // 2), imp(n // 2, a)),
            (("lobe", 0), lobe(0)), (("lobe", n - 1), lobe(n - 1)), (("uni",), np.full(n, 2.0 if integer else 1.0)),
            (("pair", 0, n - 1), imp(0, 4.0 if integer else 1.0) + imp(n - 1, 2.0 if integer else 0.5))]
    for lab, d in base:
        labels.append(lab + ("none",))
        rows.append(d)
    holes = [(("lobe", 0), "z", 0), (("uni",), "z", n - 1)]
    if with_nan:
        holes += [(("imp", 0), "n", n - 1), (("lobe", 0), "n", 0), (("uni",), "n", n - 1)]
    bd = dict(base)
    for lab, kind, p in holes:
        x = bd[lab].copy()
        x[p] = 0.0 if kind == "z" else np.nan
        labels.append(lab + (kind, p))
        rows.append(x)
    return labels, np.array(rows)


def run_small(unit):
    tier, layout = unit["tier"], unit["layout"]
    c = Collector()
    c.cat("layout_" + layout)
    if unit["kind"] == "everyN":
        configs = []
        for n in EVERY_N:
            if n % 8 == unit["residue"]:
                start = EVERY_N_STARTS[n % 4]
                configs.append(({"name": f"every{n}@{start:g}", "theta": [start + j * 360.0 / n for j in range(n)]}, None))
    else:
        configs = [(next(x for x in grids(tier) if x["name"] == unit["grid"]), unit["dtype"])]
    for g, dt in configs:
        theta = list(g["theta"])
        n = len(theta)
        key = {"grid": g["name"], "layout": layout, "family": unit["kind"]}
        if dt:
            key["dtype"] = dt
        rep = Reporter(c, key)
        labels, X = small_members(theta, integer=dt is not None, with_nan=(dt is None or dt.startswith("float")))
        M = X.shape[0]
        e_ref, mom_ref = ref_cells(theta, X)
        bulk_ref = [ref_bulk(e_ref, mom_ref, band) for band in BANDS]
        w_ref = ref_widths(theta)
        assert np.all(w_ref > 0) and abs(w_ref.sum() - 360.0) < 1e-9
        chunk = list(range(M))
        idx = np.array(chunk)
        E = np.stack([ROW_COEF[i] * X[(idx + ROW_OFF[i]) % M] for i in range(NF)], axis=1)
        if dt:
            ok = ~np.isnan(E)
            assert np.all(E[ok] == np.round(E[ok])) and np.all(E[ok].astype(dt).astype(float) == E[ok]), "not representable"
            c.cat("storage_dtype_members", M)
        else:
            c.cat("grid_every_N")
        dep = np.array([DEPTHS[m % len(DEPTHS)] for m in chunk])
        try:
            check_chunk(c, rep, g, layout, theta, w_ref, labels, chunk, E, E, dep, dep, e_ref, mom_ref, bulk_ref, True,
                        light=(unit["kind"] == "everyN"), dtype=dt)
        except ShapeMismatch as exc:
            rep(exc.check, exc.what, labels[0])
        except Exception as exc:
            if traceback.extract_tb(exc.__traceback__)[-1].filename.startswith("/verif/"):
                raise
            rep("raises", f"{type(exc).__name__}: {exc}", labels[0], traceback=traceback.format_exc()[-1500:])
        c.case({"family": unit["kind"], "grid": g["name"], "dtype": dt, "M": M})
    return c.result()
