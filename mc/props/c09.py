"""C09  Joint rotation / mirror invariance of source terms, roughness, stress, dissipation-weighted
direction and estimated wind.

Engine E1.  For every base case (spectral shape class x wind x depth) on a uniform direction grid
with N in {16, 24, 36} bins the whole dihedral orbit is formed: every rotation k = 0..N-1 (np.roll of
the variance density by k bins, wind direction + k*360/N) and the mirror image (direction axis
negated, wind direction negated) of every one of them - 2N related inputs, a closed relation, not a
sample.  The 2N members are evaluated through the public classes; every output is transformed back
and compared with the output of the base case.  No reference values are needed.
"""
import math
import traceback

import numpy as np

from mc.common import Collector
from mc.props.c08 import NONDEFAULT, Pool, da, make_dissipation, make_generation, parametric

ID = "C09"
LEVEL = "exploration"
RULE = (
    "base cases = spectral shape class x wind (type, speed, direction) x depth, on uniform direction grids with "
    "N in {16,24,36} bins (thorough: also the same grids offset by half a bin); for every base case all N rotations "
    "and the mirror image of each (2N members of the dihedral orbit) are evaluated and compared with the base. "
    "Units = quantity group {wind input+roughness+stress, ST4 / ST6 / Romero dissipation, wind estimate with "
    "st4/st4 and st4/st6 balance} x grid. Two further families with the same closure: marginally breaking seas "
    "(narrow JONSWAP, 2 mean directions x 40 values of Hs^2 from 0.95 to 1.45 times the onset of breaking, so that "
    "the number of bins above the saturation threshold runs through 0, 1, 2, ...; ST4 and ST6 dissipation) and the "
    "wind estimate with direction_iteration=True (the standard cases plus bimodal seas on an orientation lattice "
    "of 4 degrees spanning one bin, so that some member iterates across the 0/360 seam in either sense). A base case is non-trivial when the base output is non-zero (and for the "
    "wind estimate finite and > 0); distinct = distinct (group, grid, base case, parameter set)."
)
ASSUMPTIONS = [
    "uniform direction grids only (a rotation by whole bins maps the grid onto itself)",
    "the 2N members of one orbit are evaluated as one batch; that a batch member gets the result it would get "
    "alone is C08's subject",
    "wind input, stress: compared at a supplied roughness length (the base case's own solved roughness, or 2e-4 m "
    "when that is NaN); the solved roughness itself is compared to 2e-6 relative (two Newton solves with an "
    "absolute tolerance of 1e-6 on log z0)",
    "estimated wind, direction_iteration=False: speed within 0.02 m/s (two solves stopping on a 0.01 m/s step); a "
    "base case whose estimate is NaN is counted, not compared",
    "estimated wind, direction_iteration=True: the iteration stops when successive directions differ by < 1 degree, "
    "so direction equivariance is demanded within 2 degrees and speed invariance within 0.02 m/s + the speed change "
    "the bulk wind input itself gives for a 2-degree change of direction (measured through bulk_rate around the base "
    "estimate); NaN-ness must agree between base and image",
    "directions are compared only when the resultant that defines them exceeds 1e-6 of the sum of magnitudes",
    "Romero dissipation on strictly positive spectra only",
]
REQUIRED_CATEGORIES = [
    "rotations_compared", "mirrors_compared", "input_field_nonzero", "roughness_compared", "stress_compared",
    "stress_direction_compared", "st4_field_nonzero", "st6_field_nonzero", "romero_field_nonzero",
    "dissipation_direction_compared", "estimate_speed_compared", "estimate_direction_compared", "N16", "N24", "N36",
    "ustar_input", "finite_depth",
    "marginal_exactly_one_direction_above_threshold", "marginal_bins_above_threshold_0", "marginal_field_nonzero",
    "diriter_compared", "diriter_speed_compared", "diriter_direction_compared", "diriter_direction_moved",
    "diriter_seam_crossed_upwards", "diriter_seam_crossed_downwards",
]

FREQ = 0.05 * 1.25 ** np.arange(12)
GRID_N = [16, 24, 36]

WINDS = {
    "quick": [("u10", 10.0, 50.0), ("friction_velocity", 0.5, 205.0)],
    "thorough": [("u10", 5.0, 50.0), ("u10", 10.0, 143.0), ("u10", 20.0, 205.0), ("u10", 40.0, 333.0),
                 ("friction_velocity", 0.5, 205.0), ("ustar", 1.5, 77.0)],
}
DEPTHS = {"quick": [np.inf, 20.0], "thorough": [np.inf, 20.0, 5.0]}
GROUPS = ["gen", "st4", "st6", "romero", "inv_st4", "inv_st6"]
COST = {"gen": 40, "st4": 80, "st6": 45, "romero": 45, "inv_st4": 100, "inv_st6": 90}


def grid_for(N, half):
    delta = 360.0 / N
    return {"f": FREQ, "d": (0.5 * delta if half else 0.0) + delta * np.arange(N)}


def base_spectra(grid, tier, inversion=False):
    """one representative per spectral shape class; mean directions are off the bins and the mixtures are
    asymmetric, so that neither a rotation nor the mirror maps a base spectrum onto itself."""
    f, d = grid["f"], grid["d"]
    nf, N = len(f), len(d)
    i, j = np.meshgrid(np.arange(nf), np.arange(N), indexing="ij")
    out = [
        ("jonswap_narrow", parametric(grid, "jonswap", 2.0, 0.15, 37.0, 15.0)),
        ("pm_broad", parametric(grid, "pm", 3.0, 0.12, 203.0, 40.0)),
        ("mix", parametric(grid, "jonswap", 2.0, 0.08, 118.0, 15.0) + parametric(grid, "pm", 1.5, 0.3, 251.0, 40.0)),
        ("mod5", 0.02 * ((7 * i + 3 * j) % 5) / 4.0),
        ("bins", np.where((i == 2) & (j == 1), 0.3, 0.0) + np.where((i == 6) & (j == N // 3), 0.05, 0.0)
         + np.where((i == nf - 1) & (j == N - 2), 0.02, 0.0)),
        ("steep_sea", parametric(grid, "jonswap", 5.0, 0.3, 307.0, 40.0)),
    ]
    if tier == "thorough":
        out += [
            ("jonswap_low", parametric(grid, "jonswap", 0.5, 0.3, 71.0, 15.0)),
            ("pm_swell", parametric(grid, "pm", 2.0, 0.08, 161.0, 15.0)),
            ("jonswap_young", parametric(grid, "jonswap", 2.0, 0.3, 229.0, 40.0)),
            ("cross_seas", parametric(grid, "jonswap", 3.0, 0.12, 11.0, 15.0)
             + parametric(grid, "jonswap", 2.0, 0.2, 97.0, 15.0)),
        ]
    if inversion:
        # the wind estimate is NaN for many of the extreme shapes above (counted, not compared); these
        # moderate wind seas are the cases in which it is finite
        out += [
            ("sea_js_hs1_fp0.2", parametric(grid, "jonswap", 1.0, 0.2, 37.0, 15.0)),
            ("sea_js_hs1.5_fp0.25", parametric(grid, "jonswap", 1.5, 0.25, 203.0, 40.0)),
            ("sea_pm_hs0.8_fp0.3", parametric(grid, "pm", 0.8, 0.3, 118.0, 15.0)),
            ("sea_pm_hs4_fp0.1", parametric(grid, "pm", 4.0, 0.1, 307.0, 40.0)),
        ]
        if tier == "thorough":
            out += [
                ("sea_js_hs2_fp0.2", parametric(grid, "jonswap", 2.0, 0.2, 71.0, 40.0)),
                ("sea_js_hs4_fp0.1", parametric(grid, "jonswap", 4.0, 0.1, 161.0, 15.0)),
                ("sea_pm_hs2_fp0.15", parametric(grid, "pm", 2.0, 0.15, 229.0, 15.0)),
                ("sea_pm_hs1_fp0.3", parametric(grid, "pm", 1.0, 0.3, 11.0, 40.0)),
            ]
    return out


def mirror_perm(d):
    """p with d[p[j]] == -d[j] (mod 360)."""
    d = np.asarray(d, dtype=float)
    p = np.empty(len(d), dtype=int)
    for j in range(len(d)):
        diff = np.abs(((d + d[j]) + 180.0) % 360.0 - 180.0)
        p[j] = int(np.argmin(diff))
        assert diff[p[j]] < 1e-9, "grid is not mirror symmetric"
    assert np.array_equal(p[p], np.arange(len(d)))
    return p


class Orbit:
    """the 2N related inputs of one base case and the inverse transforms of their outputs."""

    def __init__(self, d):
        self.d = np.asarray(d, dtype=float)
        self.N = len(self.d)
        self.delta = 360.0 / self.N
        self.p = mirror_perm(self.d)
        self.members = [("rotation", k) for k in range(self.N)] + [("mirror", k) for k in range(self.N)]

    def spectra(self, E):
        out = []
        for rel, k in self.members:
            X = E if rel == "rotation" else E[:, self.p]
            out.append(np.roll(X, k, axis=1))
        return np.stack(out)

    def angles(self, a):
        return [((a if rel == "rotation" else -a) + k * self.delta) % 360.0 for rel, k in self.members]

    def back_field(self, F, m):
        rel, k = self.members[m]
        X = np.roll(F, -k, axis=1)
        return X if rel == "rotation" else X[:, self.p]

    def back_angle(self, a, m):
        rel, k = self.members[m]
        a = a - k * self.delta
        return (a if rel == "rotation" else -a) % 360.0


def adiff(a, b):
    d = (a - b) % 360.0
    return min(d, 360.0 - d)


class Agg:
    """one violation per failing class (term, grid, relation+quantity, parameter set); the base cases and the
    worst member go into the detail."""

    def __init__(self):
        self.items = {}

    def add(self, key, what, case, size, **detail):
        k = tuple(sorted(key.items()))
        it = self.items.setdefault(k, {"key": key, "what": what, "count": 0, "cases": [], "worst": -1.0, "detail": {}})
        it["count"] += 1
        if case not in it["cases"] and len(it["cases"]) < 12:
            it["cases"].append(case)
        if not size <= it["worst"]:  # NaN sizes win
            it["worst"] = size
            it["detail"] = dict(detail, case=case)

    def flush(self, c):
        for it in self.items.values():
            c.violation(it["key"], it["what"], failing_members=it["count"], base_cases=it["cases"],
                        worst=it["worst"], **it["detail"])
            c.violations_total += it["count"] - 1


def units(tier):
    us = []
    for N in GRID_N:
        for half in ([False] if tier == "quick" else [False, True]):
            for g in GROUPS:
                us.append({"name": f"{g}:N{N}{'h' if half else ''}", "group": g, "N": N, "half": half,
                           "cost": COST[g] + N // 4})
    return us


# ----------------------------------------------------------------------------------------
class Ctx:
    def __init__(self, unit):
        self.unit = unit
        self.c = Collector()
        self.agg = Agg()
        self.tier = unit["tier"]
        self.N = unit["N"]
        self.grid = grid_for(self.N, unit["half"])
        self.orbit = Orbit(self.grid["d"])
        self.pool = Pool(self.grid["f"], self.grid["d"])
        self.c.cat(f"N{self.N}")

    def key(self, term, check, pset, **extra):
        k = {"term": term, "N": self.N, "half_bin_offset": bool(self.unit["half"]), "check": check, "params": pset}
        k.update(extra)
        return k

    def call(self, key, case, fn, *a, **kw):
        try:
            return fn(*a, **kw)
        except Exception as exc:  # noqa
            self.agg.add(dict(key, check="raises"), f"{getattr(fn, '__name__', fn)} raised on a member of the orbit",
                         case, float("inf"), exception=f"{type(exc).__name__}: {exc}",
                         traceback=traceback.format_exc()[-1200:])
            return None

    def count_relations(self):
        self.c.cat("rotations_compared", self.N - 1)
        self.c.cat("mirrors_compared", self.N)

    # ---- comparisons over the orbit --------------------------------------------------------
    def cmp_field(self, kf, case, F, rtol=1e-10):
        """F: (2N, nf, N) outputs of the members; every one, transformed back, must equal F[0]."""
        base = F[0]
        scale = float(np.max(np.abs(base)))
        if not np.all(np.isfinite(base)):
            self.agg.add(kf("base_finite"), "base field is not finite", case, float("inf"))
            return False
        for m in range(1, 2 * self.N):
            rel, k = self.orbit.members[m]
            dev = float(np.max(np.abs(self.orbit.back_field(F[m], m) - base)))
            if not dev <= rtol * scale:
                self.agg.add(kf(f"{rel}_field"),
                             f"spectral field of the {rel} image is not the {rel} image of the field", case,
                             dev / scale if scale > 0 else float("inf"), member=[rel, k], max_abs_dev=dev,
                             max_abs_base=scale)
        return scale > 0

    def cmp_scalar(self, kf, case, x, name, rtol=0.0, atol=0.0):
        base = float(x[0])
        for m in range(1, 2 * self.N):
            rel, k = self.orbit.members[m]
            xm = float(x[m])
            if math.isnan(base) and math.isnan(xm):
                continue
            if math.isnan(xm) and not math.isnan(base):
                # a solver that fails for an image but not for the base case: a class of its own in the key
                self.agg.add(kf(f"{rel}_{name}_nan"), f"{name} is NaN for a {rel} image but finite for the base case",
                             case, float("inf"), member=[rel, k], base=base, image=xm)
            elif not abs(xm - base) <= atol + rtol * abs(base):
                self.agg.add(kf(f"{rel}_{name}"), f"{name} changes under {rel}", case,
                             abs(xm - base) / abs(base) if base else float("inf"), member=[rel, k], base=base, image=xm)

    def cmp_angle(self, kf, case, a, name, tol=1e-6):
        base = float(a[0])
        for m in range(1, 2 * self.N):
            rel, k = self.orbit.members[m]
            am = float(a[m])
            back = self.orbit.back_angle(am, m) if not math.isnan(am) else float("nan")
            if not adiff(back, base) <= tol:
                self.agg.add(kf(f"{rel}_{name}"), f"{name} of the {rel} image is not the {rel} image of the base {name}",
                             case, adiff(back, base) if not math.isnan(back) else float("inf"), member=[rel, k],
                             base=base, image=am, expected=self.orbit.angles(base)[m])


def wavenumber(f, depth):
    """independent dispersion solve (only used to classify the conditioning of a direction)."""
    w = 2 * np.pi * np.asarray(f, dtype=float)
    k = w * w / 9.81
    if not np.isfinite(depth):
        return k
    for _ in range(60):
        t = np.tanh(k * depth)
        fn = 9.81 * k * t - w * w
        dfn = 9.81 * t + 9.81 * k * depth * (1 - t * t)
        k = np.maximum(k - fn / dfn, 1e-12)
    return k


def direction_conditioning(field, f, d, depth, df, dth):
    """|resultant| / sum of magnitudes of the dissipation-weighted wavenumber vector."""
    k = wavenumber(f, depth)
    w = k[:, None] * np.abs(field) * df[:, None] * dth[None, :]
    tot = float(np.sum(w))
    if not tot > 0:
        return 0.0
    x = float(np.sum(w * np.cos(np.radians(d))[None, :]))
    y = float(np.sum(w * np.sin(np.radians(d))[None, :]))
    return math.hypot(x, y) / tot


SCAN = np.exp(np.linspace(-19.9, -0.1, 100))


def balance_roots(ctx, gen, E, depth, wtype, speed, wdir, rho, kappa):
    """sign changes of F(z0) = rho_a u*(z0)^2 - |tau(z0)| on a 100-point scan of the solver's interval
    (e^-20, 1) through the public stress(): 'one_root', 'no_root', 'several_roots' or 'not_evaluable'.
    stress() itself raises for some roughness lengths far from any solution (the Newton solve inside the tail
    stress); the roughness solver cannot obtain a value of F there either.  Such points are left out: the sign
    changes are counted along the evaluable points (a change across a gap counts, which can only turn a case
    into 'several_roots' or 'not_evaluable', i.e. into a case that is not compared)."""
    n = len(SCAN)
    kw = dict(wind_speed_input_type=wtype)
    tau = np.full(n, np.nan)
    try:
        sp = ctx.pool.get(np.repeat(E[None], n, axis=0), depth)
        tau = gen.stress(sp, da(sp, [speed] * n), da(sp, [wdir] * n), roughness_length=da(sp, SCAN), **kw)["stress"].values
    except Exception:  # noqa
        sp1 = ctx.pool.get(E[None], depth)
        for i, z in enumerate(SCAN):
            try:
                tau[i] = gen.stress(sp1, da(sp1, [speed]), da(sp1, [wdir]), roughness_length=da(sp1, [z]),
                                    **kw)["stress"].values[0]
            except Exception:  # noqa
                pass
    ustar = speed * kappa / np.log(10.0 / SCAN) if wtype == "u10" else np.full(n, speed)
    F = rho * ustar ** 2 - tau
    ok = np.nonzero(np.isfinite(F) & (F != 0))[0]
    if len(ok) < 10:
        return "not_evaluable"
    sign = np.sign(F[ok])
    flips = np.nonzero(sign[1:] != sign[:-1])[0]
    changes = len(flips)
    if changes == 1 and ok[flips[0] + 1] != ok[flips[0]] + 1:
        return "not_evaluable"  # the only sign change lies across a gap of non-evaluable scan points
    return {0: "no_root", 1: "one_root"}.get(changes, "several_roots")


# ----------------------------------------------------------------------------------------
def run_gen(ctx):
    c, orbit, N = ctx.c, ctx.orbit, ctx.N
    f, d = ctx.grid["f"], ctx.grid["d"]
    for pset in ("default", "nondefault"):
        gen = make_generation(pset)
        rho = float(gen._parameters["air_density"])
        kappa = float(gen._parameters["vonkarman_constant"])
        for label, E in base_spectra(ctx.grid, ctx.tier):
            Es = orbit.spectra(E)
            for depth in DEPTHS[ctx.tier]:
                for (wtype, speed, wdir) in WINDS[ctx.tier]:
                    case = f"{label}|depth{depth:g}|{wtype}:{speed:g}@{wdir:g}"
                    kw = dict(wind_speed_input_type=wtype)
                    c.case({"group": "gen", "N": N, "half": ctx.unit["half"], "case": case, "params": pset})
                    c.evaluations += 2 * N
                    ctx.count_relations()
                    sp = ctx.pool.get(Es, depth)
                    U, D = da(sp, [speed] * (2 * N)), da(sp, orbit.angles(wdir))

                    def kf(check, pset=pset):
                        return ctx.key("st4_input", check, pset)

                    nontrivial = False
                    # roughness: solved separately for every member
                    z = ctx.call(kf("x"), case, gen.roughness, U, D, sp, **kw)
                    z0 = 2e-4
                    solved = False
                    if z is not None:
                        z = z.values
                        if np.isfinite(z[0]) and z[0] > 0:
                            z0, solved = float(z[0]), True
                        else:
                            c.cat("roughness_base_nan")
                    Z = da(sp, [z0] * (2 * N))
                    # wind input and its integral at the supplied roughness
                    R = ctx.call(kf("x"), case, gen.rate, sp, U, D, roughness_length=Z, **kw)
                    if R is not None and ctx.cmp_field(kf, case, R.values):
                        c.cat("input_field_nonzero")
                        nontrivial = True
                    B = ctx.call(kf("x"), case, gen.bulk_rate, sp, U, D, roughness_length=Z, **kw)
                    if B is not None:
                        ctx.cmp_scalar(kf, case, B.values, "bulk", rtol=1e-10)
                    # stress at the supplied roughness.  stress() may legitimately fail to converge for a
                    # roughness that is not the solution; then the members are classified one by one.
                    try:
                        S = gen.stress(sp, U, D, roughness_length=Z, **kw)
                        mag, ang = S["stress"].values, S["direction"].values
                    except Exception:  # noqa
                        mag, ang = np.full(2 * N, np.nan), np.full(2 * N, np.nan)
                        ok = np.zeros(2 * N, dtype=bool)
                        wd = orbit.angles(wdir)
                        for m in range(2 * N):
                            sp1 = ctx.pool.get(Es[m][None], depth)
                            try:
                                S1 = gen.stress(sp1, da(sp1, [speed]), da(sp1, [wd[m]]),
                                                roughness_length=da(sp1, [z0]), **kw)
                                mag[m], ang[m], ok[m] = S1["stress"].values[0], S1["direction"].values[0], True
                            except Exception:  # noqa
                                pass
                        if not ok[0]:
                            c.cat("stress_not_evaluable")
                            mag = None
                        elif not np.all(ok):
                            m = int(np.argmin(ok))
                            ctx.agg.add(kf(f"{orbit.members[m][0]}_stress_raises"),
                                        "stress() raises for an image but not for the base case", case, float("inf"),
                                        member=list(orbit.members[m]))
                            mag = None
                    if wtype == "u10":
                        ustar = speed * kappa / math.log(10.0 / z0)
                    else:
                        ustar = speed
                    if solved:
                        # The roughness is defined implicitly by rho_a u*^2 = tau(z0).  It is a function of the
                        # input only where that balance has exactly one root inside the solver's bounds; an
                        # independent scan through the public stress() decides that.  Elsewhere (no root, several
                        # roots, scan not evaluable) the comparison is ill-posed: classified, not compared.
                        posed = balance_roots(ctx, gen, E, depth, wtype, speed, wdir, rho, kappa)
                        if posed == "one_root":
                            ctx.cmp_scalar(kf, case, z, "roughness", rtol=2e-6)
                            c.cat("roughness_compared")
                        else:
                            c.cat("roughness_balance_" + posed)
                    if mag is not None:
                        ctx.cmp_scalar(kf, case, mag, "stress", rtol=1e-10)
                        c.cat("stress_compared")
                        if np.isfinite(mag[0]) and mag[0] > 1e-6 * rho * ustar ** 2:
                            ctx.cmp_angle(kf, case, ang, "stress_direction")
                            c.cat("stress_direction_compared")
                            nontrivial = True
                        else:
                            c.cat("stress_direction_ill_conditioned")
                    if nontrivial:
                        c.nontriv(("gen", N, ctx.unit["half"], case, pset))
                    if wtype != "u10":
                        c.cat("ustar_input")
                    if np.isfinite(depth):
                        c.cat("finite_depth")
                    if len(c.samples) < 1 and z is not None:
                        c.sample({"case": case, "N": N, "roughness_of_the_2N_members": z, "wind_directions": orbit.angles(wdir)})


def edge_on_bin(term, pset, N):
    if term != "st4":
        return None
    width = NONDEFAULT["st4"]["saturation_integration_width_degrees"] if pset != "default" else 80
    return (width * N) % 360 == 0


def run_diss(ctx, term):
    c, orbit, N = ctx.c, ctx.orbit, ctx.N
    f, d = ctx.grid["f"], ctx.grid["d"]
    df = dth = None
    for pset in ("default", "nondefault"):
        dis = make_dissipation(term, pset)
        extra = {}
        if term == "st4":
            extra["saturation_window_edge_on_bin"] = edge_on_bin(term, pset, N)
        for label, E in base_spectra(ctx.grid, ctx.tier):
            if term == "romero":
                E = E + 1e-4 * E.max()
            Es = orbit.spectra(E)
            for depth in DEPTHS[ctx.tier]:
                case = f"{label}|depth{depth:g}"
                c.case({"group": term, "N": N, "half": ctx.unit["half"], "case": case, "params": pset})
                c.evaluations += 2 * N
                ctx.count_relations()
                sp = ctx.pool.get(Es, depth)
                if df is None:
                    df, dth = sp.frequency_step.values.copy(), sp.direction_step.values.copy()

                def kf(check, pset=pset):
                    return ctx.key(f"{term}_dissipation", check, pset, **extra)

                R = ctx.call(kf("x"), case, dis.rate, sp)
                B = ctx.call(kf("x"), case, dis.bulk_rate, sp)
                M = ctx.call(kf("x"), case, dis.mean_direction_degrees, sp)
                nonzero = False
                if R is not None:
                    nonzero = ctx.cmp_field(kf, case, R.values)
                    if nonzero:
                        c.cat(f"{term}_field_nonzero")
                        c.nontriv((term, N, ctx.unit["half"], case, pset))
                    else:
                        c.cat(f"{term}_field_zero")
                if B is not None:
                    ctx.cmp_scalar(kf, case, B.values, "bulk", rtol=1e-10)
                if M is not None and R is not None:
                    if nonzero and direction_conditioning(R.values[0], f, d, depth, df, dth) > 1e-6:
                        ctx.cmp_angle(kf, case, M.values, "direction")
                        c.cat("dissipation_direction_compared")
                    else:
                        c.cat("dissipation_direction_ill_conditioned")
                if np.isfinite(depth):
                    c.cat("finite_depth")
                if len(c.samples) < 1 and B is not None and M is not None and nonzero:
                    c.sample({"case": case, "N": N, "term": term, "bulk_of_the_2N_members": B.values,
                              "direction_of_the_2N_members": M.values})
    if term in ("st4", "st6") and df is not None:
        run_marginal(ctx, term, df, dth)


# ----------------------------------------------------------------------------------------
# marginally breaking seas: the threshold branches of the dissipation terms
# ----------------------------------------------------------------------------------------
MARGINAL_R = np.linspace(0.95, 1.45, 40)   # Hs^2 relative to the onset of breaking


def reference_saturation(E, f, d, dth, width, power):
    """band-integrated saturation of ST4 in deep water, written out (only used to place the Hs lattice around
    the onset of breaking and to classify the cases: it never decides a violation)."""
    w = 2 * np.pi * np.asarray(f)
    k = w * w / 9.81
    cg = 9.81 / (2 * w)
    Bd = E * (cg * k ** 3 / (2 * np.pi))[:, None]
    delta = (np.asarray(d)[None, :] - np.asarray(d)[:, None] + 180.0) % 360.0 - 180.0   # [i, j] = d_j - d_i
    weight = np.where(np.abs(delta) <= width * (1 + 1e-9), np.cos(np.radians(delta)) ** power, 0.0) * dth[None, :]
    return Bd @ weight.T


def run_marginal(ctx, term, df, dth):
    """narrow JONSWAP seas on an Hs lattice through the onset of breaking: the number of (frequency, direction)
    bins above the saturation threshold runs through 0, 1, 2, ...; every rotation and mirror of each."""
    c, orbit, N = ctx.c, ctx.orbit, ctx.N
    f, d = ctx.grid["f"], ctx.grid["d"]
    delta = 360.0 / N
    for pset in ("default", "nondefault"):
        dis = make_dissipation(term, pset)
        par = dis._parameters
        extra = {"family": "marginal_breaking"}
        if term == "st4":
            extra["saturation_window_edge_on_bin"] = edge_on_bin(term, pset, N)
            width, power = float(par["saturation_integration_width_degrees"]), float(par["saturation_cosine_power"])
            thr, relf = float(par["saturation_threshold"]), float(par["cumulative_breaking_max_relative_frequency"])
        else:   # st6: the threshold acts on the direction-integrated saturation
            width, power, thr, relf = 360.0, 0.0, float(par["saturation_threshold"]), 1.0
        for frac in (0.0, 0.25):
            mean = float(d[2] + frac * delta)
            shape = parametric(ctx.grid, "jonswap", 1.0, 0.2, mean, 15.0)
            B1 = reference_saturation(shape, f, d, dth, width, power)
            low = f <= relf * f[-1] * (1 + 1e-12)          # the frequencies that can act on shorter waves
            r_onset = thr / float(np.max(B1[low]))
            for ri, r in enumerate(MARGINAL_R):
                E = shape * (r * r_onset)
                above = reference_saturation(E, f, d, dth, width, power) > thr
                n_above = int(np.sum(above[low]))   # bins that can act on shorter waves through the cumulative term
                c.cat(f"marginal_bins_above_threshold_{min(n_above, 6)}{'+' if n_above >= 6 else ''}")
                if np.any(np.sum(above[low], axis=1) == 1):
                    c.cat("marginal_exactly_one_direction_above_threshold")
                case = f"marginal|mean{mean:g}|r{r:.4f}"
                c.case({"group": term, "N": N, "half": ctx.unit["half"], "case": case, "params": pset})
                c.evaluations += 2 * N
                ctx.count_relations()
                sp = ctx.pool.get(orbit.spectra(E), np.inf)

                def kf(check, pset=pset):
                    return ctx.key(f"{term}_dissipation", check, pset, **extra)

                R = ctx.call(kf("x"), case, dis.rate, sp)
                B = ctx.call(kf("x"), case, dis.bulk_rate, sp)
                M = ctx.call(kf("x"), case, dis.mean_direction_degrees, sp)
                nonzero = False
                if R is not None:
                    nonzero = ctx.cmp_field(kf, case, R.values)
                    c.cat("marginal_field_nonzero" if nonzero else "marginal_field_zero")
                    if nonzero:
                        c.nontriv((term, N, ctx.unit["half"], case, pset))
                if B is not None:
                    ctx.cmp_scalar(kf, case, B.values, "bulk", rtol=1e-10)
                if M is not None and R is not None and nonzero \
                        and direction_conditioning(R.values[0], f, d, np.inf, df, dth) > 1e-6:
                    ctx.cmp_angle(kf, case, M.values, "direction")
                    c.cat("dissipation_direction_compared")


# ----------------------------------------------------------------------------------------
# wind estimate with direction iteration
# ----------------------------------------------------------------------------------------
BIMODAL_OFFSETS = [0.0, 4.0, 8.0, 12.0, 16.0, 20.0]


def bimodal_spectra(grid, N):
    """asymmetric two-system seas (the stress direction differs from the dissipation-weighted direction by 0.1 to
    30 degrees, in both senses), each on a lattice of orientations finer than that movement and spanning one bin
    width: with all N rotations and their mirrors some member starts the iteration just below 360 degrees and
    ends above 0 (and another the other way round)."""
    out = []
    for o in [x for x in BIMODAL_OFFSETS if x < 360.0 / N]:
        out.append((f"bimodal_a+{o:g}", parametric(grid, "jonswap", 1.0, 0.3, 22.0 + o, 30.0)
                    + parametric(grid, "jonswap", 2.0, 0.15, 82.0 + o, 20.0)))
        out.append((f"bimodal_b+{o:g}", parametric(grid, "pm", 0.8, 0.3, 250.0 + o, 30.0)
                    + parametric(grid, "jonswap", 3.0, 0.12, 190.0 + o, 15.0)))
        out.append((f"bimodal_c+{o:g}", parametric(grid, "jonswap", 1.5, 0.25, 300.0 + o, 40.0)
                    + parametric(grid, "pm", 4.0, 0.1, 355.0 + o, 15.0)))
    return out


def speed_tolerance(ctx, gen, E, depth, u, a):
    """The direction iteration stops when successive directions differ by less than 1 degree, so two equivalent
    computations may stop up to 2 degrees apart.  The wind speed then differs by what the balance itself gives
    for such a change of direction: |dS/dtheta| * 2 deg / |dS/du| with S the bulk wind input (the dissipation
    does not depend on the wind), measured through the public bulk_rate around the base estimate; plus the
    0.02 m/s of the two speed solves.  None if it cannot be evaluated."""
    du = 0.1
    sp = ctx.pool.get(np.repeat(E[None], 5, axis=0), depth)
    try:
        S = gen.bulk_rate(sp, da(sp, [u, u, u, u + du, u - du]), da(sp, [a, a + 2.0, a - 2.0, a, a])).values
    except Exception:  # noqa
        return None
    slope = (S[3] - S[4]) / (2 * du)
    if not (np.all(np.isfinite(S)) and slope > 0):
        return None
    return 0.02 + max(abs(S[1] - S[0]), abs(S[2] - S[0])) / slope


def run_diriter(ctx, term, pset, bal, gen, extra, label, E, depth):
    from ocean_science_utilities.wavephysics.windestimate import estimate_u10_from_source_terms

    c, orbit, N = ctx.c, ctx.orbit, ctx.N
    case = f"{label}|depth{depth:g}"
    c.case({"group": "inv_" + term, "N": N, "half": ctx.unit["half"], "case": case, "params": pset, "diriter": True})
    c.evaluations += 2 * N
    ctx.count_relations()
    sp = ctx.pool.get(orbit.spectra(E), depth)

    def kf(check):
        return ctx.key("wind_estimate", check, pset, direction_iteration=True, **extra)

    est = ctx.call(kf("x"), case, estimate_u10_from_source_terms, sp, bal, direction_iteration=True)
    if est is None:
        return
    u, a = est["u10"].values, est["direction"].values
    if not np.isfinite(u[0]):
        # NaN-ness must agree between the base case and its images
        c.cat("diriter_base_nan")
        for m in range(1, 2 * N):
            if np.isfinite(u[m]):
                rel, k = orbit.members[m]
                ctx.agg.add(kf(f"{rel}_u10_diriter_nan"), "estimate is NaN for the base case but finite for an image",
                            case, float("inf"), member=[rel, k], image=float(u[m]))
        return
    c.cat("diriter_compared")
    if u[0] > 0:
        c.nontriv(("inv_" + term, N, ctx.unit["half"], case, pset, "diriter"))
    # where the iteration started: the estimate without iteration returns the dissipation-weighted direction
    sp1 = ctx.pool.get(E[None], depth)
    est0 = ctx.call(kf("x"), case, estimate_u10_from_source_terms, sp1, bal)
    if est0 is not None and np.isfinite(est0["direction"].values[0]) and u[0] > 0:
        a0 = float(est0["direction"].values[0])
        moved = (float(a[0]) - a0 + 180.0) % 360.0 - 180.0
        if abs(moved) > 0.5:
            c.cat("diriter_direction_moved")
        for m, start in enumerate(orbit.angles(a0)):
            end = float(a[m])
            if np.isfinite(end) and abs(moved) < 90:
                if start > 270 and end < 90:
                    c.cat("diriter_seam_crossed_upwards")
                elif start < 90 and end > 270:
                    c.cat("diriter_seam_crossed_downwards")
    tol = speed_tolerance(ctx, gen, E, depth, float(u[0]), float(a[0])) if u[0] > 0 else 0.02
    if tol is None:
        c.cat("diriter_speed_tolerance_not_evaluable")
        # NaN-ness is still demanded
        for m in range(1, 2 * N):
            if not np.isfinite(u[m]):
                rel, k = orbit.members[m]
                ctx.agg.add(kf(f"{rel}_u10_diriter_nan"), "estimate is NaN for an image but finite for the base case",
                            case, float("inf"), member=[rel, k], base=float(u[0]))
    else:
        ctx.cmp_scalar(kf, case, u, "u10_diriter", atol=tol)
        c.cat("diriter_speed_compared")
    if u[0] > 0:
        ctx.cmp_angle(kf, case, a, "u10_direction_diriter", tol=2.0)
        c.cat("diriter_direction_compared")


def run_inv(ctx, term):
    from ocean_science_utilities.wavephysics.balance.balance import SourceTermBalance
    from ocean_science_utilities.wavephysics.windestimate import estimate_u10_from_source_terms

    c, orbit, N = ctx.c, ctx.orbit, ctx.N
    f, d = ctx.grid["f"], ctx.grid["d"]
    df = dth = None
    psets = ["default"] if ctx.tier == "quick" else ["default", "nondefault"]
    for pset in psets:
        gen, dis = make_generation(pset), make_dissipation(term, pset)
        bal = SourceTermBalance(gen, dis)
        extra = {"dissipation": term}
        if term == "st4":
            extra["saturation_window_edge_on_bin"] = edge_on_bin(term, pset, N)
        for label, E in base_spectra(ctx.grid, ctx.tier, inversion=True):
            Es = orbit.spectra(E)
            for depth in DEPTHS[ctx.tier]:
                case = f"{label}|depth{depth:g}"
                c.case({"group": "inv_" + term, "N": N, "half": ctx.unit["half"], "case": case, "params": pset})
                c.evaluations += 2 * N
                ctx.count_relations()
                sp = ctx.pool.get(Es, depth)
                if df is None:
                    df, dth = sp.frequency_step.values.copy(), sp.direction_step.values.copy()

                def kf(check, pset=pset):
                    return ctx.key("wind_estimate", check, pset, **extra)

                est = ctx.call(kf("x"), case, estimate_u10_from_source_terms, sp, bal)
                if est is None:
                    continue
                u, a = est["u10"].values, est["direction"].values
                if not np.isfinite(u[0]):
                    c.cat("estimate_base_nan")
                    continue
                ctx.cmp_scalar(kf, case, u, "u10", atol=0.02)
                c.cat("estimate_speed_compared")
                if u[0] > 0:
                    c.nontriv(("inv_" + term, N, ctx.unit["half"], case, pset))
                else:
                    c.cat("estimate_base_zero")
                # the direction is the dissipation-weighted direction: classify its conditioning on the base field
                sp1 = ctx.pool.get(E[None], depth)
                R = ctx.call(kf("x"), case, dis.rate, sp1)
                if R is not None and np.any(R.values[0] != 0) and \
                        direction_conditioning(R.values[0], f, d, depth, df, dth) > 1e-6:
                    ctx.cmp_angle(kf, case, a, "u10_direction")
                    c.cat("estimate_direction_compared")
                else:
                    c.cat("estimate_direction_ill_conditioned")
                if np.isfinite(depth):
                    c.cat("finite_depth")
                if len(c.samples) < 1 and u[0] > 0:
                    c.sample({"case": case, "N": N, "balance": "st4/" + term, "u10_of_the_2N_members": u,
                              "direction_of_the_2N_members": a})
        # direction_iteration=True: the standard cases and the bimodal orientation lattice
        for label, E in base_spectra(ctx.grid, ctx.tier, inversion=True):
            for depth in DEPTHS[ctx.tier]:
                run_diriter(ctx, term, pset, bal, gen, extra, label, E, depth)
        for label, E in bimodal_spectra(ctx.grid, N):
            for depth in ([np.inf] if ctx.tier == "quick" else [np.inf, 20.0]):
                run_diriter(ctx, term, pset, bal, gen, extra, label, E, depth)


def run_unit(unit):
    import time

    t0 = time.process_time()
    ctx = Ctx(unit)
    g = unit["group"]
    if g == "gen":
        run_gen(ctx)
    elif g.startswith("inv_"):
        run_inv(ctx, g[4:])
    else:
        run_diss(ctx, g)
    ctx.agg.flush(ctx.c)
    ctx.c.extra["cpu_s"] = round(time.process_time() - t0, 1)  # summed over the units in the evidence
    return ctx.c.result()
