"""C04  Peak parameters locate the maximum of e(f) inside the requested band.

Engine E1 (product-space enumeration, batched).  For every frequency grid all words over
{-1, 0, 1, 2, NaN}^nf (ties/plateaus, peak first/last, multi-peaked, all-zero, NaN bins; sparse
word sets on the large grids) are stacked along the leading dimension(s) of ONE spectrum, so
that the members of a batch peak at different bins, and every ordered band (fmin, fmax) from
{-1, 0, node, mid-point, nextafter(node, +-inf), +inf} is evaluated with the real methods
peak_index / peak_frequency / peak_period / peak_direction / peak_directional_spread.  The peak
wavenumber is evaluated on the product words x depths {NaN, inf, 1000, 10, 0.5} (depths mixed
inside one batch).

Reference model (no library import): a Python loop returning the first in-band index with the
maximal non-missing value; 1/f; atan2 / spread formulas (math) of the per-frequency moments at
that index; dispersion residual with numpy.  Bands that are empty or hold only missing values
have no defined peak and are not compared.

History family (units 'history:*'): ONE spectrum object per history, every sequence of length <= 3
over {read the five peak functions on two bands, read peak_wavenumber} U {in-place modifications:
multiply(full array, inplace), multiply(array, dimensions=[frequency] / [direction], inplace) with a
factor that moves the maximum, fillna(value), item assignment of variance_density, direct dataset
assignment, in-place edit of the numpy buffer}; after every read (and once more after the last step) the values must describe the
variance density the object holds NOW.
"""
import itertools
import math
import traceback

import numpy as np

from mc.common import Collector, angle_diff, make_1d, make_2d, reshape_lead

ID = "C04"
LEVEL = "exploration"
RULE = (
    "full product grid x kind{1d with per-frequency a1/b1 lattice, 2d with frequency-dependent directional shape} x "
    "layout{(),(time),(time,latitude),flattened} x word x band x {peak_index, peak_frequency, peak_period, peak_direction, "
    "peak_directional_spread}; words = all {-1,0,1,2,NaN}^nf for nf<=5, {0,1,2,NaN}^6, sparse impulse/tie/plateau/NaN words for "
    "larger grids; bands = all ordered pairs of {-1,0,nodes,mid-points,nextafter(node,+-inf),+inf}; peak_wavenumber on "
    "words x depths {NaN,inf,1000,10,0.5} (default band). Named restrictions: layout () evaluates one band per distinct "
    "in-band node set on a sparse word set; members whose default-band peak is at f=0 are left out of the wavenumber batch "
    "(relative residual undefined); the all-NaN word is kept out of the main batch (no defined peak) and is evaluated in a "
    "second batch together with all other words on the bands that cover the whole grid or all but one node, where the "
    "other members must still get their own peak. A case (grid, word, in-band node set) is non-trivial when the peak is defined and at "
    "least two in-band values are present; distinct cases are counted once (1d, time layout). "
    "History family: all operation sequences of length <= 3 (quick: length 3 only for 1d in the (time) layout, else <= 2) over "
    "2 reads and 6 (1d) / 7 (2d) in-place mutators on a fresh 6-member object (grid g5u, mixed depths; layout () uses two "
    "members), bands {default, [f1,f4)}; all factors are dyadic so that ties in e(f) stay exact; a history is non-trivial when "
    "a read precedes a modification. Depth lattice: every node f>0 as the peak (impulse word) x 237 depths with w_p^2 d/g "
    "log-spaced 1e-3..1e2 (ratio <= 1.05), mixed in one batch per (grid, kind, layout). Near-tie / scale family (units "
    "'neartie:*'): all words over {0, 1, 1+2^-20, 1-2^-23, NaN}^5 x scales {1, 2^-40, 2^-30, 2^20} x every band x batched "
    "layouts (dyadic, so every e(f) is exact); peak index / frequency / direction / spread must equal the reference and be "
    "identical for every scale; quick evaluates direction and spread on one band per distinct in-band node set and runs scales "
    "{1, 2^-40} only in the (time,latitude) and flattened layouts."
)
ASSUMPTIONS = [
    "lattice of variance densities {-1,0,1,2,NaN} per bin, not the continuum",
    "a band that is empty or whose in-band values are all missing has no defined peak: not compared (an exception there is accepted)",
    "2D: e(f) of a frequency whose directional bins are all NaN may be taken as 0 (skipna sum) or as missing; both answers are accepted",
    "independent direction / spread formulas are compared only for 1e-9 < resultant <= 0.95 (tolerance 1e-9 degrees); the relation to "
    "the library's own per-frequency arrays at the reference index is compared always (rtol 1e-12, NaN matches NaN)",
    "g = 9.81; dispersion residual tolerance 1e-3 relative as quoted by the property",
]
REQUIRED_CATEGORIES = [
    "tie_first_of_plateau", "peak_at_first_in_band_node", "peak_at_last_in_band_node", "global_max_outside_band",
    "nan_in_band", "undefined_not_compared", "batch_distinct_peaks", "finite_depth", "nan_depth", "inf_depth",
    "layout:scalar", "layout:time", "layout:time_lat", "layout:flat", "kind:1d", "kind:2d", "direction_independent_checked",
    "class:inband_all_nonpositive_band_not_at_0", "batch_with_all_nan_member",
    "history_executed", "history_read_then_mutate", "history_mutation_steps", "history_fillna_filled_bins",
    "history_peak_moved", "wavenumber_depth_lattice", "near_tie_in_band", "scaled_copies",
    "low_energy_members(max<1e-8)",
]

NAN = float("nan")
INF = float("inf")
G = 9.81
LETTERS5 = (-1.0, 0.0, 1.0, 2.0, None)
LETTERS4 = (0.0, 1.0, 2.0, None)
DEPTHS = (NAN, INF, 1000.0, 10.0, 0.5)
CLASSES = {0: "general", 1: "inband_all_nonpositive_band_not_at_0", 2: "inband_all_negative_band_at_0"}

GRIDS_QUICK = {
    "g1": [0.1],
    "g2": [0.05, 0.3],
    "g5u": [0.1, 0.2, 0.3, 0.4, 0.5],
    "g5z": [0.0, 0.05, 0.15, 0.2, 0.4],
    "g6g": [0.04 * 1.5 ** i for i in range(6)],
}
GRIDS_THOROUGH = dict(
    GRIDS_QUICK,
    g8i=[0.0, 0.01, 0.035, 0.05, 0.11, 0.12, 0.3, 1.0],
    g12g=[0.02 * 1.3 ** i for i in range(12)],
)
# directional shapes: the directional integral S = sum D*width is the same exact number for every
# shape of a set, so e(f) = word[f] * S exactly and ties between frequencies stay exact ties, while the
# largest single-direction density differs between shapes (the peak of e is not the peak of the raw density)
DIRSETS = {
    "d4": dict(dirs=[0.0, 90.0, 180.0, 270.0],
               shapes=[[4.0, 2.0, 1.0, 1.0], [0.0, 8.0, 0.0, 0.0], [1.0, 1.0, 4.0, 2.0], [3.0, 1.0, 1.0, 3.0],
                       [4.0, 2.0, NAN, 2.0]]),
    "d8n": dict(dirs=[10.0, 40.0, 100.0, 145.0, 190.0, 250.0, 310.0, 340.0],  # widths 30 60 45 45 60 60 30 30
                shapes=[[6.0, 0, 0, 0, 0, 0, 0, 0], [0, 0, 4.0, 0, 0, 0, 0, 0], [0, 0, 0, 0, 0, 3.0, 0, 0],
                        [0, 1.5, 2.0, 0, 0, 0, 0, 0], [0, 0, 0, 2.0, 1.5, 0, 0, NAN]]),
}
LAYOUTS = ("time", "time_lat", "flat")
R_LATTICE = (0.1, 0.5, 0.9, 0.0, 1.0)


def close(a, b, rtol=1e-12, atol=0.0):
    """NaN-aware closeness: NaN matches NaN, +-inf matches the same infinity, finite values within
    atol + rtol*max(|a|,|b|).  (Own helper: a finite value is never close to an infinite one.)"""
    a = np.asarray(a, dtype=float)
    b = np.asarray(b, dtype=float)
    with np.errstate(invalid="ignore"):
        fin = np.isfinite(a) & np.isfinite(b)
        ok = fin & (np.abs(np.where(fin, a, 0.0) - np.where(fin, b, 0.0)) <= atol + rtol * np.maximum(np.abs(a), np.abs(b)))
        ok |= np.isnan(a) & np.isnan(b)
        ok |= np.isinf(a) & np.isinf(b) & (np.sign(a) == np.sign(b))
    return ok


def grids(tier):
    return GRIDS_QUICK if tier == "quick" else GRIDS_THOROUGH


def kinds(tier):
    return ("1d", "2d:d4") if tier == "quick" else ("1d", "2d:d4", "2d:d8n")


# ------------------------------------------------------------------------------------------
# alphabets
# ------------------------------------------------------------------------------------------
def band_values(f):
    vals = {-1.0, 0.0, INF}
    for i, x in enumerate(f):
        vals.add(x)
        vals.add(math.nextafter(x, -INF))
        vals.add(math.nextafter(x, INF))
        if i + 1 < len(f):
            vals.add(0.5 * (x + f[i + 1]))
    return sorted(vals)


def all_bands(f):
    v = band_values(f)
    return [(a, b) for a in v for b in v]


def inband(f, fmin, fmax):
    return tuple(i for i, x in enumerate(f) if (fmin <= x and x < fmax))


def rep_bands(f, bands):
    seen, out = set(), []
    for b in bands:
        k = inband(f, *b)
        if k not in seen:
            seen.add(k)
            out.append(b)
    return out


def _dedupe(ws):
    seen, res = set(), []
    for w in ws:
        if w not in seen:
            seen.add(w)
            res.append(w)
    return res


def sparse_words(nf, nan_placements=True):
    base = [tuple([0.0] * nf), tuple([1.0] * nf), tuple([-1.0] * nf)]
    for i in range(nf):
        w = [0.0] * nf
        w[i] = 1.0
        base.append(tuple(w))
        w = [-1.0] * nf
        w[i] = 0.0
        base.append(tuple(w))
    for i in range(nf):
        for j in range(i + 1, nf):
            for a, b in ((1.0, 1.0), (1.0, 2.0), (2.0, 1.0)):
                w = [0.0] * nf
                w[i], w[j] = a, b
                base.append(tuple(w))
    out = list(base)
    if nan_placements:
        for w in base:
            for k in range(nf):
                v = list(w)
                v[k] = None
                out.append(tuple(v))
    else:
        for k in range(nf):
            v = [1.0] * nf
            v[k] = None
            out.append(tuple(v))
            v = [0.0] * nf
            v[k] = None
            out.append(tuple(v))
    out.append(tuple([None] * nf))
    return _dedupe(out)


def words_for(nf):
    if nf <= 5:
        return list(itertools.product(LETTERS5, repeat=nf))
    if nf == 6:
        return list(itertools.product(LETTERS4, repeat=nf))
    return sparse_words(nf)


def scalar_words(nf, tier, kind):
    if nf <= 2:
        return words_for(nf)
    if tier == "quick" or nf > 6:
        ws = sparse_words(nf, nan_placements=False)
        return ws if kind == "1d" else [w for w in ws if -1.0 not in w]
    return sparse_words(nf, nan_placements=(kind == "1d"))


def to_array(words):
    return np.array([[NAN if x is None else x for x in w] for w in words], dtype=float).reshape(len(words), -1)


# ------------------------------------------------------------------------------------------
# reference model (plain Python / math; nothing from the library)
# ------------------------------------------------------------------------------------------
def ref_widths(dirs):
    n = len(dirs)
    return [((dirs[(j + 1) % n] - dirs[j]) % 360.0) for j in range(n)]


def ref_dirmoments(letter, shape, dirs, widths):
    """(e, a1, b1) of one frequency of the 2D spectrum letter*shape; NaN terms skipped. e is None when
    every term is missing."""
    if letter is None:
        return None, NAN, NAN
    e = ca = sa = 0.0
    for dk, th, wk in zip(shape, dirs, widths):
        v = letter * dk
        if v != v:
            continue
        e += v * wk
        ca += v * math.cos(th * math.pi / 180.0) * wk
        sa += v * math.sin(th * math.pi / 180.0) * wk
    if e == 0.0:
        return e, NAN, NAN
    return e, ca / e, sa / e


def ref_peak(vals, idx):
    """first in-band index with the maximal non-missing value; -1 if there is none."""
    best, bi = None, -1
    for i in idx:
        v = vals[i]
        if v is None:
            continue
        if best is None or v > best:
            best, bi = v, i
    return bi


def ref_direction(a, b):
    return math.atan2(b, a) * 180.0 / math.pi


def ref_spread(a, b):
    return math.sqrt(2.0 - 2.0 * math.sqrt(a * a + b * b)) * 180.0 / math.pi


def depth_lattice(fp):
    """depths for which x = w_p^2 d / g is log-spaced from 1e-3 to 1e2 with a ratio <= 1.05 between neighbours."""
    w = 2.0 * math.pi * fp
    n = int(math.ceil(math.log(1e5) / math.log(1.05)))
    return [1e-3 * (1e5 ** (i / n)) * G / (w * w) for i in range(n + 1)]


def ref_dispersion_residual(k, w, d):
    with np.errstate(over="ignore", invalid="ignore"):
        return np.abs(np.sqrt(G * k * np.tanh(k * d)) - w) / w


# ------------------------------------------------------------------------------------------
# member construction
# ------------------------------------------------------------------------------------------
def moments_1d(n, nf, first=0):
    A = np.empty((n, nf))
    B = np.empty((n, nf))
    for m in range(n):
        mm = m + first
        for j in range(nf):
            phi = math.radians(15.0 * ((7 * j + 5 * mm) % 24))
            r = R_LATTICE[(j + 2 * mm) % 5]
            A[m, j] = r * math.cos(phi)
            B[m, j] = r * math.sin(phi)
    return A, B


class Members:
    """A batch of members (word index list) of one kind: arrays for the library, reference values."""

    def __init__(self, f, words, kind, ids=None):
        self.f, self.kind = f, kind
        self.nf = len(f)
        self.ids = list(range(len(words))) if ids is None else list(ids)
        self.words = [words[i] for i in self.ids]
        self.n = len(self.words)
        W = to_array(self.words)
        nf = self.nf
        self.refdir = np.full((self.n, nf), NAN)
        self.refspr = np.full((self.n, nf), NAN)
        if kind == "1d":
            self.E = W
            self.A1 = np.empty((self.n, nf))
            self.B1 = np.empty((self.n, nf))
            for r, i in enumerate(self.ids):
                a, b = moments_1d(1, nf, first=i)
                self.A1[r], self.B1[r] = a[0], b[0]
            self.valsA = self.valsB = [tuple(w) for w in self.words]
            mom = [[(self.A1[m, j], self.B1[m, j]) for j in range(nf)] for m in range(self.n)]
        else:
            ds = DIRSETS[kind.split(":")[1]]
            dirs, shapes = ds["dirs"], ds["shapes"]
            wd = ref_widths(dirs)
            ns = len(shapes)
            S = np.array(shapes, dtype=float)
            sel = np.array([[(j + i) % ns for j in range(nf)] for i in self.ids]).reshape(self.n, nf)
            with np.errstate(invalid="ignore"):
                self.E = W[:, :, None] * S[sel]
            cache = {}
            self.valsA, self.valsB, mom = [], [], []
            for m, w in enumerate(self.words):
                va, vb, mm = [], [], []
                for j, x in enumerate(w):
                    key = (x, int(sel[m, j]))
                    if key not in cache:
                        cache[key] = ref_dirmoments(x, shapes[key[1]], dirs, wd)
                    e, a, b = cache[key]
                    va.append(0.0 if e is None else e)  # skipna sum of an all-NaN row is 0
                    vb.append(e)                          # ... or the row is missing
                    mm.append((a, b))
                self.valsA.append(tuple(va))
                self.valsB.append(tuple(vb))
                mom.append(mm)
        for m in range(self.n):
            for j in range(nf):
                a, b = mom[m][j]
                if a != a or b != b:
                    continue
                r = math.sqrt(a * a + b * b)
                if 1e-9 < r <= 0.95:
                    self.refdir[m, j] = ref_direction(a, b)
                    self.refspr[m, j] = ref_spread(a, b)

    def build(self, layout, depth=None, rows=None):
        rows = np.arange(self.n) if rows is None else np.asarray(rows)
        E = self.E[rows]
        dep = INF if depth is None else np.asarray(depth, dtype=float)
        if layout == "scalar":
            E = E[0]
            dep = float(dep[0]) if np.ndim(dep) else dep
            extra = {} if self.kind != "1d" else dict(a1=self.A1[rows][0], b1=self.B1[rows][0])
        else:
            E = reshape_lead(E, layout, E.shape[1:])
            if np.ndim(dep):
                dep = dep.reshape(E.shape[: E.ndim - (1 if self.kind == "1d" else 2)])
            extra = {} if self.kind != "1d" else dict(
                a1=reshape_lead(self.A1[rows], layout, (self.nf,)), b1=reshape_lead(self.B1[rows], layout, (self.nf,)))
        if self.kind == "1d":
            return make_1d(self.f, E, depth=dep, flat=(layout == "flat"), **extra)
        return make_2d(self.f, DIRSETS[self.kind.split(":")[1]]["dirs"], E, depth=dep, flat=(layout == "flat"))

    def tables(self, masks):
        """per mask: reference index (both admissible readings), class id, category counters."""
        out = {}
        nf = self.nf
        for k in masks:
            PA = np.full(self.n, -1)
            PB = np.full(self.n, -1)
            CL = np.zeros(self.n, dtype=int)
            cats = {}
            for m in range(self.n):
                vb = self.valsB[m]
                pb = ref_peak(vb, k)
                PB[m] = pb
                PA[m] = ref_peak(self.valsA[m], k)
                if pb < 0:
                    continue
                inv = [vb[i] for i in k if vb[i] is not None]
                mx = max(inv)
                if mx <= 0 and k[0] > 0:
                    CL[m] = 1
                elif mx < 0 and k[0] == 0 and k[-1] < nf - 1:
                    CL[m] = 2
                if any(v != mx and abs(v - mx) <= 2e-6 * abs(mx) for v in inv):
                    cats["near_tie"] = cats.get("near_tie", 0) + 1
                if sum(1 for v in inv if v == mx) > 1:
                    cats["tie_first_of_plateau"] = cats.get("tie_first_of_plateau", 0) + 1
                if pb == k[0]:
                    cats["peak_at_first_in_band_node"] = cats.get("peak_at_first_in_band_node", 0) + 1
                if pb == k[-1]:
                    cats["peak_at_last_in_band_node"] = cats.get("peak_at_last_in_band_node", 0) + 1
                allv = [v for v in vb if v is not None]
                if max(allv) > mx:
                    cats["global_max_outside_band"] = cats.get("global_max_outside_band", 0) + 1
                if len(inv) < len(k):
                    cats["nan_in_band"] = cats.get("nan_in_band", 0) + 1
                if len(inv) >= 2:
                    cats["nontrivial"] = cats.get("nontrivial", 0) + 1
            cats["undefined_not_compared"] = int((PB < 0).sum())
            for ci, cn in CLASSES.items():
                if ci:
                    cats["class:" + cn] = int((CL == ci).sum())
            if len(set(PB[PB >= 0].tolist())) > 1:
                cats["batch_distinct_peaks"] = 1
            out[k] = (PA, PB, CL, cats)
        return out


def lead_shape(n, layout):
    if layout == "scalar":
        return ()
    if layout in ("time", "flat"):
        return (n,)
    for k in (4, 3, 2, 1):
        if n % k == 0:
            return (n // k, k)


class Agg:
    """One violation per (check, class) per unit: first failing example plus a count."""

    def __init__(self, c, base):
        self.c, self.base, self.d = c, base, {}

    def add(self, check, cls, n, what, **detail):
        k = (check, cls)
        if k in self.d:
            self.d[k][0] += n
        else:
            self.d[k] = [n, what, detail]

    def flush(self):
        for (check, cls), (n, what, detail) in self.d.items():
            self.c.violation(dict(self.base, check=check, **{"class": cls}),
                             f"{what} [{n} failing member case(s) in this unit]", failing=n, **detail)


def call(agg, name, cls_on_raise, fn, n, layout, band, dtype=float):
    try:
        r = fn()
        v = np.asarray(r.values if hasattr(r, "values") else r)
    except Exception:
        agg.add("raises:" + name, cls_on_raise, n, f"{name} raised for band {list(band)}", band=list(band),
                traceback=traceback.format_exc()[-1500:])
        return None
    if v.shape != lead_shape(n, layout):
        agg.add("shape:" + name, "general", n, f"{name} returned shape {v.shape}, expected {lead_shape(n, layout)}",
                band=list(band))
        return None
    return v.reshape(-1).astype(dtype)


def report(agg, name, bad, CL, mem, band, lib, exp):
    if not bad.any():
        return
    for ci in np.unique(CL[bad]):
        sel = bad & (CL == ci)
        m = int(np.argmax(sel))
        agg.add(name, CLASSES[int(ci)], int(sel.sum()),
                f"{name}: band={list(band)} word={mem.words[m]} e={mem.valsB[m]} lib={lib[m]!r} reference={exp[m]!r}",
                band=list(band), member=m, word=[str(x) for x in mem.words[m]], lib=float(lib[m]), reference=float(exp[m]))


def check_band(c, agg, s, mem, band, tab, layout, perfreq, rows=None, raise_class="general", only=None):
    """Evaluate the five peak functions (or the subset `only`) for one band on spectrum s (members mem[rows]);
    returns the library values by name."""
    PA, PB, CL, _ = tab
    if rows is not None:
        PA, PB, CL = PA[rows], PB[rows], CL[rows]
    n = len(PB)
    f = np.array(mem.f)
    fmin, fmax = band
    defined = PB >= 0
    cands = [PB] if np.array_equal(PA, PB) else [PA, PB]
    sub = mem if rows is None else _RowView(mem, rows)
    refdir = mem.refdir if rows is None else mem.refdir[rows]
    refspr = mem.refspr if rows is None else mem.refspr[rows]
    ar = np.arange(n)
    got = {}

    def want(name):
        return only is None or name in only

    li = call(agg, "peak_index", raise_class, lambda: s.peak_index(fmin, fmax), n, layout, band) if want("peak_index") else None
    if li is not None:
        got["peak_index"] = li
        ok = np.zeros(n, bool)
        for R in cands:
            ok |= li == R
        report(agg, "peak_index", defined & ~ok, CL, sub, band, li, PB)
        c.evaluations += int(defined.sum())
    pf = call(agg, "peak_frequency", raise_class, lambda: s.peak_frequency(fmin, fmax), n, layout, band) \
        if want("peak_frequency") else None
    if pf is not None:
        got["peak_frequency"] = pf
        ok = np.zeros(n, bool)
        for R in cands:
            ok |= pf == f[np.where(R < 0, 0, R)]
        report(agg, "peak_frequency", defined & ~ok, CL, sub, band, pf, f[np.where(PB < 0, 0, PB)])
        c.evaluations += int(defined.sum())
    pp = call(agg, "peak_period", raise_class, lambda: s.peak_period(fmin, fmax), n, layout, band) if want("peak_period") else None
    if pp is not None:
        ok = np.zeros(n, bool)
        with np.errstate(divide="ignore"):
            for R in cands:
                ok |= close(pp, 1.0 / f[np.where(R < 0, 0, R)], rtol=1e-12)
            exp = 1.0 / f[np.where(PB < 0, 0, PB)]
        report(agg, "peak_period", defined & ~ok, CL, sub, band, pp, exp)
        c.evaluations += int(defined.sum())
    for name, fn, pfarr, ref in (
        ("peak_direction", lambda: s.peak_direction(fmin, fmax), perfreq[0], refdir),
        ("peak_directional_spread", lambda: s.peak_directional_spread(fmin, fmax), perfreq[1], refspr),
    ):
        if not want(name):
            continue
        v = call(agg, name, raise_class, fn, n, layout, band)
        if v is None:
            continue
        got[name] = v
        ok = np.zeros(n, bool)
        nind = 0
        for R in cands:
            Rs = np.where(R < 0, 0, R)
            good = np.ones(n, bool)
            if pfarr is not None:
                good &= close(v, pfarr[ar, Rs], rtol=1e-12, atol=1e-12)
            ind = ref[ar, Rs]
            has = ~np.isnan(ind)
            with np.errstate(invalid="ignore"):
                d = angle_diff(v, np.where(has, ind, 0.0)) if name == "peak_direction" else np.abs(v - np.where(has, ind, 0.0))
                good &= ~has | (d <= 1e-9)
            ok |= good
            nind = max(nind, int((has & defined).sum()))
        exp = ref[ar, np.where(PB < 0, 0, PB)]
        if pfarr is not None:
            exp = np.where(np.isnan(exp), pfarr[ar, np.where(PB < 0, 0, PB)], exp)
        report(agg, name, defined & ~ok, CL, sub, band, v, exp)
        c.evaluations += int(defined.sum())
        c.cat("direction_independent_checked", nind)
    return got


class _RowView:
    def __init__(self, mem, rows):
        self.words = [mem.words[i] for i in rows]
        self.valsB = [mem.valsB[i] for i in rows]


def perfreq_arrays(agg, s, n, nf, layout):
    out = []
    for name in ("mean_direction_per_frequency", "mean_spread_per_frequency"):
        try:
            v = np.asarray(getattr(s, name).values, dtype=float)
            out.append(v.reshape(n, nf))
        except Exception:
            agg.add("raises:" + name, "general", n, f"{name} raised or has the wrong size",
                    traceback=traceback.format_exc()[-1500:])
            out.append(None)
    return out


def check_wavenumber(c, agg, mem, layout, rows, depths, PB_default, raise_class="general", PA_default=None):
    """peak_wavenumber (default band) for members rows with the given per-member depths."""
    n = len(rows)
    if n == 0:
        return
    f = np.array(mem.f)
    try:
        s = mem.build(layout, depth=depths, rows=rows)
    except Exception:
        agg.add("raises:build", raise_class, n, "spectrum construction raised", traceback=traceback.format_exc()[-1500:])
        return
    k = call(agg, "peak_wavenumber", raise_class, lambda: s.peak_wavenumber, n, layout, (0, INF))
    dd = np.where(np.isnan(depths), INF, depths)
    c.cat("nan_depth", int(np.isnan(depths).sum()))
    c.cat("inf_depth", int(np.isinf(depths).sum()))
    c.cat("finite_depth", int(np.isfinite(depths).sum()))
    if k is None:
        return
    bad = ~(np.isfinite(k) & (k > 0))
    res = ref_dispersion_residual(np.where(bad, 1.0, k), 2 * np.pi * f[PB_default[rows]], dd)
    if PA_default is not None:  # 2D: the other admissible reading of an all-NaN frequency row
        res = np.minimum(res, ref_dispersion_residual(np.where(bad, 1.0, k), 2 * np.pi * f[PA_default[rows]], dd))
    bad |= ~(res <= 1e-3)
    c.evaluations += n
    if bad.any():
        m = int(np.argmax(bad))
        agg.add("peak_wavenumber", "general", int(bad.sum()),
                f"peak_wavenumber: word={mem.words[rows[m]]} depth={depths[m]!r} f_peak={f[PB_default[rows[m]]]!r} "
                f"k={k[m]!r} residual={res[m]!r}", member=int(rows[m]), depth=float(depths[m]), k=float(k[m]))
    with np.errstate(invalid="ignore", over="ignore"):
        kd = k * dd
    c.cat("wavenumber_newton_regime_kd<5", int((kd < 5).sum()))


# ------------------------------------------------------------------------------------------
# units
# ------------------------------------------------------------------------------------------
def units(tier):
    us = []
    for g, f in grids(tier).items():
        nf = len(f)
        nb = len(band_values(f)) ** 2
        for kind in kinds(tier):
            w2 = 3.0 if kind != "1d" else 1.0
            for layout in LAYOUTS:
                us.append({"name": f"{g}:{kind}:{layout}", "grid": g, "kind": kind, "layout": layout, "cost": nb * w2})
            nw = len(scalar_words(nf, tier, kind))
            nmask = nf * (nf + 1) // 2 + 1
            nch = max(1, int(round(nw * nmask * w2 / 2500)))
            for ch in range(nch):
                us.append({"name": f"{g}:{kind}:scalar:{ch}of{nch}", "grid": g, "kind": kind, "layout": "scalar",
                           "chunk": ch, "nchunks": nch, "cost": nw * nmask * w2 / nch / 4})
    us += history_units(tier)
    us += neartie_units(tier)
    return us


def run_batched(unit):
    c = Collector()
    tier, g, kind, layout = unit["tier"], unit["grid"], unit["kind"], unit["layout"]
    f = grids(tier)[g]
    nf = len(f)
    words = words_for(nf)
    allnan = tuple([None] * nf)
    ids = [i for i, w in enumerate(words) if w != allnan]
    agg = Agg(c, {"grid": g, "kind": kind, "layout": layout})
    bands = all_bands(f)
    rbands = rep_bands(f, bands)
    masks = [inband(f, *b) for b in rbands]
    full = inband(f, 0, INF)

    # ---- main batch: every word except the all-NaN word, every band ----------------------------
    mem = Members(f, words, kind, ids)
    n = mem.n
    tabs = mem.tables(masks)
    s = mem.build(layout)
    perfreq = perfreq_arrays(agg, s, n, nf, layout)
    c.cat("layout:" + layout, n)
    c.cat("kind:" + kind[:2], n)
    for band in bands:
        k = inband(f, *band)
        check_band(c, agg, s, mem, band, tabs[k], layout, perfreq)
        for name, cnt in tabs[k][3].items():
            if name not in ("nontrivial", "near_tie"):
                c.cat(name, cnt)
        c.case({"band": [repr(band[0]), repr(band[1])], "n": n})
    if kind == "1d" and layout == "time":
        c.nontriv(n=sum(tabs[k][3].get("nontrivial", 0) for k in masks))

    # ---- peak wavenumber: words x depths, depths mixed inside the batch ---------------------------
    PAd, PBd = tabs[full][0], tabs[full][1]
    rows = [m for m in range(n) if f[PBd[m]] > 0.0 and f[PAd[m]] > 0.0]
    R = np.repeat(np.array(rows, dtype=int), len(DEPTHS))
    D = np.tile(np.array(DEPTHS), len(rows))
    check_wavenumber(c, agg, mem, layout, R, D, PBd, PA_default=PAd)

    # ---- peak wavenumber on a dense lattice in w_p^2 d / g: every node with f > 0 as the peak (impulse word) x
    # depths such that w_p^2 d / g runs from 1e-3 to 1e2 in steps of <= 5 %, all mixed inside one batch -------------
    R, D = [], []
    for j in range(nf):
        imp = tuple(1.0 if i == j else 0.0 for i in range(nf))
        if f[j] > 0.0 and imp in mem.words:
            dl = depth_lattice(f[j])
            R += [mem.words.index(imp)] * len(dl)
            D += dl
    if R:
        check_wavenumber(c, agg, mem, layout, np.array(R, dtype=int), np.array(D), PBd, PA_default=PAd)
        c.cat("wavenumber_depth_lattice", len(R))

    # ---- a batch that contains an all-NaN member: the other members still have a defined peak --------
    memn = Members(f, words, kind, None)
    tabn = memn.tables([full] + [k for k in masks if len(k) == nf - 1])
    try:
        sn = memn.build(layout)
        pfn = perfreq_arrays(agg, sn, memn.n, nf, layout)
    except Exception:
        sn = None
        agg.add("raises:build", "batch_with_all_nan_member", memn.n, "spectrum construction raised",
                traceback=traceback.format_exc()[-1500:])
    if sn is not None:
        for band in bands:
            k = inband(f, *band)
            if k in tabn:
                check_band(c, agg, sn, memn, band, tabn[k], layout, pfn,
                           raise_class="batch_with_all_nan_member" if k == full else "general")
                c.cat("batch_with_all_nan_member", memn.n)
        rows = np.array([m for m in range(memn.n) if tabn[full][1][m] >= 0 and f[tabn[full][1][m]] > 0.0
                         and tabn[full][0][m] == tabn[full][1][m]], dtype=int)
        allnan_row = [m for m in range(memn.n) if memn.words[m] == allnan]
        rows = np.concatenate([rows[: min(len(rows), 63)], np.array(allnan_row, dtype=int)])
        PBn = np.where(tabn[full][1] < 0, 0, tabn[full][1])
        try:
            if f[0] == 0.0:
                raise StopIteration  # an all-NaN member may be given index 0 (f=0): the solver then prints for w=0
            sw = memn.build(layout, depth=np.full(len(rows), 10.0), rows=rows)
            kk = call(agg, "peak_wavenumber", "batch_with_all_nan_member", lambda: sw.peak_wavenumber, len(rows), layout, (0, INF))
            if kk is not None:
                w = 2 * np.pi * np.array(f)[PBn[rows]]
                res = ref_dispersion_residual(kk, w, 10.0)
                bad = ~(res <= 1e-3)
                bad[-1] = False  # the all-NaN member itself has no defined peak
                if bad.any():
                    agg.add("peak_wavenumber", "batch_with_all_nan_member", int(bad.sum()), "peak_wavenumber residual > 1e-3")
        except StopIteration:
            pass
        except Exception:
            agg.add("raises:build", "batch_with_all_nan_member", len(rows), "spectrum construction raised",
                    traceback=traceback.format_exc()[-1500:])

    agg.flush()
    mid = n // 3
    c.sample({"grid": g, "f": f, "kind": kind, "layout": layout, "word": [str(x) for x in mem.words[mid]],
              "band": [repr(rbands[min(4, len(rbands) - 1)][0]), repr(rbands[min(4, len(rbands) - 1)][1])],
              "reference_peak_index": int(tabs[masks[min(4, len(rbands) - 1)]][1][mid])})
    return c.result()


def run_scalar(unit):
    c = Collector()
    tier, g, kind = unit["tier"], unit["grid"], unit["kind"]
    f = grids(tier)[g]
    nf = len(f)
    allw = scalar_words(nf, tier, kind)
    sel = [i for i in range(len(allw)) if i % unit["nchunks"] == unit["chunk"]]
    agg = Agg(c, {"grid": g, "kind": kind, "layout": "scalar"})
    bands = all_bands(f)
    rbands = rep_bands(f, bands)
    masks = [inband(f, *b) for b in rbands]
    full = inband(f, 0, INF)
    mem = Members(f, allw, kind, sel)
    tabs = mem.tables(masks)
    for r in range(mem.n):
        dep = DEPTHS[(sel[r]) % len(DEPTHS)]
        try:
            s = mem.build("scalar", depth=np.array([dep]), rows=[r])
        except Exception:
            agg.add("raises:build", "general", 1, "spectrum construction raised", traceback=traceback.format_exc()[-1500:])
            continue
        perfreq = perfreq_arrays(agg, s, 1, nf, "scalar")
        for band, k in zip(rbands, masks):
            if tabs[k][1][r] < 0:
                c.cat("undefined_not_compared", 1)
                continue  # no defined peak: any behaviour (including an exception) is accepted
            check_band(c, agg, s, mem, band, tabs[k], "scalar", perfreq, rows=[r])
        pb = tabs[full][1][r]
        if pb >= 0 and f[pb] > 0.0 and f[tabs[full][0][r]] > 0.0:
            check_wavenumber(c, agg, mem, "scalar", np.array([r]), np.array([dep]), tabs[full][1], raise_class="scalar_layout",
                             PA_default=tabs[full][0])
        c.cat("layout:scalar", 1)
        c.cat("kind:" + kind[:2], 1)
        c.case({"word": [str(x) for x in mem.words[r]]})
    agg.flush()
    if mem.n:
        c.sample({"grid": g, "f": f, "kind": kind, "layout": "scalar", "word": [str(x) for x in mem.words[0]],
                  "bands": len(rbands)})
    return c.result()


# ------------------------------------------------------------------------------------------
# history family: reads and in-place modifications on ONE object
# ------------------------------------------------------------------------------------------
HISTORY_GRID = "g5u"
HISTORY_READS = ("peak", "wavenumber")
HISTORY_MUTATORS = ("mul_full", "mul_frequency", "mul_direction", "fillna", "setitem", "dataset_assign", "values_inplace")
HISTORY_MAXLEN = 3
HISTORY_WORDS = [
    (1.0, 2.0, 0.0, 2.0, 0.0), (0.0, None, 2.0, 1.0, 1.0), (2.0, 2.0, None, 0.0, 1.0),
    (0.0, 0.0, 0.0, 0.0, 0.0), (None, 1.0, 1.0, 2.0, None), (-1.0, 0.0, -1.0, -1.0, 0.0),
]
HISTORY_DEPTHS = (NAN, INF, 1000.0, 10.0, 0.5, 10.0)
HISTORY_SCALAR_MEMBERS = (1, 4)
# dyadic factors: every e(f) stays an exactly representable number, ties stay ties
HISTORY_FREQ_FACTOR = (0.25, 0.5, 1.0, 2.0, 8.0)
HISTORY_DIR_FACTOR = (1.0, 2.0, 0.5, 4.0)


def history_ops(kind):
    return HISTORY_READS + tuple(m for m in HISTORY_MUTATORS if not (m == "mul_direction" and kind == "1d"))


def history_maxlen(tier, kind, layout):
    """named restriction 'history_length3_quick'."""
    if tier == "thorough" or (kind == "1d" and layout == "time"):
        return HISTORY_MAXLEN
    return 2


def histories(kind, maxlen, first=None):
    ops = history_ops(kind)
    out = []
    for length in range(1, maxlen + 1):
        for h in itertools.product(ops, repeat=length):
            if first is None or h[0] == first:
                out.append(list(h))
    return out


def history_units(tier):
    us = []
    for kind in ("1d", "2d:d4"):
        for layout in ("scalar",) + LAYOUTS:
            ml = history_maxlen(tier, kind, layout)
            w2 = 4.0 if kind != "1d" else 1.0
            if ml == HISTORY_MAXLEN:  # sharded by the first operation
                for op in history_ops(kind):
                    us.append({"name": f"history:{kind}:{layout}:first={op}", "family": "history", "kind": kind,
                               "layout": layout, "first": op, "maxlen": ml, "cost": 300 * w2, "grid": HISTORY_GRID})
            else:
                us.append({"name": f"history:{kind}:{layout}", "family": "history", "kind": kind, "layout": layout,
                           "first": None, "maxlen": ml, "cost": 300 * w2, "grid": HISTORY_GRID})
    return us


def ref_row_moments(row, dirs, widths):
    """(e, a1, b1) of one frequency from the directional densities the object holds; NaN terms skipped;
    e is None when every term is missing."""
    e = ca = sa = 0.0
    seen = False
    for v, th, wk in zip(row, dirs, widths):
        if v != v:
            continue
        seen = True
        e += v * wk
        ca += v * math.cos(th * math.pi / 180.0) * wk
        sa += v * math.sin(th * math.pi / 180.0) * wk
    if not seen:
        return None, NAN, NAN
    if e == 0.0:
        return e, NAN, NAN
    return e, ca / e, sa / e


def run_history(unit):
    c = Collector()
    tier, kind, layout = unit["tier"], unit["kind"], unit["layout"]
    f = grids(tier)[HISTORY_GRID]
    agg = Agg(c, {"grid": HISTORY_GRID, "kind": kind, "layout": layout, "family": "history"})
    member_sets = [[m] for m in HISTORY_SCALAR_MEMBERS] if layout == "scalar" else [list(range(len(HISTORY_WORDS)))]
    hs = histories(kind, unit["maxlen"], unit.get("first"))
    bands = [(0, INF), (f[1], f[4])]
    for ms in member_sets:
        mem = Members(f, HISTORY_WORDS, kind, ms)
        dep = np.array([HISTORY_DEPTHS[m] for m in ms])
        for hist in hs:
            try:
                one_history(c, agg, mem, layout, dep, hist, bands)
            except Exception:
                agg.add("history raises", "history", len(ms), f"history {hist} raised", history=list(hist),
                        traceback=traceback.format_exc()[-1500:])
            c.cat("history_executed")
            c.cat("history_mutation_steps", sum(1 for op in hist if op in HISTORY_MUTATORS))
            seen_read = False
            for op in hist:
                if op in HISTORY_READS:
                    seen_read = True
                elif seen_read:
                    c.cat("history_read_then_mutate")
                    if layout == "time":
                        c.nontriv((kind, "history") + tuple(hist))
                    break
    agg.flush()
    c.case({"family": "history", "kind": kind, "layout": layout, "ops": list(history_ops(kind)), "maxlen": unit["maxlen"],
            "first": unit.get("first"), "histories": len(hs)})
    c.sample({"family": "history", "kind": kind, "layout": layout, "operations": list(history_ops(kind)),
              "max_length": unit["maxlen"], "histories": len(hs), "example": hs[len(hs) // 2],
              "words": [[str(x) for x in w] for w in HISTORY_WORDS]})
    return c.result()


def one_history(c, agg, mem, layout, dep, hist, bands):
    f = mem.f
    fa = np.array(f)
    nf, nm, kind = mem.nf, mem.n, mem.kind
    s = mem.build(layout, depth=dep.copy())
    if kind != "1d":
        ds = DIRSETS[kind.split(":")[1]]
        dirs, widths = ds["dirs"], ref_widths(ds["dirs"])
    ar = np.arange(nm)

    def current():
        """Both admissible readings of e(f) and the reference direction / spread per frequency, from what the object
        holds NOW."""
        cur = np.array(s.variance_density.values, dtype=float).reshape((nm,) + mem.E.shape[1:])
        refdir = np.full((nm, nf), NAN)
        refspr = np.full((nm, nf), NAN)
        valsA, valsB = [], []
        if kind == "1d":
            a1 = np.array(s.dataset["a1"].values, dtype=float).reshape(nm, nf)
            b1 = np.array(s.dataset["b1"].values, dtype=float).reshape(nm, nf)
        for m in range(nm):
            va, vb = [], []
            for j in range(nf):
                if kind == "1d":
                    v = cur[m, j]
                    e = None if v != v else float(v)
                    a, b = a1[m, j], b1[m, j]
                    va.append(e)
                else:
                    e, a, b = ref_row_moments(cur[m, j], dirs, widths)
                    va.append(0.0 if e is None else e)
                vb.append(e)
                if a == a and b == b:
                    r = math.sqrt(a * a + b * b)
                    if 1e-9 < r <= 0.95:
                        refdir[m, j] = ref_direction(a, b)
                        refspr[m, j] = ref_spread(a, b)
            valsA.append(va)
            valsB.append(vb)
        return valsA, valsB, refdir, refspr

    def peaks(valsA, valsB, idx):
        PA = np.array([ref_peak(v, idx) for v in valsA])
        PB = np.array([ref_peak(v, idx) for v in valsB])
        return PA, PB

    def fail(step, name, bad, lib, exp, band, valsB):
        m = int(np.argmax(bad))
        agg.add("history " + name, "history", int(bad.sum()),
                f"after {hist[:step + 1]} (step {step}): {name} band={list(band)} is {lib[m]!r} but the variance density the "
                f"object holds now gives {exp[m]!r} (member {m}, e={valsB[m]})",
                history=list(hist), step=step, band=list(band), lib=float(lib[m]), reference=float(exp[m]))

    def read_peak(step):
        valsA, valsB, refdir, refspr = current()
        for band in bands:
            idx = inband(f, *band)
            PA, PB = peaks(valsA, valsB, idx)
            defined = PB >= 0
            cands = [PB] if np.array_equal(PA, PB) else [PA, PB]
            PBs = np.where(PB < 0, 0, PB)
            for name, fn in (
                ("peak_index", lambda: s.peak_index(*band)), ("peak_frequency", lambda: s.peak_frequency(*band)),
                ("peak_period", lambda: s.peak_period(*band)), ("peak_direction", lambda: s.peak_direction(*band)),
                ("peak_directional_spread", lambda: s.peak_directional_spread(*band)),
            ):
                v = call(agg, "history " + name, "history", fn, nm, layout, band)
                if v is None:
                    continue
                ok = np.zeros(nm, bool)
                for R in cands:
                    Rs = np.where(R < 0, 0, R)
                    if name == "peak_index":
                        good = v == R
                        exp = PB.astype(float)
                    elif name == "peak_frequency":
                        good = v == fa[Rs]
                        exp = fa[PBs]
                    elif name == "peak_period":
                        good = close(v, 1.0 / fa[Rs], rtol=1e-12)
                        exp = 1.0 / fa[PBs]
                    else:
                        ref = refdir if name == "peak_direction" else refspr
                        ind = ref[ar, Rs]
                        has = ~np.isnan(ind)
                        with np.errstate(invalid="ignore"):
                            d = angle_diff(v, np.where(has, ind, 0.0)) if name == "peak_direction" \
                                else np.abs(v - np.where(has, ind, 0.0))
                            good = ~has | (d <= 1e-9)
                        exp = ref[ar, PBs]
                        c.cat("direction_independent_checked", int((has & defined).sum()))
                    ok |= good
                c.evaluations += int(defined.sum())
                bad = defined & ~ok
                if bad.any():
                    fail(step, name, bad, v, exp, band, valsB)

    def read_wavenumber(step):
        valsA, valsB, _, _ = current()
        idx = inband(f, 0, INF)
        PA, PB = peaks(valsA, valsB, idx)
        if (PB < 0).any():
            return  # a member without a defined peak: nothing is demanded of the batch call's value for it, and
            #         its index may be f-independent; skip the read (counted as not compared)
        k = call(agg, "history peak_wavenumber", "history", lambda: s.peak_wavenumber, nm, layout, (0, INF))
        if k is None:
            return
        dd = np.where(np.isnan(dep), INF, dep)
        bad = ~(np.isfinite(k) & (k > 0))
        ks = np.where(bad, 1.0, k)
        res = np.minimum(ref_dispersion_residual(ks, 2 * np.pi * fa[PA], dd), ref_dispersion_residual(ks, 2 * np.pi * fa[PB], dd))
        bad |= ~(res <= 1e-3)
        c.evaluations += nm
        if bad.any():
            fail(step, "peak_wavenumber", bad, k, res, (0, INF), valsB)

    def default_peaks():
        valsA, valsB, _, _ = current()
        return peaks(valsA, valsB, inband(f, 0, INF))[1]

    for step, op in enumerate(hist):
        if op == "peak":
            read_peak(step)
            continue
        if op == "wavenumber":
            read_wavenumber(step)
            continue
        before = default_peaks()
        if op == "mul_full":
            s.multiply(np.full(s.shape(), 4.0), inplace=True)
        elif op == "mul_frequency":
            s.multiply(np.array(HISTORY_FREQ_FACTOR), dimensions=["frequency"], inplace=True)
        elif op == "mul_direction":
            s.multiply(np.array(HISTORY_DIR_FACTOR), dimensions=["direction"], inplace=True)
        elif op == "fillna":
            c.cat("history_fillna_filled_bins", int(np.sum(np.isnan(s.variance_density.values))))
            s.fillna(5.0)
        elif op == "setitem":
            da = s.dataset["variance_density"]
            s["variance_density"] = da.copy(data=2.0 * np.flip(da.values, axis=da.dims.index("frequency")) + 0.25)
        elif op == "dataset_assign":
            s.dataset["variance_density"] = 0.5 * s.dataset["variance_density"].roll(frequency=1, roll_coords=False)
        elif op == "values_inplace":
            # edit the object's own numpy buffer (dyadic, frequency dependent), the variable is not rebound
            da = s.dataset["variance_density"]
            buf = da.values
            shp = [1] * buf.ndim
            shp[da.dims.index("frequency")] = nf
            buf *= np.array(HISTORY_FREQ_FACTOR[::-1]).reshape(shp)
            buf += 0.125
        else:
            raise AssertionError(op)
        if not np.array_equal(before, default_peaks()):
            c.cat("history_peak_moved")
    last = len(hist) - 1
    read_peak(last)
    read_wavenumber(last)


# ------------------------------------------------------------------------------------------
# near-tie / scale family: the peak is the maximum, however close the runner-up and whatever the units
# ------------------------------------------------------------------------------------------
# dyadic letters and scales: every product and directional sum is exact, so ties and near ties are decided exactly
NT_LETTERS = (0.0, 1.0, 1.0 + 2.0 ** -20, 1.0 - 2.0 ** -23, None)
NT_SCALES = (1.0, 2.0 ** -40, 2.0 ** -30, 2.0 ** 20)
NT_GRIDS = {"quick": ["g5u"], "thorough": ["g5u", "g5z"]}
NT_CHEAP = ("peak_index", "peak_frequency", "peak_period")


def neartie_units(tier):
    us = []
    for g in NT_GRIDS[tier]:
        for kind in ("1d", "2d:d4"):
            for layout in LAYOUTS:
                us.append({"name": f"neartie:{g}:{kind}:{layout}", "family": "neartie", "grid": g, "kind": kind,
                           "layout": layout, "cost": 700 * (3.0 if kind != "1d" else 1.0)})
    return us


def run_neartie(unit):
    c = Collector()
    tier, g, kind, layout = unit["tier"], unit["grid"], unit["kind"], unit["layout"]
    f = grids(tier)[g]
    nf = len(f)
    agg = Agg(c, {"grid": g, "kind": kind, "layout": layout, "family": "neartie"})
    base = [w for w in itertools.product(NT_LETTERS, repeat=nf) if any(x is not None for x in w)]
    bands = all_bands(f)
    rbands = rep_bands(f, bands)
    masks = [inband(f, *b) for b in rbands]
    dir_bands = set(bands if tier == "thorough" else rbands)
    first = {}  # band -> library values at scale 1
    # named restriction 'neartie_scales_quick': quick runs all four scales in the (time) layout, {1, 2^-40} elsewhere
    scales = NT_SCALES if (tier == "thorough" or layout == "time") else NT_SCALES[:2]
    for scale in scales:
        words = [tuple(None if x is None else x * scale for x in w) for w in base]
        mem = Members(f, words, kind)
        n = mem.n
        tabs = mem.tables(masks)
        s = mem.build(layout)
        perfreq = perfreq_arrays(agg, s, n, nf, layout)
        for band in bands:
            k = inband(f, *band)
            got = check_band(c, agg, s, mem, band, tabs[k], layout, perfreq, only=None if band in dir_bands else NT_CHEAP)
            defined = tabs[k][1] >= 0
            if scale == 1.0:  # 'near_tie': a value within 2e-6 relative of the in-band maximum that is not the maximum
                first[band] = got
                c.cat("near_tie_in_band", tabs[k][3].get("near_tie", 0))
            else:
                # law: scaling e by a positive constant moves no peak (index, frequency, direction, spread)
                for name, v in got.items():
                    v0 = first[band].get(name)
                    if v0 is None or name == "peak_period":
                        continue
                    same = close(v, v0, rtol=0.0, atol=1e-9 if name.startswith("peak_dir") else 0.0)
                    bad = defined & ~same
                    c.evaluations += int(defined.sum())
                    if bad.any():
                        m = int(np.argmax(bad))
                        agg.add("law:scale_invariance " + name, "general", int(bad.sum()),
                                f"{name} changes when e is multiplied by {scale!r}: band={list(band)} word={base[m]} "
                                f"unscaled={v0[m]!r} scaled={v[m]!r}", band=list(band), scale=scale, member=m)
                c.cat("scaled_copies", int(defined.sum()))
        c.cat("low_energy_members(max<1e-8)", int(sum(1 for v in mem.valsB if max((abs(x) for x in v if x is not None), default=0.0) < 1e-8)))
        c.case({"scale": scale, "n": n, "bands": len(bands)})
    c.cat("layout:" + layout, len(base))
    c.cat("kind:" + kind[:2], len(base))
    agg.flush()
    c.sample({"family": "neartie", "grid": g, "kind": kind, "layout": layout, "letters": [str(x) for x in NT_LETTERS],
              "scales": list(scales), "words": len(base), "bands": len(bands)})
    return c.result()


def run_unit(unit):
    if unit.get("family") == "neartie":
        return run_neartie(unit)
    if unit.get("family") == "history":
        return run_history(unit)
    return run_scalar(unit) if unit["layout"] == "scalar" else run_batched(unit)
