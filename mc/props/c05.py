"""C05  Directional estimators return valid distributions and conserve energy.

Engine E1 (product-space enumeration).  Alphabet

* moment lattice  (a1,b1,a2,b2) in {-1,-1+1/n,...,1}^4 restricted to a1^2+b1^2 < 1
  (n = 4 in the quick tier: 3 645 quadruples, n = 10 in the thorough tier: 134 505).  The lattice
  contains realisable, marginal (on the boundary of the realisable set) and unrealisable
  quadruples;
* an exactly realisable family: analytic moments of uni/bi-modal von-Mises distributions from
  isotropic to 3 degrees wide at 24 mean directions;
* N directions in {8, 9, 36, 180} (9: an odd grid on which 90 and 180 degrees are not nodes), grids starting at 0 (what
  `as_frequency_direction_spectrum` builds) and, through the function interface, uniform grids
  with three other origins and uniform grids whose 360->0 wrap lies in the interior of the array
  (rolled by N/2, by +1, by -1, and (grid+180)%360), N in {8, 9, 36};
* all four estimator variants;
* array shapes (nf,), (nt,nf), (nt,nx,nf), single elements, and spectrum objects in the layouts
  () / (time,) / (time,latitude) / flattened;
* memory layout of the (nt,nx,nf) batch: C-contiguous, Fortran-contiguous (np.asfortranarray and a
  .T view), non-contiguous strided views (swapaxes view, every-second-element view); spectrum
  objects whose variables are stored column-major.

* EVERY N in 8..180 through the object interface (mem, mem2/approximate): number and values of the
  direction coordinate, e(f) / m0 round trip, validity;
* adjacency: every ordered pair (A, B), A != B, |A-B| < 0.1, from 9 clusters of 4 quadruples around
  narrow-peak, marginal and unrealisable centres, with A the last frequency bin of spectrum k and B the
  first bin of spectrum k+1 of one batch; batch vs. each spectrum alone;
* call histories: [default calls] ; [a call with a custom solver_config (6 dicts x 3 solution
  methods; thorough: also all ordered pairs) through estimate_directional_distribution] ; [the same
  default calls] => bit-identical results, no exception, module defaults untouched.  Run in a fresh
  interpreter so that a changed module state cannot leak into or come from other units.

Quadruples are stacked along the frequency axis (and at most 9 rows along the leading axis),
so one library call evaluates thousands of members; every member is still judged on its own.

Oracle (plain numpy, no library import): no exception; every value finite and >= 0;
sum(D)*360/N == 1 (1e-9); object round trip e(f), m0 (rtol 1e-12); time / latitude / longitude
/ depth / frequency carried over; batch member == the result the member gets alone (1e-14).
"""
import contextlib
import io
import math
import sys
import traceback

import numpy as np

from mc.common import Collector, make_1d

ID = "C05"
LEVEL = "exploration"
RULE = (
    "full Cartesian product: moment lattice {k/n}^4 with a1^2+b1^2<1 (n=4 quick, n=10 thorough) x N in {8,9,36,180} "
    "x variant {mem, mem2/newton, mem2/scipy, mem2/approximate}; plus a von-Mises family "
    "(10 widths x 24 mean directions x 7 modalities) x N x variant; plus the coarse lattice x 3 further grid origins x "
    "N in {8,36} x variant; plus the coarse lattice x 4 wrap-in-the-interior grid orders (rolled by N/2, +1, -1, "
    "(grid+180)%360) x N in {8,9,36} x variant; plus the coarse lattice through 4 array shapes x memory layouts "
    "{C, Fortran, strided views} / single elements and through spectrum "
    "objects in 4 layouts (batch vs. singleton, round trip, carried coordinates); plus the object round trip for every "
    "N in 8..180 (mem, mem2/approximate); plus 108 ordered (last bin of spectrum k, first bin of spectrum k+1) pairs "
    "of nearby quadruples x variant (batch vs alone); plus call histories [default ; custom solver_config call(s) ; default] over "
    "6 configs x 3 solution methods in a fresh interpreter. A member (variant, N, grid, "
    "quadruple) is non-trivial when the quadruple is not (0,0,0,0) (an anisotropic distribution has to be built); "
    "distinct = distinct (variant, N, grid origin, quadruple); shape / layout re-runs of the same members are "
    "counted as evaluations only."
)
ASSUMPTIONS = [
    "lattice, not continuum: nothing is claimed between lattice points",
    "direction grids are uniform: ascending (what as_frequency_direction_spectrum builds), with shifted origins, "
    "cyclically rolled so that the 360->0 wrap lies inside the array, or descending (clockwise ordered)",
    "moment arrays have a frequency axis (0-d inputs are outside the documented interface and are not exercised)",
    "numba prange is compiled with parallel=False (library setting _PARALLEL=False); thread schedules are not explored",
]
REQUIRED_CATEGORIES = [
    "class_interior", "class_realisability_boundary", "class_unrealisable",
    "variant_mem", "variant_mem2/newton", "variant_mem2/scipy", "variant_mem2/approximate",
    "N_8", "N_9", "N_36", "N_180", "newton_converged", "newton_not_converged",
    "vonmises_narrow_le_5deg", "vonmises_isotropic", "vonmises_bimodal",
    "grid_origin_shifted", "grid_order_rolled", "memory_layout_C", "memory_layout_fortran", "memory_layout_strided",
    "object_fortran_values", "every_N_8..180", "history_custom_config_then_default", "adjacent_last_bin_first_bin_pairs", "shape_(nf,)", "shape_(nt,nf)", "shape_(nt,nx,nf)", "shape_single_element",
    "layout_scalar", "layout_time", "layout_time_lat", "layout_flat",
    "singleton_compared", "roundtrip_checked", "progress_bar_path(points>=10)",
]

VARIANTS = {
    "mem": ("mem", {}),
    "mem2/newton": ("mem2", {"solution_method": "newton"}),
    "mem2/scipy": ("mem2", {"solution_method": "scipy"}),
    "mem2/approximate": ("mem2", {"solution_method": "approximate"}),
}
# rough per-solve cost in ms (for scheduling only)
COST = {"mem": 0.02, "mem2/approximate": 0.02, "mem2/newton": 1.0, "mem2/scipy": 2.0}
NCOST = {8: 0.4, 9: 0.4, 36: 1.0, 180: 3.5}


# --------------------------------------------------------------------------------------------
# alphabets
# --------------------------------------------------------------------------------------------
def lattice_pairs(n):
    """(a1,b1) = (i/n, j/n) with i^2+j^2 < n^2 (decided in integers), lexicographic."""
    return [(i, j) for i in range(-n, n + 1) for j in range(-n, n + 1) if i * i + j * j < n * n]


def lattice_plane(n):
    v = np.arange(-n, n + 1) / n
    A2, B2 = np.meshgrid(v, v, indexing="ij")
    return A2.ravel(), B2.ravel()


def tier_n(tier):
    return 4 if tier == "quick" else 10


def tier_N(tier):
    return [8, 9, 36, 180]


def bessel_ratio(order, kappa):
    from scipy import special

    if kappa <= 0:
        return 0.0
    return float(special.ive(order, kappa) / special.ive(0, kappa))


WIDTHS_DEG = [None, 120.0, 90.0, 60.0, 40.0, 25.0, 15.0, 10.0, 5.0, 3.0]  # None = isotropic
MODES = [(0.0, 0.0)] + [(w, s) for w in (0.3, 0.5) for s in (60.0, 120.0, 180.0)]


def vonmises_family():
    """Analytic moments of (1-w) VM(mu,kappa) + w VM(mu+sep,kappa); kappa = 1/width^2."""
    quads, meta = [], []
    for width in WIDTHS_DEG:
        kappa = 0.0 if width is None else 1.0 / math.radians(width) ** 2
        r1, r2 = bessel_ratio(1, kappa), bessel_ratio(2, kappa)
        for mu in range(0, 360, 15):
            for w, sep in MODES:
                c1 = c2 = 0j
                for weight, m in ((1 - w, mu), (w, mu + sep)):
                    t = math.radians(m)
                    c1 += weight * r1 * complex(math.cos(t), math.sin(t))
                    c2 += weight * r2 * complex(math.cos(2 * t), math.sin(2 * t))
                quads.append((c1.real, c1.imag, c2.real, c2.imag))
                meta.append((width, mu, w, sep))
    return np.array(quads), meta


def classify(q):
    """Position of the quadruples relative to the set of moments of non-negative measures:
    realisable  <=>  |c2 - c1^2| <= 1 - |c1|^2 ; equality = moments of one/two point masses."""
    c1 = q[..., 0] + 1j * q[..., 1]
    c2 = q[..., 2] + 1j * q[..., 3]
    bd = np.abs(c2 - c1 * c1) - (1 - np.abs(c1) ** 2)
    out = np.full(bd.shape, "interior", dtype=object)
    out[bd > 1e-9] = "unrealisable"
    out[np.abs(bd) <= 1e-9] = "realisability_boundary"
    return out


def grid(N, origin="0", order="ascending"):
    """uniform direction grid [degrees]: origin shifts the whole grid, order re-arranges the same
    set of directions so that the 360->0 wrap sits in the interior of the array."""
    d = np.linspace(0, 360, N, endpoint=False)
    if origin == "half_bin":
        d = d + 180.0 / N
    elif origin == "-180":
        d = d - 180.0
    elif origin == "90":
        d = d + 90.0
    elif origin != "0":
        raise ValueError(origin)
    if order == "ascending":
        return d
    if order == "roll_half":  # 180, ..., 350, 0, ..., 170
        return np.roll(d, N // 2)
    if order == "roll_1":  # 350, 0, 10, ...   (wrap between elements 0 and 1)
        return np.roll(d, 1)
    if order == "roll_-1":  # 10, 20, ..., 350, 0   (wrap between the last two elements)
        return np.roll(d, -1)
    if order == "plus180mod360":  # (grid + 180) % 360; for odd N a different set of directions
        return (d + 180.0) % 360.0
    if order == "descending":  # clockwise ordered
        return d[::-1].copy()
    raise ValueError(order)


# uniform grids whose wrap lies in the interior of the array (all four variants must cope: the
# property quantifies over "every uniform direction grid")
GRID_ORDERS = ["roll_half", "roll_1", "roll_-1", "plus180mod360", "descending"]


# --------------------------------------------------------------------------------------------
# helpers
# --------------------------------------------------------------------------------------------
@contextlib.contextmanager
def quiet():
    """The library opens a tqdm progress bar (numba_progress writes it to sys.stdout) for >= 10
    points; keep the log clean.  The bar and its updater thread still run."""
    old = sys.stdout, sys.stderr
    sys.stdout, sys.stderr = io.StringIO(), io.StringIO()
    try:
        yield
    finally:
        sys.stdout, sys.stderr = old


def qstr(q):
    return "(" + ",".join(repr(round(float(x), 12)) for x in q) + ")"


class Agg:
    """One reported violation per distinct key and unit (with a count and the first examples),
    so that many members of a known class cannot crowd an unknown class out of the listing."""

    def __init__(self, c):
        self.c = c
        self.d = {}

    def add(self, key, what, **detail):
        import json

        k = json.dumps(key, sort_keys=True)
        if k not in self.d:
            self.d[k] = [key, what, detail, 0, []]
        self.d[k][3] += 1
        if len(self.d[k][4]) < 5 and "quad" in detail:
            self.d[k][4].append(detail["quad"])

    def flush(self):
        for key, what, detail, n, ex in self.d.values():
            self.c.violation(key, f"{what} [{n} member(s) with this key in the unit]", members=n, first_quads=ex, **detail)
        self.c.extra["violating_members"] = sum(v[3] for v in self.d.values())


def robust(fn):
    """Run fn(); if numba fails to write its on-disk cache because the cache directory was pruned
    by a concurrent run of the shared runner (FileNotFoundError below NUMBA_CACHE_DIR), recreate
    the directory and retry.  Infrastructure plumbing only: any other exception propagates."""
    import os

    for attempt in range(4):
        try:
            return fn()
        except FileNotFoundError as exc:
            cache = os.environ.get("NUMBA_CACHE_DIR", "")
            name = str(getattr(exc, "filename", "") or "")
            if attempt == 3 or not cache or not name.startswith(cache):
                raise
            os.makedirs(os.path.dirname(name), exist_ok=True)


def call(variant, a1, b1, a2, b2, direction):
    from ocean_science_utilities.wavespectra.estimators.estimate import estimate_directional_distribution

    method, kw = VARIANTS[variant]
    args = [np.array(x, dtype=float) for x in (a1, b1, a2, b2)]
    with quiet():
        return robust(lambda: estimate_directional_distribution(*args, direction.copy(), method, **kw))


def call_raw(variant, arrays, direction):
    """as call(), but the moment arrays are handed over exactly as they are (views, Fortran order)"""
    from ocean_science_utilities.wavespectra.estimators.estimate import estimate_directional_distribution

    method, kw = VARIANTS[variant]
    with quiet():
        return robust(lambda: estimate_directional_distribution(*arrays, direction.copy(), method, **kw))


def tb_tail(exc):
    return "".join(traceback.format_exception(type(exc), exc, exc.__traceback__))[-1500:]


def evaluate(variant, Q, direction, agg, keybase, max_located=12):
    """Run the estimator on the quadruples Q (m,4) as one (1,m) call.  On an exception the
    offending quadruples are located by bisection so that all others are still judged.
    Returns D (m,N) in 1/degree with NaN rows for members that raised (flagged), mask evaluated."""
    m = len(Q)
    N = len(direction)
    D = np.full((m, N), np.nan)
    done = np.zeros(m, dtype=bool)
    located = [0]

    def rec(lo, hi):
        try:
            r = call(variant, Q[None, lo:hi, 0], Q[None, lo:hi, 1], Q[None, lo:hi, 2], Q[None, lo:hi, 3], direction)
            if r.shape != (1, hi - lo, N):
                agg.add(dict(keybase, check="shape"), f"{variant}: result shape {r.shape} for input (1,{hi - lo})")
                return
            D[lo:hi] = r[0]
            done[lo:hi] = True
        except Exception as exc:  # noqa: library raised inside the property's domain
            if hi - lo == 1:
                located[0] += 1
                cls = str(classify(Q[lo:hi])[0])
                agg.add(
                    dict(keybase, check="raises", exception=type(exc).__name__, message=str(exc)[:80],
                         **{"class": cls}, quad=qstr(Q[lo])),
                    f"{variant} N={N} raises {type(exc).__name__}: {exc} for (a1,b1,a2,b2)={qstr(Q[lo])} [{cls}]",
                    quad_class=cls, traceback=tb_tail(exc),
                )
                return
            if located[0] >= max_located:
                agg.add(
                    dict(keybase, check="raises", exception=type(exc).__name__, quad="(many)"),
                    f"{variant} N={N} raises {type(exc).__name__} for many quadruples (bisection stopped)",
                    not_evaluated=hi - lo,
                )
                return
            mid = (lo + hi) // 2
            rec(lo, mid)
            rec(mid, hi)

    rec(0, m)
    return D, done


def judge(c, agg, variant, Q, D, done, N, keybase):
    """finite, >= 0, integrates to one."""
    cls = classify(Q)
    nz = np.any(Q != 0, axis=1)
    fin = np.isfinite(D).all(axis=1)
    for i in np.nonzero(done & ~fin)[0]:
        agg.add(
            dict(keybase, check="finite", **{"class": str(cls[i])}),
            f"{variant}: distribution contains NaN/inf for quadruples of class {cls[i]} (first {qstr(Q[i])}, N={N})",
            quad=qstr(Q[i]), n_nan=int(np.isnan(D[i]).sum()), n_inf=int(np.isinf(D[i]).sum()),
        )
    ok = done & fin
    with np.errstate(invalid="ignore"):
        neg = ok & (D < 0).any(axis=1)
        tot = D.sum(axis=1) * (360.0 / N)
        bad_norm = ok & ~(np.abs(tot - 1.0) <= 1e-9)
    for i in np.nonzero(neg)[0]:
        agg.add(
            dict(keybase, check="nonnegative", **{"class": str(cls[i])}),
            f"{variant}: negative density {D[i].min()!r} for {qstr(Q[i])} (N={N}, class {cls[i]})",
            quad=qstr(Q[i]), min=float(D[i].min()),
        )
    for i in np.nonzero(bad_norm)[0]:
        agg.add(
            dict(keybase, check="integrates_to_one", **{"class": str(cls[i])}),
            f"{variant}: sum(D)*360/N = {tot[i]!r} for {qstr(Q[i])} (N={N}, class {cls[i]})",
            quad=qstr(Q[i]), integral=float(tot[i]),
        )
    c.evaluations += int(done.sum())
    for name in ("interior", "realisability_boundary", "unrealisable"):
        c.cat("class_" + name, int(np.sum(done & (cls == name))))
    c.cat("variant_" + variant, int(done.sum()))
    c.cat(f"N_{N}", int(done.sum()))
    return ok, nz


def discrete_moments(D, direction):
    th = np.radians(direction)
    w = 360.0 / len(direction)
    return np.stack(
        [(D * np.cos(th)).sum(-1) * w, (D * np.sin(th)).sum(-1) * w,
         (D * np.cos(2 * th)).sum(-1) * w, (D * np.sin(2 * th)).sum(-1) * w], axis=-1)


# --------------------------------------------------------------------------------------------
# units
# --------------------------------------------------------------------------------------------
SHAPE_PARTS = ["(nf,)", "(nt,nf)", "(nt,nx,nf)", "(nt,nf)-transposed-view", "(nt,nx,nf)-fortran", "(nt,nx,nf)-strided",
               "rows-alone", "elements-alone"]


def units(tier):
    n = tier_n(tier)
    npairs = len(lattice_pairs(n))
    nplane = (2 * n + 1) ** 2
    us = []
    for N in tier_N(tier):
        for variant in VARIANTS:
            per = COST[variant] * NCOST[N]
            total_ms = per * npairs * nplane
            shards = max(1, min(16, int(math.ceil(total_ms / 12000.0))))
            for s in range(shards):
                us.append({
                    "name": f"lattice:{variant}:N{N}:{s}/{shards}", "kind": "lattice", "variant": variant, "N": N,
                    "n": n, "shard": s, "shards": shards, "cost": total_ms / shards,
                })
    for variant in VARIANTS:
        us.append({"name": f"vonmises:{variant}", "kind": "vonmises", "variant": variant, "Ns": tier_N(tier),
                   "cost": COST[variant] * 1680 * 6})
        for N in (8, 36):
            us.append({"name": f"origin:{variant}:N{N}", "kind": "origin", "variant": variant, "N": N,
                       "cost": COST[variant] * NCOST[N] * 3645 * 3})
        if variant == "mem":
            us.append({"name": "history:solver_config", "kind": "history", "cost": 60000})
        if variant in ("mem", "mem2/approximate"):
            for b in range(4):
                us.append({"name": f"alln:{variant}:{b}/4", "kind": "alln", "variant": variant, "Ns": ALL_N[b::4],
                           "cost": 3000})
        for N in ((36,) if tier == "quick" else (8, 9, 36, 180)):
            us.append({"name": f"adjacent:{variant}:N{N}", "kind": "adjacent", "variant": variant, "N": N, "cost": 1500})
        for N in (8, 9, 36):
            us.append({"name": f"order:{variant}:N{N}", "kind": "order", "variant": variant, "N": N,
                       "cost": COST[variant] * NCOST[N] * 3645 * 3.5})
        for N in ((36,) if tier == "quick" else (8, 36, 180)):
            for part in SHAPE_PARTS:
                us.append({"name": f"shapes:{variant}:N{N}:{part}", "kind": "shapes", "variant": variant, "N": N,
                           "part": part, "cost": COST[variant] * NCOST[N] * 3645 * (3 if part.startswith("(nt,nx,nf)-") else 2)
                           + (15000 if "elements" in part else 500)})
        for N in ((8, 36) if tier == "quick" else (8, 36, 180)):
            for layout in ("time", "time_lat", "flat"):
                us.append({"name": f"object:{variant}:N{N}:{layout}", "kind": "object", "variant": variant, "N": N,
                           "layout": layout, "cost": COST[variant] * NCOST[N] * 3645 * 2 + 2000})
    return us


def run_lattice(unit):
    c = Collector()
    agg = Agg(c)
    variant, N, n = unit["variant"], unit["N"], unit["n"]
    pairs = lattice_pairs(n)[unit["shard"]::unit["shards"]]
    A2, B2 = lattice_plane(n)
    direction = grid(N)
    keybase = {"variant": variant, "N": N, "grid_origin": "0"}
    rows = 8  # pairs per call
    nontriv = 0
    for s in range(0, len(pairs), rows):
        blk = pairs[s:s + rows]
        Q = np.concatenate([
            np.stack([np.full(A2.shape, i / n), np.full(A2.shape, j / n), A2, B2], axis=1) for i, j in blk])
        D, done = evaluate(variant, Q, direction, agg, keybase)
        ok, nz = judge(c, agg, variant, Q, D, done, N, keybase)
        nontriv += int(np.sum(done & nz))
        if variant == "mem2/newton":
            res = np.linalg.norm(discrete_moments(D[ok], direction) - Q[ok], axis=1)
            c.cat("newton_converged", int(np.sum(res < 0.01)))
            c.cat("newton_not_converged", int(np.sum(res >= 0.01)))
        c.case({"v": variant, "N": N, "pairs": blk})
        if s == 0:
            i = min(len(Q) - 1, 7)
            c.sample({"variant": variant, "N": N, "quadruple": Q[i].tolist(), "class": str(classify(Q[i:i + 1])[0]),
                      "integral": float(D[i].sum() * 360.0 / N), "min": float(np.nanmin(D[i])) if done[i] else None})
    c.nontriv(n=nontriv)
    agg.flush()
    return c.result()


def run_vonmises(unit):
    c = Collector()
    agg = Agg(c)
    variant = unit["variant"]
    Q, meta = vonmises_family()
    if not np.all(Q[:, 0] ** 2 + Q[:, 1] ** 2 < 1):
        raise AssertionError("family leaves the domain")
    widths = np.array([np.inf if m[0] is None else m[0] for m in meta])
    bim = np.array([m[2] > 0 for m in meta])
    nontriv = 0
    for N in unit["Ns"]:
        direction = grid(N)
        keybase = {"variant": variant, "N": N, "grid_origin": "0", "family": "vonmises"}
        D, done = evaluate(variant, Q, direction, agg, keybase)
        ok, nz = judge(c, agg, variant, Q, D, done, N, keybase)
        sel = done & nz  # distinct: e.g. two equal lobes 180 degrees apart coincide for mu and mu+180
        nontriv += len(np.unique(np.round(Q[sel], 9) + 0.0, axis=0)) if sel.any() else 0
        c.cat("vonmises_narrow_le_5deg", int(np.sum(done & (widths <= 5))))
        c.cat("vonmises_isotropic", int(np.sum(done & np.isinf(widths))))
        c.cat("vonmises_bimodal", int(np.sum(done & bim)))
        if variant == "mem2/newton":
            res = np.linalg.norm(discrete_moments(D[ok], direction) - Q[ok], axis=1)
            c.cat("newton_converged", int(np.sum(res < 0.01)))
            c.cat("newton_not_converged", int(np.sum(res >= 0.01)))
        c.case({"v": variant, "N": N, "family": "vonmises", "m": len(Q)})
    c.sample({"variant": variant, "family": "vonmises", "width_deg": meta[-1][0], "mean_dir": meta[-1][1],
              "second_lobe": meta[-1][2:], "quadruple": Q[-1].tolist()})
    c.nontriv(n=nontriv)
    agg.flush()
    return c.result()


def coarse_quads():
    """the 3 645 coarse-lattice quadruples as (45, 81, 4).  The product layout (rows = (a1,b1),
    columns = (a2,b2)) is transposed-and-refolded (member idx <- product index (idx % 45)*81 + (7*(idx//45)+3) % 81)
    so that all four moments vary along every axis of (45,81) and of (5,9,81) (asserted below): with
    the plain product layout a permutation of the rows of b2 alone, or of the columns of a1 alone,
    would be invisible."""
    n = 4
    A2, B2 = lattice_plane(n)
    pairs = lattice_pairs(n)
    Q = np.concatenate([
        np.stack([np.full(A2.shape, i / n), np.full(A2.shape, j / n), A2, B2], axis=1) for i, j in pairs])
    idx = np.arange(len(Q))
    perm = (idx % 45) * 81 + (7 * (idx // 45) + 3) % 81
    if len(np.unique(perm)) != len(Q):
        raise AssertionError("layout is not a permutation")
    Q3 = Q[perm].reshape(45, 81, 4)
    Q4 = Q3.reshape(5, 9, 81, 4)
    for ax in range(3):
        if not np.all(Q4.std(axis=ax) > 0):
            raise AssertionError("member layout does not vary along every axis")
    return Q3


def run_origin(unit):
    c = Collector()
    agg = Agg(c)
    variant, N = unit["variant"], unit["N"]
    Q = coarse_quads().reshape(-1, 4)
    nontriv = 0
    for origin in ("half_bin", "-180", "90"):
        direction = grid(N, origin)
        keybase = {"variant": variant, "N": N, "grid_origin": origin}
        D, done = evaluate(variant, Q, direction, agg, keybase)
        ok, nz = judge(c, agg, variant, Q, D, done, N, keybase)
        nontriv += int(np.sum(done & nz))
        c.cat("grid_origin_shifted", int(done.sum()))
        c.case({"v": variant, "N": N, "origin": origin})
    c.sample({"variant": variant, "N": N, "direction_grid_first3": grid(N, "half_bin")[:3].tolist()})
    c.nontriv(n=nontriv)
    agg.flush()
    return c.result()


def run_order(unit):
    """uniform grids whose 360->0 wrap lies inside the array (rolled / (grid+180)%360)"""
    c = Collector()
    agg = Agg(c)
    variant, N = unit["variant"], unit["N"]
    Q = coarse_quads().reshape(-1, 4)
    nontriv = 0
    seen = []
    for order in GRID_ORDERS:
        direction = grid(N, "0", order)
        if any(np.array_equal(direction, g) for g in seen):
            continue  # e.g. (grid+180)%360 == roll_half for even N
        seen.append(direction)
        step = np.diff(np.concatenate([direction, direction[:1]])) % 360.0
        if order == "descending":
            # clockwise ordered uniform grid (every step is -360/N modulo 360); MEM2 negated its
            # output on such grids before fix 7c3dd28
            if not np.allclose(step, 360.0 - 360.0 / N):
                raise AssertionError("not a uniform descending grid")
        elif not (np.allclose(step, 360.0 / N) and np.any(np.diff(direction) < 0)):
            raise AssertionError("not a uniform grid with an interior wrap")
        keybase = {"variant": variant, "N": N, "grid_origin": "0", "grid_order": order}
        D, done = evaluate(variant, Q, direction, agg, keybase)
        ok, nz = judge(c, agg, variant, Q, D, done, N, keybase)
        nontriv += int(np.sum(done & nz))
        c.cat("grid_order_rolled", int(done.sum()))
        c.case({"v": variant, "N": N, "order": order})
    c.sample({"variant": variant, "N": N, "grid_order": "roll_half", "direction_grid_first3": grid(N, "0", "roll_half")[:3].tolist()})
    c.nontriv(n=nontriv)
    agg.flush()
    return c.result()


def same(a, b):
    """batch member == singleton within 1e-14 of the row maximum; NaN must match NaN."""
    a = np.asarray(a)
    b = np.asarray(b)
    with np.errstate(invalid="ignore"):
        scale = np.nanmax(np.abs(np.where(np.isfinite(b), b, 0.0)), axis=-1, keepdims=True)
        nan_eq = np.isnan(a) & np.isnan(b)
        ok = np.abs(a - b) <= 1e-14 * np.maximum(scale, 1e-300)
    return (ok | nan_eq).all(axis=-1)


def run_shapes(unit):
    """the same 3 645 members through every array shape; the (1, m) stacking used by the lattice
    units is the reference."""
    c = Collector()
    agg = Agg(c)
    variant, N = unit["variant"], unit["N"]
    Q3 = coarse_quads()  # (45,81,4)
    Q = Q3.reshape(-1, 4)
    direction = grid(N)
    keybase = {"variant": variant, "N": N, "grid_origin": "0"}
    ref, done = evaluate(variant, Q, direction, agg, keybase)
    judge(c, agg, variant, Q, ref, done, N, keybase)
    ref3 = ref.reshape(45, 81, N)
    done3 = done.reshape(45, 81)

    def compare(shape_name, got, want, valid, quads):
        if got.shape != want.shape:
            agg.add(dict(keybase, check="batch_shape", shape=shape_name),
                    f"{variant}: result shape {got.shape}, expected {want.shape} for input shape {shape_name}")
            return
        eq = same(got, want) | ~valid
        c.evaluations += int(valid.sum())
        c.cat("shape_" + shape_name, int(valid.sum()))
        for idx in zip(*np.nonzero(~eq)):
            agg.add(dict(keybase, check="batch_vs_alone", shape=shape_name),
                    f"{variant} N={N}: member {qstr(quads[idx])} differs between input shape {shape_name} and its own call",
                    quad=qstr(quads[idx]), max_abs_diff=float(np.nanmax(np.abs(got[idx] - want[idx]))))

    def guarded(shape_name, fn):
        try:
            return fn()
        except Exception as exc:  # noqa
            agg.add(dict(keybase, check="raises", shape=shape_name, exception=type(exc).__name__),
                    f"{variant} N={N} raises {type(exc).__name__}: {exc} for input shape {shape_name}",
                    traceback=tb_tail(exc))
            return None

    part = unit["part"]
    if not done.all():
        pass  # the reference call itself raised for some member: reported by evaluate(); nothing to compare
    elif part == "(nf,)":
        r = guarded("(nf,)", lambda: call(variant, Q[:, 0], Q[:, 1], Q[:, 2], Q[:, 3], direction))
        if r is not None:
            compare("(nf,)", r, ref, done, Q)
    elif part == "(nt,nf)":
        r = guarded("(nt,nf)", lambda: call(variant, Q3[..., 0], Q3[..., 1], Q3[..., 2], Q3[..., 3], direction))
        if r is not None:
            compare("(nt,nf)", r, ref3, done3, Q3)
            c.cat("progress_bar_path(points>=10)", 1)
    elif part == "(nt,nx,nf)":
        Q4 = Q3.reshape(5, 9, 81, 4)
        arrs = [np.ascontiguousarray(Q4[..., m]) for m in range(4)]
        r = guarded("(nt,nx,nf)", lambda: call_raw(variant, arrs, direction))
        if r is not None:
            compare("(nt,nx,nf)", r, ref.reshape(5, 9, 81, N), done.reshape(5, 9, 81), Q4)
            c.cat("memory_layout_C", int(done.sum()))
    elif part in ("(nt,nx,nf)-fortran", "(nt,nx,nf)-strided"):
        # memory-layout axis: the same (5,9,81) members stored column-major / as strided views, as
        # np.asfortranarray, .T views and the .values of transposed or sliced DataArrays deliver them
        Q4 = Q3.reshape(5, 9, 81, 4)
        comps = [np.ascontiguousarray(Q4[..., m]) for m in range(4)]
        layouts = {}
        if part.endswith("fortran"):
            layouts["asfortranarray"] = [np.asfortranarray(x) for x in comps]
            layouts["T-view-of-(nf,nx,nt)"] = [np.ascontiguousarray(x.transpose(2, 1, 0)).transpose(2, 1, 0) for x in comps]
            want_flags = (False, True)
        else:
            layouts["swapaxes-view-of-(nx,nt,nf)"] = [np.ascontiguousarray(x.swapaxes(0, 1)).swapaxes(0, 1) for x in comps]
            sliced = []
            for x in comps:
                big = np.full((5, 9, 162), 0.123)
                big[..., ::2] = x
                sliced.append(big[..., ::2])
            layouts["every-second-element-view"] = sliced
            want_flags = (False, False)
        for lname, arrs in layouts.items():
            for x, x0 in zip(arrs, comps):
                if (x.flags.c_contiguous, x.flags.f_contiguous) != want_flags or not np.array_equal(x, x0):
                    raise AssertionError("memory layout not as intended: " + lname)
            r = guarded("(nt,nx,nf)/" + lname, lambda: call_raw(variant, arrs, direction))
            if r is not None:
                compare("(nt,nx,nf)/" + lname, r, ref.reshape(5, 9, 81, N), done.reshape(5, 9, 81), Q4)
                c.cat("memory_layout_fortran" if part.endswith("fortran") else "memory_layout_strided", int(done.sum()))
    elif part == "(nt,nf)-transposed-view":
        # non-contiguous input, as produced by xarray transposes
        QT = np.ascontiguousarray(Q3.transpose(1, 0, 2))  # (81,45,4)

        def fn():
            from ocean_science_utilities.wavespectra.estimators.estimate import estimate_directional_distribution

            method, kw = VARIANTS[variant]
            with quiet():
                return robust(lambda: estimate_directional_distribution(
                    QT[..., 0].T, QT[..., 1].T, QT[..., 2].T, QT[..., 3].T, direction.copy(), method, **kw))

        r = guarded("(nt,nf)", fn)
        if r is not None:
            compare("(nt,nf)", r, ref3, done3, Q3)
            c.cat("memory_layout_strided", int(done.sum()))
    elif part == "rows-alone":
        rows = []
        for i in range(45):
            r = guarded("(nf,)", lambda: call(variant, Q3[i, :, 0], Q3[i, :, 1], Q3[i, :, 2], Q3[i, :, 3], direction))
            rows.append(r if r is not None and r.shape == (81, N) else np.full((81, N), np.inf))
        compare("(nf,)", np.stack(rows), ref3, done3, Q3)
        c.cat("singleton_compared", int(done.sum()))
    elif part == "elements-alone":
        single = np.empty_like(ref)
        for i in range(len(Q)):
            r = guarded("single_element", lambda: call(variant, Q[i:i + 1, 0], Q[i:i + 1, 1], Q[i:i + 1, 2], Q[i:i + 1, 3], direction))
            single[i] = r[0] if r is not None and r.shape == (1, N) else np.inf
        compare("single_element", single, ref, done, Q)
        c.cat("singleton_compared", int(done.sum()))
    else:
        raise ValueError(part)
    c.case({"v": variant, "N": N, "shapes": part})
    c.sample({"variant": variant, "N": N, "reference_shape": "(1,3645)", "compared_shape": part})
    agg.flush()
    r = c.result()
    r["distinct_nontrivial"] = 0
    return r


# ---- spectrum objects ---------------------------------------------------------------------------
NF = 81
FREQ = 0.05 + 0.01 * np.arange(NF)


def energy(npoints):
    i = np.arange(npoints)[:, None]
    j = np.arange(NF)[None, :]
    e = 0.5 + ((7 * i + 3 * j) % 11) / 4.0
    e[:, 5] = 0.0  # a frequency without energy
    return e


def check_object(c, agg, keybase, s1, s2, N, E, Qm, label):
    """s1: FrequencySpectrum, s2 = s1.as_frequency_direction_spectrum(N, ...).  E, Qm: (*lead,nf[,4])"""
    variant = keybase["variant"]
    lead = E.shape[:-1]
    key = dict(keybase, layout=label)
    v = s2.dataset["variance_density"]
    want_dims = tuple(s1.dataset["variance_density"].dims) + ("direction",)
    if tuple(v.dims) != want_dims or v.shape != lead + (NF, N):
        agg.add(dict(key, check="dims"), f"{variant}/{label}: 2D dims {v.dims} shape {v.shape}, expected {want_dims} {lead + (NF, N)}")
        return None
    dvals = np.asarray(s2.dataset["direction"].values, dtype=float)
    if dvals.shape != (N,) or not np.all(np.abs(dvals - np.arange(N) * 360.0 / N) <= 1e-9):
        agg.add(dict(key, check="direction_coordinate"),
                f"{variant}/{label}: direction coordinate (shape {dvals.shape}) is not k*360/{N}, k=0..{N - 1}")
    for name in ("time", "latitude", "longitude", "depth", "frequency"):
        a = s1.dataset[name]
        if name not in s2.dataset.variables:
            agg.add(dict(key, check="carried", variable=name), f"{variant}/{label}: {name} missing from the 2D spectrum")
            continue
        b = s2.dataset[name]
        if tuple(a.dims) != tuple(b.dims) or a.shape != b.shape or not np.array_equal(
            a.values, b.values, equal_nan=(a.dtype.kind == "f")
        ):
            agg.add(dict(key, check="carried", variable=name), f"{variant}/{label}: {name} not carried over unchanged")
    vals = v.values
    cls = classify(Qm)
    fin = np.isfinite(vals).all(-1)
    for idx in zip(*np.nonzero(~fin)):
        agg.add(dict(key, check="finite", **{"class": str(cls[idx])}),
                f"{variant}/{label}: 2D spectrum contains NaN/inf for quadruples of class {cls[idx]} (first {qstr(Qm[idx])}, N={N})",
                quad=qstr(Qm[idx]))
    # integrate back: own sum, and the library's own direction integration / m0
    back = vals.sum(-1) * (360.0 / N)
    lib_e = s2.e.values
    with np.errstate(invalid="ignore"):
        bad_own = fin & ~(np.abs(back - E) <= 1e-12 * np.abs(E))
        bad_lib = fin & ~(np.abs(lib_e - E) <= 1e-12 * np.abs(E))
    for idx in zip(*np.nonzero(bad_own | bad_lib)):
        agg.add(dict(key, check="e_roundtrip", **{"class": str(cls[idx])}),
                f"{variant}/{label}: e(f) not reproduced for {qstr(Qm[idx])}: {back[idx]!r} / {lib_e[idx]!r} vs {E[idx]!r}",
                quad=qstr(Qm[idx]), e=float(E[idx]), own_sum=float(back[idx]), library_e=float(lib_e[idx]))
    all_fin = fin.all(-1)
    m0_1 = np.atleast_1d(np.asarray(s1.m0().values, dtype=float))
    m0_2 = np.atleast_1d(np.asarray(s2.m0().values, dtype=float))
    with np.errstate(invalid="ignore"):
        bad_m0 = np.atleast_1d(all_fin) & ~(np.abs(m0_2 - m0_1) <= 1e-12 * np.abs(m0_1))
    for idx in zip(*np.nonzero(bad_m0)):
        agg.add(dict(key, check="m0_roundtrip"),
                f"{variant}/{label}: total variance {m0_2[idx]!r} after the round trip vs {m0_1[idx]!r} of the 1D spectrum")
    c.evaluations += int(fin.size)
    c.cat("roundtrip_checked", int(fin.sum()))
    c.cat("layout_" + label, int(fin.size))
    return vals


def run_object(unit):
    c = Collector()
    agg = Agg(c)
    variant, N, layout = unit["variant"], unit["N"], unit["layout"]
    method, kw = VARIANTS[variant]
    keybase = {"variant": variant, "N": N, "grid_origin": "0"}
    Q3 = coarse_quads()  # (45,81,4)
    E = energy(45)
    depths = np.array([np.inf, 10.0, 250.0])[(np.arange(45) + np.arange(45) // 9) % 3]  # varies along both lead axes

    def convert(s, label):
        try:
            with quiet():
                return robust(lambda: s.as_frequency_direction_spectrum(
                    N, method=method, solution_method=kw.get("solution_method", "scipy")))
        except Exception as exc:  # noqa
            agg.add(dict(keybase, check="raises", layout=label, exception=type(exc).__name__),
                    f"{variant} N={N}: as_frequency_direction_spectrum raises {type(exc).__name__}: {exc} ({label})",
                    traceback=tb_tail(exc))
            return None

    # the members alone: 45 objects without leading dimensions
    alone = np.full((45, NF, N), np.inf)
    for i in range(45):
        s1 = make_1d(FREQ, E[i], Q3[i, :, 0], Q3[i, :, 1], Q3[i, :, 2], Q3[i, :, 3], depth=float(depths[i]))
        s2 = convert(s1, "scalar")
        if s2 is None:
            continue
        vals = check_object(c, agg, keybase, s1, s2, N, E[i], Q3[i], "scalar")
        if vals is not None:
            alone[i] = vals
    # the batch
    if layout == "time":
        lead = (45,)
    else:
        lead = (5, 9)
    Eb = E.reshape(lead + (NF,))
    Qb = Q3.reshape(lead + (NF, 4))
    s1 = make_1d(FREQ, Eb, Qb[..., 0], Qb[..., 1], Qb[..., 2], Qb[..., 3], depth=depths.reshape(lead),
                 flat=(layout == "flat"))
    if layout == "flat":
        Eb, Qb = E, Q3
    s2 = convert(s1, layout)
    if s2 is not None:
        vals = check_object(c, agg, keybase, s1, s2, N, Eb, Qb, layout)
        c.cat("progress_bar_path(points>=10)", 1)
        if vals is not None:
            got = vals.reshape(45, NF, N)
            eq = same(got, alone)
            c.cat("singleton_compared", int(eq.size))
            for idx in zip(*np.nonzero(~eq)):
                agg.add(dict(keybase, check="batch_vs_alone", layout=layout),
                        f"{variant} N={N}: spectrum {idx[0]} frequency {idx[1]} {qstr(Q3[idx])} differs between the {layout} batch and the spectrum alone",
                        quad=qstr(Q3[idx]), max_abs_diff=float(np.nanmax(np.abs(got[idx] - alone[idx]))))
    if layout == "time_lat":
        # the same (time, latitude) batch with every variable stored column-major (what .values of a
        # transposed dataset / a Fortran-ordered netCDF read hands to the estimator)
        s1f = make_1d(FREQ, np.asfortranarray(Eb), *[np.asfortranarray(Qb[..., m]) for m in range(4)],
                      depth=np.asfortranarray(depths.reshape(lead)))
        flags = [getattr(s1f, nm).values.flags for nm in ("a1", "b1", "a2", "b2", "e")]
        if all(f.f_contiguous and not f.c_contiguous for f in flags):
            s2f = convert(s1f, "time_lat/fortran")
            if s2f is not None:
                vals = check_object(c, agg, keybase, s1f, s2f, N, Eb, Qb, "time_lat/fortran")
                if vals is not None:
                    got = vals.reshape(45, NF, N)
                    eq = same(got, alone)
                    c.cat("object_fortran_values", int(eq.size))
                    for idx in zip(*np.nonzero(~eq)):
                        agg.add(dict(keybase, check="batch_vs_alone", layout="time_lat/fortran"),
                                f"{variant} N={N}: spectrum {idx[0]} frequency {idx[1]} {qstr(Q3[idx])} differs between the "
                                f"Fortran-ordered (time, latitude) batch and the spectrum alone",
                                quad=qstr(Q3[idx]), max_abs_diff=float(np.nanmax(np.abs(got[idx] - alone[idx]))))
    c.case({"v": variant, "N": N, "layout": layout})
    c.sample({"variant": variant, "N": N, "layout": layout, "lead_shape": list(lead), "nf": NF,
              "depths": [str(x) for x in depths[:3]]})
    agg.flush()
    r = c.result()
    r["distinct_nontrivial"] = 0
    return r


# ---- adjacency family: the last bin of spectrum k next to the first bin of spectrum k+1 -----------
def adj_members(q):
    """the centre and three neighbours (c1 shrunk / turned, c2 shifted) - all closer than 0.1 to each other
    and never leaving |c1| < 1"""
    c1, c2 = complex(q[0], q[1]), complex(q[2], q[3])
    rot = lambda a: complex(math.cos(a), math.sin(a))  # noqa: E731
    out = [(c1, c2), (c1 * 0.97, c2), (c1 * rot(0.03), c2 * 0.97), (c1 * 0.98 * rot(-0.02), c2 + 0.03j)]
    return [(float(a.real), float(a.imag), float(b.real), float(b.imag)) for a, b in out]


def adjacency_alphabet():
    """clusters of quadruples closer than 0.1 to each other around narrow-peak, marginal and
    unrealisable centres (where a solver carries huge multipliers)."""
    centres = []
    for width, mu in ((3.0, 40.0), (5.0, 200.0), (10.0, 310.0)):
        kappa = 1.0 / math.radians(width) ** 2
        r1, r2, t = bessel_ratio(1, kappa), bessel_ratio(2, kappa), math.radians(mu)
        centres.append((f"vonmises_{width:g}deg", (r1 * math.cos(t), r1 * math.sin(t), r2 * math.cos(2 * t), r2 * math.sin(2 * t))))
    kappa = 1.0 / math.radians(10.0) ** 2
    r1, r2 = bessel_ratio(1, kappa), bessel_ratio(2, kappa)
    c1 = 0.5 * r1 * (complex(math.cos(1.0), math.sin(1.0)) + complex(math.cos(1.0 + 2.0944), math.sin(1.0 + 2.0944)))
    c2 = 0.5 * r2 * (complex(math.cos(2.0), math.sin(2.0)) + complex(math.cos(2.0 + 4.1888), math.sin(2.0 + 4.1888)))
    centres.append(("bimodal_10deg", (c1.real, c1.imag, c2.real, c2.imag)))
    centres += [
        ("marginal_two_point_masses_a", (0.5, 0.5, 0.0, 0.0)),
        ("marginal_two_point_masses_b", (0.6, 0.0, -0.28, 0.0)),
        ("unrealisable_a", (-0.75, -0.5, -1.0, -1.0)),
        ("unrealisable_b", (0.9, 0.3, 0.2, -0.9)),
        ("noisy_narrow", (0.95, 0.1, 0.5, 0.6)),
    ]
    clusters = []
    for name, q in centres:
        members = adj_members(q)
        for m in members:
            if not m[0] ** 2 + m[1] ** 2 < 1:
                raise AssertionError("adjacency member outside the domain")
        for x in members:
            for y in members:
                if x != y and not 0 < math.dist(x, y) < 0.1:
                    raise AssertionError("adjacency members not within 0.1")
        clusters.append((name, members))
    return clusters


def run_adjacent(unit):
    """Every ordered pair (A, B), A != B, of every cluster: A is the LAST frequency bin of spectrum k and
    B the FIRST bin of spectrum k+1 of one batch (nf = 2, spectrum k = [B_(k-1), A_k]); every spectrum of
    the batch must get exactly the result it gets alone."""
    c = Collector()
    agg = Agg(c)
    variant, N = unit["variant"], unit["N"]
    direction = grid(N)
    keybase = {"variant": variant, "N": N, "grid_origin": "0", "family": "adjacent"}
    pairs = []
    for name, members in adjacency_alphabet():
        for a in members:
            for b in members:
                if a != b:
                    pairs.append((name, a, b))
    filler = (0.3, -0.2, 0.1, 0.05)
    firsts = [filler] + [b for _, _, b in pairs]
    lasts = [a for _, a, _ in pairs] + [filler]
    Qb = np.array([[f, l] for f, l in zip(firsts, lasts)])  # (npairs+1, 2, 4)
    try:
        batch = call(variant, Qb[..., 0], Qb[..., 1], Qb[..., 2], Qb[..., 3], direction)
    except Exception as exc:  # noqa
        agg.add(dict(keybase, check="raises", exception=type(exc).__name__),
                f"{variant} N={N} raises {type(exc).__name__}: {exc} on the adjacency batch", traceback=tb_tail(exc))
        batch = None
    if batch is not None and batch.shape != Qb.shape[:2] + (N,):
        agg.add(dict(keybase, check="shape"), f"{variant}: result shape {batch.shape}")
        batch = None
    if batch is not None:
        flatQ = Qb.reshape(-1, 4)
        judge(c, agg, variant, flatQ, batch.reshape(-1, N), np.ones(len(flatQ), dtype=bool), N, keybase)
        for k in range(len(Qb)):
            try:
                alone = call(variant, Qb[k, :, 0], Qb[k, :, 1], Qb[k, :, 2], Qb[k, :, 3], direction)
            except Exception as exc:  # noqa
                agg.add(dict(keybase, check="raises", exception=type(exc).__name__),
                        f"{variant} N={N} raises {type(exc).__name__}: {exc} on spectrum {k} alone", traceback=tb_tail(exc))
                continue
            c.evaluations += 2
            eq = same(batch[k], alone) if alone.shape == batch[k].shape else np.zeros(2, dtype=bool)
            for j in np.nonzero(~eq)[0]:
                prev = qstr(Qb[k - 1, 1]) if (j == 0 and k > 0) else qstr(Qb[k, 0])
                agg.add(dict(keybase, check="batch_vs_alone", cluster=pairs[k - 1][0] if (j == 0 and k > 0) else pairs[min(k, len(pairs) - 1)][0]),
                        f"{variant} N={N}: bin {j} of spectrum {k} {qstr(Qb[k, j])} (preceded in the batch by {prev}) differs from "
                        f"the result of the spectrum alone: max |dD| = {float(np.nanmax(np.abs(batch[k, j] - alone[j]))):.3g} "
                        f"(max D {float(np.nanmax(alone[j])):.3g})",
                        quad=qstr(Qb[k, j]), preceded_by=prev)
        c.cat("adjacent_last_bin_first_bin_pairs", len(pairs))
        c.cat("singleton_compared", 2 * len(Qb))
    c.nontriv(n=len(pairs))
    c.case({"v": variant, "N": N, "adjacent": len(pairs)})
    c.sample({"variant": variant, "N": N, "family": "adjacent", "last_bin_of_spectrum_k": list(pairs[0][1]),
              "first_bin_of_spectrum_k+1": list(pairs[0][2]), "pairs": len(pairs)})
    agg.flush()
    return c.result()


# ---- history family: calls with a custom solver_config must not change later default calls -------
DOCUMENTED_NUMERICS = {"atol": 0.01, "max_iter": 100, "max_line_search_depth": 8, "rcond": 1e-6,
                       "use_mem_when_failing_to_converge": True}
CUSTOM_CONFIGS = [
    ("empty", {}),
    ("no_mem_fallback", {"use_mem_when_failing_to_converge": False}),
    ("atol_0.05", {"atol": 0.05}),
    ("max_iter_3", {"max_iter": 3}),
    ("line_search_1", {"max_line_search_depth": 1}),
    ("rcond_1e-2", {"rcond": 1e-2}),
]
CUSTOM_METHODS = ["newton", "scipy", "approximate"]  # mem2() merges solver_config before dispatching
HIST_MARK = "@@C05-HISTORY@@"


def history_child(tier):
    """Runs in a FRESH interpreter (so that a poisoned module state can neither leak into other
    units of the worker nor be inherited from them).  Histories: [default calls] ; [one or two calls
    with a custom solver_config through the public keyword path of
    estimate_directional_distribution] ; [the same default calls again] -> bit-identical results,
    module defaults untouched.  Stops at the first offending history (later ones would run on the
    already changed state)."""
    import warnings

    from mc import runner

    runner.setup_environment()
    warnings.simplefilter("ignore")
    runner.assert_library_from_tree()
    import ocean_science_utilities.wavespectra.estimators.mem2 as M
    from ocean_science_utilities.wavespectra.estimators.estimate import estimate_directional_distribution as edd

    rep = {"violations": [], "evaluations": 0, "histories": 0, "custom_calls_raising_not_converged": 0,
           "harness_error": None, "members": 0}
    if dict(M.NUMERICS) != DOCUMENTED_NUMERICS:
        rep["harness_error"] = f"module defaults at start {dict(M.NUMERICS)!r} != documented {DOCUMENTED_NUMERICS!r}"
        return rep
    N = 36
    direction = grid(N)
    Q = coarse_quads().reshape(-1, 4)[::5]  # 729 members: interior, boundary and unrealisable (non-converging)
    rep["members"] = len(Q)
    args = lambda: [Q[None, :, m].copy() for m in range(4)]  # noqa: E731

    def default_calls():
        out = {}
        for variant, (method, kw) in VARIANTS.items():
            if variant == "mem2/scipy":
                a = [x[:, ::9] for x in args()]  # 81 members: the scipy path does not read the config at all
            else:
                a = args()
            with quiet():
                out[variant] = robust(lambda: edd(*a, direction.copy(), method, **kw))
            rep["evaluations"] += a[0].size
        return out

    base = default_calls()
    histories = [[(sm, c)] for sm in CUSTOM_METHODS for c in CUSTOM_CONFIGS]
    if tier != "quick":
        histories += [[("newton", c1), ("newton", c2)] for c1 in CUSTOM_CONFIGS for c2 in CUSTOM_CONFIGS]
    for hist in histories:
        hname = " ; ".join(f"{sm}:{cn}" for sm, (cn, _) in hist)
        key = {"family": "history", "history": hname, "N": N}
        for sm, (cname, cfg) in hist:
            try:
                with quiet():
                    robust(lambda: edd(*args(), direction.copy(), "mem2", solution_method=sm, solver_config=dict(cfg)))
            except ValueError as exc:
                if "did not converge" in str(exc) and cfg.get("use_mem_when_failing_to_converge") is False:
                    rep["custom_calls_raising_not_converged"] += 1  # documented behaviour of that setting
                else:
                    rep["violations"].append([dict(key, check="raises", exception="ValueError"),
                                              f"call with solver_config={cfg} ({sm}) raises ValueError: {exc}", {}])
            except Exception as exc:  # noqa
                rep["violations"].append([dict(key, check="raises", exception=type(exc).__name__),
                                          f"call with solver_config={cfg} ({sm}) raises {type(exc).__name__}: {exc}",
                                          {"traceback": tb_tail(exc)}])
            rep["evaluations"] += len(Q)
        rep["histories"] += 1
        bad = False
        if dict(M.NUMERICS) != DOCUMENTED_NUMERICS:
            rep["violations"].append([dict(key, check="module_defaults_changed"),
                                      f"after [{hname}] the module defaults are {dict(M.NUMERICS)!r}", {}])
            bad = True
        try:
            again = default_calls()
            for variant in VARIANTS:
                if not np.array_equal(again[variant], base[variant], equal_nan=True):
                    d = np.abs(again[variant] - base[variant])
                    rep["violations"].append([
                        dict(key, check="default_call_changed_by_history", variant=variant),
                        f"{variant}: default call after [{hname}] differs from the same call before it "
                        f"(max |dD| = {float(np.nanmax(d)):.3g}, {int((d > 0).any(-1).sum())} members)", {}])
                    bad = True
        except Exception as exc:  # noqa
            rep["violations"].append([dict(key, check="default_call_raises_after_history", exception=type(exc).__name__),
                                      f"default call after [{hname}] raises {type(exc).__name__}: {exc}",
                                      {"traceback": tb_tail(exc)}])
            bad = True
        if bad:
            rep["stopped_after"] = hname
            break
    return rep


def run_history(unit):
    import json
    import os
    import subprocess

    c = Collector()
    verif = os.path.dirname(os.path.dirname(os.path.dirname(os.path.abspath(__file__))))
    p = subprocess.run([sys.executable, "-m", "mc.props.c05", "history", unit["tier"]], cwd=verif,
                       capture_output=True, text=True, env=dict(os.environ))
    lines = [ln for ln in p.stdout.splitlines() if ln.startswith(HIST_MARK)]
    if p.returncode != 0 or not lines:
        raise RuntimeError(f"history child failed (exit {p.returncode}): {p.stderr[-1500:]}")
    rep = json.loads(lines[-1][len(HIST_MARK):])
    if rep["harness_error"]:
        raise AssertionError(rep["harness_error"])
    for key, what, detail in rep["violations"]:
        c.violation(key, what, **detail)
    c.evaluations += rep["evaluations"]
    c.cat("history_custom_config_then_default", rep["histories"])
    c.cat("history_custom_call_raised_not_converged(documented)", rep["custom_calls_raising_not_converged"])
    c.nontriv(n=rep["histories"])
    c.case({"history": True, "tier": unit["tier"]})
    c.sample({"history": "default ; newton:no_mem_fallback ; default", "members": rep["members"], "N": 36,
              "fresh_interpreter": True})
    return c.result()


ALL_N = list(range(8, 181))


def run_alln(unit):
    """object-level conversion and round trip for EVERY N in 8..180 (the property's range), cheap
    variants only: grid construction, the number of directions, e(f) / m0 reproduction and the
    carried coordinates do not depend on the solver."""
    c = Collector()
    agg = Agg(c)
    variant = unit["variant"]
    method, kw = VARIANTS[variant]
    Qall = coarse_quads().reshape(-1, 4)
    Qm = Qall[classify(Qall) != "realisability_boundary"][:3 * NF].reshape(3, NF, 4)  # boundary: covered elsewhere
    E = energy(3)
    depths = np.array([np.inf, 10.0, 250.0])
    nontriv = 0
    for N in unit["Ns"]:
        keybase = {"variant": variant, "N": N, "grid_origin": "0"}
        s1 = make_1d(FREQ, E, Qm[..., 0], Qm[..., 1], Qm[..., 2], Qm[..., 3], depth=depths)
        try:
            with quiet():
                s2 = robust(lambda: s1.as_frequency_direction_spectrum(
                    N, method=method, solution_method=kw.get("solution_method", "scipy")))
        except Exception as exc:  # noqa
            agg.add(dict(keybase, check="raises", layout="time", exception=type(exc).__name__),
                    f"{variant} N={N}: as_frequency_direction_spectrum raises {type(exc).__name__}: {exc}",
                    traceback=tb_tail(exc))
            continue
        vals = check_object(c, agg, keybase, s1, s2, N, E, Qm, "time")
        if vals is not None:
            e = np.where(E > 0, E, 1.0)[..., None]
            D = (vals / e).reshape(-1, N)[(E > 0).ravel()]
            Qs = Qm.reshape(-1, 4)[(E > 0).ravel()]
            judge(c, agg, variant, Qs, D, np.ones(len(Qs), dtype=bool), N, keybase)
            nontriv += len(Qs)
        c.cat("every_N_8..180", 1)
        c.case({"v": variant, "N": N, "alln": True})
    c.sample({"variant": variant, "N_values": [unit["Ns"][0], "...", unit["Ns"][-1]], "members": "3 spectra x 81 frequencies"})
    c.nontriv(n=nontriv)
    agg.flush()
    return c.result()


def run_unit(unit):
    return {
        "lattice": run_lattice, "vonmises": run_vonmises, "origin": run_origin, "order": run_order, "shapes": run_shapes, "alln": run_alln, "history": run_history, "adjacent": run_adjacent,
        "object": run_object,
    }[unit["kind"]](unit)


if __name__ == "__main__":
    if len(sys.argv) >= 3 and sys.argv[1] == "history":
        import json as _json

        _rep = history_child(sys.argv[2])
        sys.stdout.write("\n" + HIST_MARK + _json.dumps(_rep) + "\n")
