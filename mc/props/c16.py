"""C16  Synthetic surface time series carry the spectrum's variance and are reproducible.

Engine E1 (product-space enumeration).  Alphabet: structured 1D spectra (triangular peak with
energy at f=0, ramp with non-zero end values, a word over {0,1,3}, unit impulses at the first /
an interior / the last node) on a uniform grid that contains f=0 and on a non-uniform grid that
starts above 0; 2D spectra with all energy in ONE direction bin, for every bin of uniform
direction grids with N = 8 and 12 bins (thorough: also N = 5 starting at 10 degrees, so that no
bin direction is a multiple of 15 degrees); sampling rate x signal length (even and odd) x all
six components x seeds {0, 1, 2**32-1} x scale factors.  Two further families on named restrictions:
direction grids that do not start at 0 (energy in every bin, the last one included), and every signal
length of a contiguous range for dyadic and non-dyadic sampling rates with energy at the Nyquist
frequency (the number of FFT bins must not depend on float rounding of the frequency grid).
Two families in which the SAME spectrum object is used more than once: spectra defined exactly on the
FFT grid of the request, and all histories of <= 3 generate / in-place-mutate events on one object.
In every family surface_timeseries must leave the object it was given bit-for-bit unchanged.

Oracle (numpy / math only, nothing imported from the library): the series has as many samples as
its time axis and time[k] = k/fs; the same seed gives bit-identical series, different seeds give
different series; with nfft = 2*floor(n/2) the harmonics k*fs/nfft are orthogonal on the
nfft-point grid, so the population variance of the series equals
    z: sum_{k>=1} E_k df dtheta       w: sum (2 pi f_k)^2 E_k df dtheta
    x, y: cos^2, sin^2 (bin direction) times the z value;  u, v: the same split of the w value
where E_k is the variance density linearly interpolated onto f_k = k*fs/nfft (zero outside the
original grid), df = fs/nfft (the library's frequency_step of a uniform grid) and dtheta = 360/N
(direction_step of a uniform direction grid; 1 for 1D spectra).  For 1D spectra no direction is
defined, so only the sums var(x)+var(y) = var(z) and var(u)+var(v) = var(w) are demanded.
Scaling the spectrum by c must scale the series (same seed) by sqrt(c), sample by sample.
"""
import math

import numpy as np

from mc.common import Collector, make_1d, make_2d

ID = "C16"
LEVEL = "exploration"
RULE = (
    "full Cartesian product spectrum (1D: 2 grids x 6 shapes; 2D: every single-direction-bin spectrum of the "
    "N=8 and N=12 grids (thorough: and of an offset N=5 grid) x 2 frequency shapes) x sampling rate "
    "{0.5,1,2.5,10} (thorough: +1.28) x signal length {8,9,16,17,100,101,1000} (thorough: +19999,20000) x component "
    "{z,w,x,y,u,v} x seed {0,1,2**32-1} (thorough: +2**31-1); every member is generated twice with the same seed and once per scale "
    "factor c (quick {0.3}; thorough {4,0.3}). Offset family: every bin (the last included) of N=8 direction grids "
    "with origin 7.5, 350 (stored wrapped: 350,35,80,..), -180, -170 x all rates x all components on the named "
    "restriction lengths {16,17,100}, seed {1}, no scale / repeat call (thorough: lengths {16,17,100,1000}, all "
    "seeds, c=0.3). Dense family: a ramp spectrum on a 0..6 Hz grid (energy at and beyond fs/2) x rates "
    "{0.5,0.7,1,2.5,3.3,10} (thorough: +1.28) x EVERY length 8..260 (thorough: 8..520) x components {z,w} "
    "(thorough: all six, and the 1D spectrum with {z,w}) x seed {1}. Low-energy family: the ramp spectrum (1D on grid B, 2D in bin 1 of N=8) at levels "
    "{1e-6,1e-9,1e-12} x all rates x lengths {16,17,100,1000} x all components x seed {1} x scale c=1e-3 (all "
    "checks are relative to the level). On-grid family: a ramp spectrum (1D, and 2D in bin 1 of N=8) "
    "whose frequency grid is bit-identical to the FFT grid of the request, rates x lengths {16,17,100} (thorough: "
    "+101,1000) x all components x seeds {0,1}, each call repeated on the same object. History family: one 1D "
    "and one 2D object, every event sequence of length <= 3 that ends with a generate over {generate(comp, fs, n, "
    "seed 1): comp in {z,w} (thorough: all six), (fs,n) in {(2.5,100),(1.0,17)}} U {multiply(inplace) x4, assign "
    "0.25*density, write the reversed density into the existing buffer}; after every generate the series must have "
    "the variance of the object's CURRENT density and equal the series of a fresh equal-valued object; every call of "
    "every family checks that the spectrum object is bit-for-bit unchanged. A member is non-trivial when the reference variance of that "
    "component is > 0 (resampled spectrum has energy at some k>=1 and the component's direction factor is not "
    "zero); distinct = distinct (spectrum, fs, nfft, component, seed) - an odd length and the even length below "
    "it are the same case."
)
ASSUMPTIONS = [
    "lattice, not continuum: nothing is claimed for spectra, rates, lengths or seeds outside the stated alphabets",
    "nfft = 2*floor(signal_length/2): an odd length loses one sample by construction; 'as many samples as its "
    "time axis' is checked on the returned (time, series) pair",
    "the resampled spectrum is the piecewise linear interpolant of the variance density on k*fs/nfft, "
    "k=0..nfft/2-1, zero outside the original grid; a target frequency within 1e-12 (relative) of the first/last "
    "grid node may be counted inside or outside (both answers accepted)",
    "sample variance = population variance (mean removed, divisor nfft); uniform direction grids only "
    "(direction_step = 360/N)",
    "seed=None (OS entropy) is not enumerated",
]
REQUIRED_CATEGORIES = [
    "1d", "2d", "even_length", "odd_length", "f0_energy_excluded", "both_horizontal_nonzero",
    "one_horizontal_zero", "beyond_grid_zero_bins", "below_grid_zero_bins", "endpoint_ambiguous",
    "zero_variance_trivial", "seed_pairs_compared", "scaled_series_compared", "same_seed_compared",
    "energy_at_nyquist_excluded", "dense_lengths", "offset_grid_last_bin", "offset_grid_other_bin",
    "operand_unchanged_checked", "spectrum_on_fft_grid", "low_energy_level", "variance_below_1e-8", "histories", "history_generate_after_mutation",
    "history_same_request_after_mutation",
]

SEEDS = [0, 1, 2 ** 32 - 1]
SEEDS_THOROUGH = [0, 1, 2 ** 31 - 1, 2 ** 32 - 1]  # 2**31-1: a seed truncated to 31 bits collides with 2**32-1
COMPONENTS = ["z", "w", "x", "y", "u", "v"]

GRID_A = np.linspace(0.0, 1.0, 21)  # contains f = 0
GRID_B = np.array([0.04, 0.05, 0.07, 0.1, 0.13, 0.17, 0.2, 0.25, 0.3, 0.36, 0.42, 0.5, 0.6, 0.75, 1.0, 1.3])
GRID_W = np.linspace(0.0, 6.0, 25)  # wide: energy at and beyond fs/2 for every sampling rate
GRIDS = {"A": GRID_A, "B": GRID_B, "W": GRID_W}
WORD = [0.0, 1.0, 3.0, 1.0, 0.0, 0.0, 3.0]


def shape_values(name, f):
    n = len(f)
    if name == "peak":
        e = np.maximum(0.0, 1.0 - np.abs(f - 0.25) / 0.15) * 2.0
        e[0] = 0.5  # energy in the lowest node (f = 0 on grid A)
        return e
    if name == "ramp":
        return 0.2 + f
    if name == "word":
        return np.array([WORD[k % len(WORD)] for k in range(n)])
    if name == "imp_first":
        e = np.zeros(n); e[0] = 2.0
        return e
    if name == "imp_mid":
        e = np.zeros(n); e[n // 3] = 2.0
        return e
    if name == "imp_last":
        e = np.zeros(n); e[-1] = 2.0
        return e
    raise ValueError(name)


SHAPES_1D = ["peak", "ramp", "word", "imp_first", "imp_mid", "imp_last"]
SHAPES_2D = [("A", "peak"), ("B", "ramp")]


def dir_grids(tier):
    g = {"N8": np.arange(8) * 45.0, "N12": np.arange(12) * 30.0}
    if tier == "thorough":
        g["N5o"] = 10.0 + np.arange(5) * 72.0
    return g


# direction grids that do not start at 0 (offset family): 7.5.., a rotated grid stored in wrapped,
# hence unsorted, form (350, 35, 80, ...), and the -180.. / -170.. conventions
OFFSET_ORIGINS = [7.5, 350.0, -180.0, -170.0]
LOW_LEVELS = [1e-6, 1e-9, 1e-12]


def offset_grid(origin, n=8):
    d = origin + np.arange(n) * 360.0 / n
    return d % 360.0 if origin > 0 else d


def dense_axes(tier):
    """dense family: every even and odd signal length in a contiguous range (the number of FFT bins
    is where float rounding of the frequency grid can go wrong), dyadic and non-dyadic rates."""
    rates = [0.5, 0.7, 1.0, 2.5, 3.3, 10.0] + ([1.28] if tier == "thorough" else [])
    lengths = list(range(8, 261 if tier == "quick" else 521))
    comps = ["z", "w"] if tier == "quick" else list(COMPONENTS)
    return rates, lengths, comps


def axes(tier):
    fs = [0.5, 1.0, 2.5, 10.0]
    ln = [8, 9, 16, 17, 100, 101, 1000]
    sc = [0.3]
    if tier == "thorough":
        fs = fs + [1.28]
        ln = ln + [19999, 20000]
        sc = [4.0, 0.3]
    return fs, ln, sc


def units(tier):
    """One unit = (spectrum family part, sampling rate): 1D shapes in pairs, direction bins in
    chunks of four, so that the 16 workers are evenly loaded.  Units of the offset and dense
    families carry their own (restricted) length / seed / scale / component axes."""
    fs, ln, sc = axes(tier)
    us = []
    for rate in fs:
        for g in ("A", "B"):
            for p in range(0, len(SHAPES_1D), 2):
                us.append({"name": f"1d:{g}:{'+'.join(SHAPES_1D[p:p + 2])}:fs{rate}", "kind": "1d", "grid": g,
                           "shapes": SHAPES_1D[p:p + 2], "fs": rate, "cost": 5})
        for dg, d in dir_grids(tier).items():
            for g, sh in SHAPES_2D:
                for b in range(0, len(d), 4):
                    bins = list(range(b, min(b + 4, len(d))))
                    us.append({"name": f"2d:{dg}:{g}{sh}:bins{bins[0]}-{bins[-1]}:fs{rate}", "kind": "2d", "dgrid": dg,
                               "grid": g, "shape": sh, "bins": bins, "fs": rate, "cost": len(bins)})
        # offset family: every bin (the last one included) of N=8 grids with another origin
        for origin in OFFSET_ORIGINS:
            u = {"name": f"2d:off{origin}:Bramp:fs{rate}", "kind": "2d", "origin": origin, "grid": "B", "shape": "ramp",
                 "bins": list(range(8)), "fs": rate, "cost": 1}
            if tier == "quick":
                u.update(lengths=[16, 17, 100], seeds=[1], scales=[], repeat=False)
            else:
                u.update(lengths=[16, 17, 100, 1000], scales=[0.3], cost=4)
            us.append(u)
    # on-grid family: the spectrum's own frequency grid IS the FFT grid of the request
    for rate in fs:
        for n in ([16, 17, 100] if tier == "quick" else [16, 17, 100, 101, 1000]):
            for kind, extra in (("1d", {"shapes": ["ramp"]}), ("2d", {"dgrid": "N8", "bins": [1]})):
                u = {"name": f"ongrid:{kind}:fs{rate}:n{n}", "kind": kind, "grid": f"fft(fs={rate},n={n})", "shape": "ramp",
                     "ongrid": n, "fs": rate, "lengths": [n], "seeds": [0, 1], "scales": [], "family": "ongrid", "cost": 1}
                u.update(extra)
                us.append(u)
    # low-energy family: the same ramp spectra at levels 1e-6 .. 1e-12 (every law is relative: no absolute
    # threshold may decide which bins take part), and a scale factor that moves the level again
    for rate in fs:
        for level in LOW_LEVELS:
            for kind, extra in (("1d", {"shapes": ["ramp"]}), ("2d", {"dgrid": "N8", "bins": [1]})):
                u = {"name": f"low:{kind}:level{level}:fs{rate}", "kind": kind, "grid": "B", "shape": "ramp", "level": level,
                     "fs": rate, "lengths": [16, 17, 100, 1000], "seeds": [1], "scales": [1e-3], "family": "low", "cost": 1}
                u.update(extra)
                us.append(u)
    # history family: one object, every sequence of <= 3 generate / in-place-mutate events
    for kind in ("1d", "2d"):
        for i in range(len(history_events(tier))):  # sharded by the first event
            us.append({"name": f"history:{kind}:first{i}", "kind": "history", "object": kind, "first": i, "fs": 0.0,
                       "cost": 3 if kind == "1d" else 1})
    rates, lengths, comps = dense_axes(tier)
    for rate in rates:
        kinds = [("2d", {"dgrid": "N8", "bins": [1]})]
        if tier == "thorough":
            kinds.append(("1d", {"shapes": ["ramp"]}))
        for kind, extra in kinds:
            for h in range(0, len(lengths), 128):
                chunk = lengths[h:h + 128]
                u = {"name": f"dense:{kind}:Wramp:fs{rate}:n{chunk[0]}-{chunk[-1]}", "kind": kind, "grid": "W", "shape": "ramp",
                     "fs": rate, "lengths": chunk, "components": comps if kind == "2d" else ["z", "w"], "seeds": [1],
                     "scales": [], "repeat": False,
                     "family": "dense", "cost": 2}
                u.update(extra)
                us.append(u)
    return us


# ------------------------------------------------------------------------------------------
# reference model (no library import)
# ------------------------------------------------------------------------------------------
def resample(fgrid, e, fs, nfft, nbins=None):
    """Variance density on k*fs/nfft, k=0..nbins-1 (default nfft/2): (f_k, lower, upper); lower/upper
    differ only where a target frequency coincides (to 1e-12) with the first/last grid node."""
    df = fs / nfft
    fr = np.arange(nfft // 2 if nbins is None else nbins) * df
    mid = np.interp(fr, fgrid, e, left=0.0, right=0.0)
    lo = mid.copy()
    hi = mid.copy()
    amb = 0
    for end in (0, -1):
        fe = float(fgrid[end])
        near = np.abs(fr - fe) <= 1e-12 * max(fe, df)
        if np.any(near) and e[end] != 0.0:
            lo[near] = 0.0
            hi[near] = float(e[end])
            amb += int(np.sum(near[1:]))  # k = 0 does not enter the variance
    return fr, lo, hi, amb


def reference(fgrid, e, fs, n, dtheta, theta_deg, nfft=None, nbins=None):
    """Reference variances for the six components; theta_deg None for a 1D spectrum.  By default for
    the stated construction (nfft = 2*floor(n/2) samples, harmonics k < nfft/2)."""
    if nfft is None:
        nfft = 2 * (n // 2)
    df = fs / nfft
    fr, lo, hi, amb = resample(fgrid, e, fs, nfft, nbins)
    om2 = (2.0 * math.pi * fr) ** 2
    area = df * dtheta
    vz = (float(np.sum(lo[1:]) * area), float(np.sum(hi[1:]) * area))
    vw = (float(np.sum(om2[1:] * lo[1:]) * area), float(np.sum(om2[1:] * hi[1:]) * area))
    m0sq = float(hi[0]) * area / 2.0  # bound on the squared mean (k = 0 amplitude)
    out = {"z": vz, "w": vw, "nfft": nfft, "df": df, "m0sq": m0sq, "amb": amb,
           "zero_bins_above": int(np.sum(fr > fgrid[-1] * (1 + 1e-12))),
           "zero_bins_below": int(np.sum(fr[1:] < fgrid[0] * (1 - 1e-12)))}
    if theta_deg is not None:
        c2 = math.cos(math.radians(theta_deg)) ** 2
        s2 = math.sin(math.radians(theta_deg)) ** 2
        out["x"] = (c2 * vz[0], c2 * vz[1])
        out["y"] = (s2 * vz[0], s2 * vz[1])
        out["u"] = (c2 * vw[0], c2 * vw[1])
        out["v"] = (s2 * vw[0], s2 * vw[1])
        out["c2"], out["s2"] = c2, s2
    return out


def popvar(z):
    z = np.asarray(z, dtype=float)
    return float(np.mean((z - np.mean(z)) ** 2))


# ------------------------------------------------------------------------------------------
def spectra_for(unit):
    """-> list of (spectrum key, builder(scale) -> spectrum object, fgrid, E(f) of the one
    energetic direction bin (or the 1D density), dtheta, theta_deg or None)."""
    tier = unit["tier"]
    out = []
    if "ongrid" in unit:
        # the spectrum is defined exactly on the FFT grid of the request (bit-identical nodes)
        nfft = 2 * (unit["ongrid"] // 2)
        fgrid_unit = np.linspace(0, 0.5 * unit["fs"], nfft // 2, endpoint=False)
    else:
        fgrid_unit = GRIDS[unit["grid"]]
    if unit["kind"] == "1d":
        f = fgrid_unit
        for sh in unit["shapes"]:
            e = shape_values(sh, f) * unit.get("level", 1.0)

            def build(scale, f=f, e=e, g=unit["grid"]):
                if g == "B":  # with directional moments, to show that they play no role
                    h = np.full(len(f), 0.5)
                    return make_1d(f, e * scale, a1=h, b1=h, a2=0 * h, b2=0 * h)
                return make_1d(f, e * scale)

            skey = {"kind": "1d", "grid": unit["grid"], "shape": sh}
            if "level" in unit:
                skey["level"] = unit["level"]
            out.append((skey, build, f, e, 1.0, None))
    else:
        f = fgrid_unit
        d = offset_grid(unit["origin"]) if "origin" in unit else dir_grids(tier)[unit["dgrid"]]
        dname = f"off{unit['origin']}" if "origin" in unit else unit["dgrid"]
        e = shape_values(unit["shape"], f) * unit.get("level", 1.0)
        nd = len(d)
        for j in unit["bins"]:
            def build(scale, f=f, e=e, d=d, j=j, nd=nd):
                e2 = np.zeros((len(f), nd))
                e2[:, j] = e * scale
                return make_2d(f, d, e2)

            skey = {"kind": "2d", "dgrid": dname, "grid": unit["grid"], "shape": unit["shape"], "bin": j}
            if "level" in unit:
                skey["level"] = unit["level"]
            out.append((skey, build, f, e, 360.0 / nd, float(d[j])))
    return out


def run_unit(unit):
    from ocean_science_utilities.wavespectra.timeseries import surface_timeseries

    if unit["kind"] == "history":
        return run_history(unit)
    c = Collector()
    tier = unit["tier"]
    _, lengths, scales = axes(tier)
    fs = unit["fs"]
    seeds = SEEDS_THOROUGH if tier == "thorough" else SEEDS
    # restricted axes of the offset / dense families (named in RULE)
    lengths = unit.get("lengths", lengths)
    scales = unit.get("scales", scales)
    seeds = unit.get("seeds", seeds)
    components = unit.get("components", COMPONENTS)
    repeat = unit.get("repeat", True)

    def gen(key, comp, n, spec, seed):
        try:
            t, s = surface_timeseries(comp, fs, n, spec, seed=seed)
            return np.asarray(t), np.asarray(s)
        except Exception as exc:  # noqa
            import traceback

            c.violation(dict(key, check="raises"), f"surface_timeseries raised {type(exc).__name__}: {exc}",
                        traceback=traceback.format_exc()[-1500:])
            return None

    for skey, build, fgrid, e, dtheta, theta in spectra_for(unit):
        spec = build(1.0)
        fp0 = fingerprint(spec)
        scaled = {sc: build(sc) for sc in scales}
        is2d = theta is not None
        for n in lengths:
            ref = reference(fgrid, e, fs, n, dtheta, theta)
            nfft = ref["nfft"]
            var = {}
            for comp in components:
                series = {}
                for seed in seeds:
                    key = dict(skey, fs=fs, n=n, component=comp, seed=seed)
                    c.evaluations += 1
                    c.case(key)
                    r = gen(key, comp, n, spec, seed)
                    # ---- a generator must not modify its input ---------------------------------
                    c.cat("operand_unchanged_checked")
                    if fingerprint(spec) != fp0:
                        c.violation(dict(key, check="operand modified"),
                                    "surface_timeseries changed the spectrum object it was given: " + fp_diff(fp0, fingerprint(spec)))
                        spec = build(1.0)
                    if r is None:
                        continue
                    t, z = r
                    # ---- shape / time axis ------------------------------------------------
                    if z.ndim != 1 or t.ndim != 1 or len(z) != len(t):
                        c.violation(dict(key, check="length"),
                                    f"series has shape {z.shape}, time axis {t.shape} (requested {n})",
                                    series_shape=list(z.shape), time_shape=list(t.shape))
                        continue
                    kk = np.arange(len(t))
                    if not np.all(np.abs(t - kk / fs) <= 1e-12 * (kk / fs)):
                        bad = int(np.argmax(np.abs(t - kk / fs)))
                        c.violation(dict(key, check="time axis"), f"time[{bad}]={t[bad]!r} != {bad}/fs={bad / fs!r}")
                    if len(z) not in (n, nfft):
                        c.violation(dict(key, check="length"),
                                    f"series has {len(z)} samples; requested {n} (even truncation {nfft})")
                        continue
                    alts = [ref]
                    if len(z) != nfft:
                        # an implementation that honours odd lengths: the identity holds for any set of
                        # harmonics of the n-point grid, with or without the highest one
                        c.cat("odd_full_length")
                        alts = [reference(fgrid, e, fs, n, dtheta, theta, nfft=n, nbins=nb_) for nb_ in ((n - 1) // 2, (n + 1) // 2)]
                    if not np.all(np.isfinite(z)):
                        c.violation(dict(key, check="finite"), "series contains non-finite samples")
                        continue
                    c.cat("odd_length" if n % 2 else "even_length")
                    c.cat("2d" if is2d else "1d")
                    series[seed] = z
                    # ---- same seed => identical ---------------------------------------------
                    r2 = gen(key, comp, n, spec, seed) if repeat else None
                    if r2 is not None:
                        c.cat("same_seed_compared")
                        if not (np.array_equal(r2[1], z) and np.array_equal(r2[0], t)):
                            c.violation(dict(key, check="same seed"), "two calls with the same seed differ",
                                        max_abs_diff=float(np.max(np.abs(r2[1] - z))) if r2[1].shape == z.shape else None)
                    # ---- variance -----------------------------------------------------------
                    v = popvar(z)
                    var[(comp, seed)] = v
                    var[("alts", seed)] = alts
                    amax = float(np.max(np.abs(z)))
                    if is2d or comp in ("z", "w"):
                        ok_any = False
                        for ra in alts:
                            lo, hi = ra[comp]
                            vtot = ra["z"][1] if comp in ("z", "x", "y") else ra["w"][1]
                            tol = 1e-10 * hi + 1e-13 * vtot + 1e-12 * ra["m0sq"]
                            ok_any = ok_any or (lo - tol <= v <= hi + tol)
                        lo, hi = alts[0][comp]
                        vtot = alts[0]["z"][1] if comp in ("z", "x", "y") else alts[0]["w"][1]
                        if not ok_any:
                            c.violation(
                                dict(key, check="variance"),
                                f"var({comp})={v!r}, spectral variance of the resampled spectrum {lo!r}"
                                + ("" if lo == hi else f"..{hi!r}") + f" (ratio {v / hi if hi else float('nan'):.12g})",
                                variance=v, reference=[lo, hi], nfft=len(z), df=alts[0]["df"], theta=theta,
                            )
                        nontrivial = lo > 1e-13 * vtot and lo > 0
                    else:
                        nontrivial = ref["z"][0] > 0  # judged on the pair sums below
                    if nontrivial:
                        c.nontriv((json_key(skey), fs, nfft, comp, seed))
                    else:
                        c.cat("zero_variance_trivial")
                    # ---- scaling ------------------------------------------------------------
                    for sc, sspec in scaled.items():
                        rs = gen(dict(key, scale=sc), comp, n, sspec, seed)
                        if rs is None:
                            continue
                        c.cat("scaled_series_compared")
                        zs = rs[1]
                        if zs.shape != z.shape or not np.all(
                            np.abs(zs - math.sqrt(sc) * z) <= 1e-12 * math.sqrt(sc) * amax
                        ):
                            err = float(np.max(np.abs(zs - math.sqrt(sc) * z))) if zs.shape == z.shape else None
                            c.violation(dict(key, check="scaling", scale=sc),
                                        f"series of {sc}*E is not sqrt({sc}) * series of E (max abs error {err}, max|z| {amax})")
                # ---- different seeds => different series --------------------------------------
                expected_signal = (ref[comp][0] if (is2d or comp in ("z", "w")) else ref["z"][0]) > 0
                if is2d and comp in ("x", "u"):
                    expected_signal = expected_signal and ref["c2"] > 1e-9
                if is2d and comp in ("y", "v"):
                    expected_signal = expected_signal and ref["s2"] > 1e-9
                if not is2d and comp in ("x", "y", "u", "v"):
                    expected_signal = False  # which of the pair carries the signal is not stated for 1D
                if expected_signal:
                    for a in range(len(seeds)):
                        for b in range(a + 1, len(seeds)):
                            sa, sb = seeds[a], seeds[b]
                            if sa in series and sb in series:
                                c.cat("seed_pairs_compared")
                                if np.array_equal(series[sa], series[sb]):
                                    c.violation(dict(skey, fs=fs, n=n, component=comp, check="seeds differ", seeds=[sa, sb]),
                                                f"seeds {sa} and {sb} give the identical series")
            # ---- 1D: horizontal pairs carry the elevation / velocity variance between them ----
            if not is2d:
                for seed in seeds:
                    for pa, pb, tot in (("x", "y", "z"), ("u", "v", "w")):
                        if (pa, seed) in var and (pb, seed) in var:
                            s = var[(pa, seed)] + var[(pb, seed)]
                            ok_any = False
                            for ra in var[("alts", seed)]:
                                lo, hi = ra[tot]
                                tol = 1e-10 * hi + 1e-12 * ra["m0sq"]
                                ok_any = ok_any or (lo - tol <= s <= hi + tol)
                            lo, hi = var[("alts", seed)][0][tot]
                            if not ok_any:
                                c.violation(dict(skey, fs=fs, n=n, component=pa + "+" + pb, seed=seed, check="variance"),
                                            f"var({pa})+var({pb})={s!r} but the spectral variance is {lo!r}..{hi!r}",
                                            reference=[lo, hi], nfft=nfft)
            # ---- categories (per spectrum x length) -----------------------------------------------
            if ref["m0sq"] > 0:
                c.cat("f0_energy_excluded")
            if float(np.interp(0.5 * fs, fgrid, e, left=0.0, right=0.0)) > 0:
                c.cat("energy_at_nyquist_excluded")
            if unit.get("family") == "dense":
                c.cat("dense_lengths")
            if unit.get("family") == "ongrid":
                c.cat("spectrum_on_fft_grid")
            if unit.get("family") == "low":
                c.cat("low_energy_level")
                if ref["z"][1] * unit["scales"][0] < 1e-8:
                    c.cat("variance_below_1e-8")
            if "origin" in unit:
                c.cat("offset_grid_last_bin" if skey["bin"] == 7 else "offset_grid_other_bin")
            c.cat("endpoint_ambiguous", ref["amb"])
            c.cat("beyond_grid_zero_bins", ref["zero_bins_above"])
            c.cat("below_grid_zero_bins", ref["zero_bins_below"])
            if is2d:
                if ref["c2"] > 1e-9 and ref["s2"] > 1e-9:
                    c.cat("both_horizontal_nonzero")
                else:
                    c.cat("one_horizontal_zero")
        ns = lengths[min(4, len(lengths) - 1)]
        rs = reference(fgrid, e, fs, ns, dtheta, theta)
        if rs["z"][0] > 0:
            c.sample({"spectrum": skey, "fs": fs, "n": ns, "component": "z", "seeds": seeds,
                      "reference_variance_z": rs["z"][0], "reference_variance_w": rs["w"][0], "df": rs["df"]})
    return c.result()


def fingerprint(spec):
    """Every variable and coordinate of the spectrum object, bit for bit."""
    ds = spec.dataset
    return tuple((str(k), tuple(ds[k].dims), str(ds[k].dtype), ds[k].values.tobytes()) for k in sorted(ds.variables, key=str))


def fp_diff(a, b):
    da, db = {x[0]: x for x in a}, {x[0]: x for x in b}
    return "variables that differ: " + ", ".join(sorted(k for k in set(da) | set(db) if da.get(k) != db.get(k)))


# ------------------------------------------------------------------------------------------
# history family: the same spectrum object is used, changed in place, and used again
# ------------------------------------------------------------------------------------------
HISTORY_REQUESTS = [(2.5, 100), (1.0, 17)]
MUTATORS = ["multiply_inplace_x4", "assign_x0.25", "buffer_write_reversed"]


def history_events(tier):
    comps = ["z", "w"] if tier == "quick" else list(COMPONENTS)
    return [("gen", comp, fs, n) for fs, n in HISTORY_REQUESTS for comp in comps] + [("mut", m) for m in MUTATORS]


def apply_mutator(spec, e, name):
    """Change the spectrum object in place; returns the variance density the object now holds
    (model: plain numpy on the harness's own copy)."""
    if name == "multiply_inplace_x4":
        spec.multiply(np.full(spec.shape(), 4.0), inplace=True)
        return e * 4.0
    if name == "assign_x0.25":
        spec.dataset["variance_density"] = spec.dataset["variance_density"] * 0.25
        return e * 0.25
    if name == "buffer_write_reversed":
        buf = spec.dataset["variance_density"].values
        buf[...] = buf[::-1].copy()  # reversed along frequency, written into the existing buffer
        return e[::-1].copy()
    raise ValueError(name)


def run_history(unit):
    import itertools

    from ocean_science_utilities.wavespectra.timeseries import surface_timeseries

    c = Collector()
    tier = unit["tier"]
    is2d = unit["object"] == "2d"
    f = GRID_B
    e0 = shape_values("ramp", f)
    nd, jbin = 8, 1
    d = np.arange(nd) * 45.0
    dtheta, theta = (45.0, float(d[jbin])) if is2d else (1.0, None)
    seed = 1

    def build(e):
        if is2d:
            e2 = np.zeros((len(f), nd))
            e2[:, jbin] = e
            return make_2d(f, d, e2)
        return make_1d(f, e)

    events = history_events(tier)
    nhist = 0
    for length in (1, 2, 3):
        for seq in itertools.product(events, repeat=length):
            if seq[0] != events[unit["first"]]:
                continue  # another shard
            if seq[-1][0] != "gen":
                continue  # named restriction: a history ends with a generate (its prefixes cover the rest)
            nhist += 1
            names = [ev[1] if ev[0] == "mut" else f"gen({ev[1]},fs={ev[2]},n={ev[3]})" for ev in seq]
            spec = build(e0)
            e = e0.copy()
            mutated = False
            c.case(names)
            for step, ev in enumerate(seq):
                if ev[0] == "mut":
                    e = apply_mutator(spec, e, ev[1])
                    mutated = True
                    c.cat("history_mutations")
                    continue
                _, comp, fs, n = ev
                key = {"family": "history", "object": unit["object"], "history": names, "step": step}
                c.evaluations += 1
                fp = fingerprint(spec)
                try:
                    t, z = surface_timeseries(comp, fs, n, spec, seed=seed)
                    zf = surface_timeseries(comp, fs, n, build(e), seed=seed)[1]
                except Exception as exc:  # noqa
                    import traceback

                    c.violation(dict(key, check="raises"), f"surface_timeseries raised {type(exc).__name__}: {exc}",
                                traceback=traceback.format_exc()[-1500:])
                    break
                z = np.asarray(z)
                zf = np.asarray(zf)
                if fingerprint(spec) != fp:
                    c.violation(dict(key, check="operand modified"),
                                "surface_timeseries changed the spectrum object it was given: " + fp_diff(fp, fingerprint(spec)))
                ref = reference(f, e, fs, n, dtheta, theta)
                # 1D object: which horizontal component carries the signal is not stated -> only the
                # fresh-object comparison applies to x, y, u, v
                lo, hi = ref[comp] if comp in ref else (0.0, float("inf"))
                vtot = ref["z"][1] if comp in ("z", "x", "y") else ref["w"][1]
                tol = 1e-10 * (hi if comp in ref else 0.0) + 1e-13 * vtot + 1e-12 * ref["m0sq"]
                v = popvar(z)
                if z.shape != (ref["nfft"],) or not (lo - tol <= v <= hi + tol):
                    c.violation(dict(key, check="variance"),
                                f"after {names[:step]}: var({comp})={v!r}, the object's current variance density implies {lo!r}"
                                + ("" if lo == hi else f"..{hi!r}") + f" (ratio {v / hi if hi else float('nan'):.12g})",
                                variance=v, reference=[lo, hi])
                amax = float(np.max(np.abs(zf))) if zf.size else 0.0
                if zf.shape != z.shape or not np.all(np.abs(z - zf) <= 1e-12 * amax):
                    err = float(np.max(np.abs(z - zf))) if zf.shape == z.shape else None
                    c.violation(dict(key, check="fresh object"),
                                f"after {names[:step]}: the series differs from the one a fresh object with the same variance "
                                f"density gives for the same seed (max abs difference {err}, max|z| {amax})")
                c.cat("history_generate_after_mutation" if mutated else "history_generate_unmutated")
                if step > 0 and any(x[0] == "gen" and x[2:] == ev[2:] for x in seq[:step]) and mutated:
                    c.cat("history_same_request_after_mutation")
                if lo > 0 or comp not in ref:
                    c.nontriv((unit["object"], tuple(names), step))
    c.cat("histories", nhist)
    c.sample({"family": "history", "object": unit["object"], "events": [str(ev) for ev in events], "histories": nhist,
              "example": ["gen(z,fs=2.5,n=100)", "multiply_inplace_x4", "gen(z,fs=2.5,n=100)"]})
    return c.result()


def json_key(d):
    return tuple(sorted((k, str(v)) for k, v in d.items()))
