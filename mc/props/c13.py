"""C13  Linear interpolation: exact at nodes, bounded, no extrapolation, NaN-aware.

Engine E1 (product-space enumeration on the real code).

What is enumerated (every element of the product, no sampling):

* ``interpolate_dataset_along_axis`` on a non-periodic coordinate:
  grid (explicit non-uniform node sets of 2, 3, 5 [thorough: 8, 12, 40] nodes, ascending and
  descending, dyadic and non-dyadic) x layout (rank 1..4, the interpolated axis in every
  position, passive dims of size 2, 3, 2) x missing-node pattern (every subset of nodes for
  n <= 5 [thorough: n <= 8]; for larger n the empty set, every single node and every pair of nodes at most two
  apart; for rank > 1 a missing node
  is missing for all passive indices) x mode (linear, nearest) x data pattern (every unit impulse,
  a linear ramp, a generic sign-changing sequence, a variable without the coordinate; and, without missing nodes,
  the generic sequence with +-inf at each single node)
  x target (every node, mid point, quarter point, 31/64 and 33/64 of every bin, one ulp either
  side of every node, one ulp inside / outside both ends, far outside), as one array and one by one as scalars.
* non-uniform grids whose first step equals the mean step (they pass a first-step/end-point test for
  equidistance): 4 [thorough: 7] node sets x {ascending, negated (descending), reversed}, and the datetime grid
  00:00:00/08/12/24.
* datetime64 axes of every unit: grid unit {s, ms, us, ns} x target unit {s, ms, us, ns} x coordinate {"time",
  another name} x {ascending, descending}; spectra whose time coordinate is stored as datetime64[s|ms|us].
* the same on datetime64 axes (coordinate "time" with the library's time conversion of the
  targets - datetime64 arrays, datetime lists, scalars - and a datetime64 coordinate with
  another name with one-nanosecond-inside/outside targets).
* ``interpolate_dataset_grid`` with two coordinates in both orders, variables that carry both,
  one or none of the coordinates, targets inside and outside.
* 1D and 2D spectra (three layouts): ``interpolate_frequency`` (linear / nearest),
  ``interpolate`` in time, in frequency and in (time, frequency), extrapolation value
  default / 0 / -1.

Oracle: an independent piecewise-linear reference in exact rational arithmetic
(``fractions.Fraction`` on the float values): bracket by linear scan, weights (1-f, f), the
"valid weight > 1/2" rule, nearest = the nearer node.  Where the statement leaves freedom every
admissible answer is accepted (nearest at exactly half way: either neighbour; a valid weight
that is 1/2 only up to rounding: either rule; a target one ulp outside a descending grid whose
mirrored coordinate is not exactly representable: end value or missing).
"""
import itertools
import traceback
from datetime import datetime, timedelta, timezone
from fractions import Fraction as Fr

import numpy as np

from mc.common import Collector

ID = "C13"
LEVEL = "exploration"
RULE = (
    "full product grid x layout (rank 1..4, interpolated axis in every position) x missing-node subset "
    "(all subsets for n<=5 [thorough n<=8]; above: none, every single node, every pair at most two nodes apart) x mode {linear, nearest} x data pattern "
    "{every unit impulse, ramp, generic, pass-through; +-inf at each single node (no missing nodes)} x target {every node, mid, quarter, 31/64 and 33/64 of every bin, +-1ulp at "
    "every node, 1ulp inside/outside both ends, far outside}, array and scalar targets, float and datetime64 axes; "
    "non-uniform grids with first step == mean step (float asc/desc/reversed, datetime); datetime64 grid unit x target "
    "unit in {s,ms,us,ns}^2 x coordinate {'time', other}; two-coordinate grid interpolation in both orders; 1D/2D spectra x 3 layouts x {time, frequency, time+frequency} "
    "x extrapolation value {default, 0, -1}. One evaluation = one (call, variable, target) triple compared with the "
    "rational reference. A case is non-trivial when the target lies strictly inside a bin (both weights positive) "
    "or a neighbour of the target is missing; distinct = distinct (api, grid, layout, missing subset, mode, target)."
)
ASSUMPTIONS = [
    "explicit grids, not the continuum: nothing is claimed for node sets outside the listed alphabets",
    "for rank > 1 only whole-node-missing patterns are in the oracle (a node that is NaN for some passive indices "
    "only is treated by the code as missing for all of them; the property text does not settle this)",
    "nearest mode at exactly half way: either neighbour is accepted",
    "a valid weight within 1e-12 of 1/2 that is not exactly 1/2 in floating point is accepted either way",
    "descending grids whose mirrored coordinate xp[0]-x is not exactly representable: a target within 1e-12 "
    "(relative to the span) outside an end point may return the end value or missing",
    "time targets for the coordinate named 'time' are whole seconds (the library's time conversion truncates; C17)",
    "spectra are NaN-free on input; moments are compared only where the interpolated energy is non-zero",
    "multi-coordinate interpolation with NaN input is outside the oracle (order dependent, not fixed by the text)",
    "infinite node values: at a node the data value itself is demanded (finite next to an infinite node, the infinity "
    "at it), strictly between a finite and an infinite node that infinity, nearest = value of the nearer node; a "
    "target within 1e-12 of the bin from the finite neighbour may also return that neighbour's value (the weight of "
    "the infinite node may round to zero); +inf next to -inf and inf together with missing nodes are not enumerated "
    "(inf - inf is not decided by the statement); spectra: depth = inf (all / some time stamps) interpolated in time",
]
REQUIRED_CATEGORIES = [
    "at_node", "interior", "outside", "ulp_inside", "ulp_outside", "nan_renormalised", "nan_missing_result",
    "half_way_exact_missing", "nearest_tie", "descending", "datetime_axis", "scalar_target", "passthrough",
    "ramp_exact", "bounded_checked", "grid2_cells", "spectrum_moment", "spectrum_extrapolated", "rank4",
    "inf_node_cases", "inf_at_node_target", "spectrum_inf_depth",
    "first_step_equals_mean_step", "datetime_unit_pairs", "datetime_grid_coarser_than_ns", "spectrum_time_unit",
]

HALF = Fr(1, 2)
AMB = Fr(1, 10 ** 12)
T0 = datetime(2022, 1, 1, tzinfo=timezone.utc)
T0_64 = np.datetime64("2022-01-01T00:00:00", "ns")


# --------------------------------------------------------------------------------------------
# reference model (imports nothing from the library)
# --------------------------------------------------------------------------------------------
def exact(v):
    if isinstance(v, (int, np.integer)):
        return Fr(int(v))
    return Fr(float(v))


def bracket(nodes, t):
    """nodes: strictly monotone list of Fractions, t Fraction.  None when t is outside the
    grid, else (i0, i1, f): t = nodes[i0] + f*(nodes[i1]-nodes[i0]); i0 == i1 at a node."""
    lo = min(nodes[0], nodes[-1])
    hi = max(nodes[0], nodes[-1])
    if t < lo or t > hi:
        return None
    for k, x in enumerate(nodes):
        if x == t:
            return (k, k, Fr(0))
    for k in range(len(nodes) - 1):
        a, b = nodes[k], nodes[k + 1]
        if a < t < b or a > t > b:
            return (k, k + 1, (t - a) / (b - a))
    raise AssertionError("bracket")


def alternatives(br, missing, mode, exact_half):
    """Admissible answers for one target: list of None (missing) / (i0, w0, i1, w1)."""
    if br is None:
        return [None]
    i0, i1, f = br
    if i0 == i1:
        return [None] if i0 in missing else [(i0, 1.0, i0, 0.0)]
    if mode == "linear":
        ws = [(1 - f, f)]
    elif abs(f - HALF) <= AMB:
        ws = [(Fr(1), Fr(0)), (Fr(0), Fr(1))]
    elif f < HALF:
        ws = [(Fr(1), Fr(0))]
    else:
        ws = [(Fr(0), Fr(1))]
    out = []
    for a, b in ws:
        va = Fr(0) if i0 in missing else a
        vb = Fr(0) if i1 in missing else b
        valid = va + vb
        if valid == 1:
            opts = [(i0, float(a), i1, float(b))]
        else:
            ren = (i0, float(va / valid), i1, float(vb / valid)) if valid > 0 else None
            if valid > HALF + AMB:
                opts = [ren]
            elif valid < HALF - AMB:
                opts = [None]
            elif valid == HALF and exact_half:
                opts = [None]
            else:
                opts = [None, ren]
        for o in opts:
            if o not in out:
                out.append(o)
    return out


class Grid:
    """One interpolation axis of the alphabet."""

    def __init__(self, name, nodes, exact_half=None, exact_ends=None, kind="float", coord=None, gunit="ns",
                 tunit="ns"):
        self.name = name
        # float | time_s (coordinate 'time', whole seconds, stored as ns) | time_ns (1 ns resolution) |
        # time_u (whole-second offsets; grid stored as datetime64[gunit], targets given as datetime64[tunit])
        self.kind = kind
        self.coord = coord or {"float": "x", "time_s": "time", "time_ns": "valid_time"}.get(kind)
        self.gunit, self.tunit = gunit, tunit
        self.nodes = list(nodes)  # floats, or integer offsets for time axes
        self.q = [exact(v) for v in self.nodes]
        self.asc = self.nodes[-1] > self.nodes[0]
        self.exact_half = self.asc if exact_half is None else exact_half
        self.exact_ends = (self.asc or self.nodes[0] == 0) if exact_ends is None else exact_ends
        self.n = len(self.nodes)
        self.lo, self.hi = min(self.q), max(self.q)
        self._br = {}

    def coordinate(self):
        if self.kind == "float":
            return np.array(self.nodes, dtype=float)
        if self.kind == "time_u":
            return (T0_64.astype("datetime64[s]") + np.array(self.nodes, dtype="int64")).astype(f"datetime64[{self.gunit}]")
        unit = "s" if self.kind == "time_s" else "ns"
        return T0_64 + np.array(self.nodes, dtype="int64") * np.timedelta64(1, unit)

    def numeric(self):
        """node positions as floats for the ramp"""
        return np.array(self.nodes, dtype=float)

    def target_array(self, tv):
        if self.kind == "float":
            return np.array(tv, dtype=float)
        if self.kind == "time_u":
            return (T0_64.astype("datetime64[s]") + np.array(tv, dtype="int64")).astype(f"datetime64[{self.tunit}]")
        unit = "s" if self.kind == "time_s" else "ns"
        return T0_64 + np.array(tv, dtype="int64") * np.timedelta64(1, unit)

    def targets(self):
        """[(kind, value)] - the complete target alphabet of this grid"""
        nd = self.nodes
        lo, hi = min(nd), max(nd)
        out = [("node", x) for x in nd]
        if self.kind == "float":
            span = hi - lo
            for a, b in zip(nd[:-1], nd[1:]):
                out.append(("mid", a + (b - a) * 0.5))
                out.append(("quarter", a + (b - a) * 0.25))
                out.append(("quarter", a + (b - a) * 0.75))
                out.append(("near_mid", a + (b - a) * (31.0 / 64.0)))
                out.append(("near_mid", a + (b - a) * (33.0 / 64.0)))
            for x in nd[1:-1]:
                out.append(("node_ulp", float(np.nextafter(x, -np.inf))))
                out.append(("node_ulp", float(np.nextafter(x, np.inf))))
            out += [
                ("ulp_in", float(np.nextafter(lo, np.inf))), ("ulp_in", float(np.nextafter(hi, -np.inf))),
                ("ulp_out", float(np.nextafter(lo, -np.inf))), ("ulp_out", float(np.nextafter(hi, np.inf))),
                ("far", lo - 10 * span - 1.0), ("far", hi + 10 * span + 1.0),
            ]
        else:
            span = hi - lo
            for a, b in zip(nd[:-1], nd[1:]):
                assert (b - a) % 4 == 0
                out.append(("mid", a + (b - a) // 2))
                out.append(("quarter", a + (b - a) // 4))
                out.append(("quarter", a + 3 * (b - a) // 4))
                out += [("near_mid", a + (b - a) // 2 - 1), ("near_mid", a + (b - a) // 2 + 1)]
            for x in nd[1:-1]:
                out += [("node_ulp", x - 1), ("node_ulp", x + 1)]
            out += [("ulp_in", lo + 1), ("ulp_in", hi - 1), ("ulp_out", lo - 1), ("ulp_out", hi + 1),
                    ("far", lo - 10 * span - 1), ("far", hi + 10 * span + 1)]
        seen, res = set(), []
        for k, v in out:
            if v not in seen:
                seen.add(v)
                res.append((k, v))
        return res

    def bracket(self, t):
        if t not in self._br:
            self._br[t] = bracket(self.q, exact(t))
        return self._br[t]

    def alts(self, t, missing, mode):
        """admissible answers for target t (float / int offset)"""
        br = self.bracket(t)
        res = alternatives(br, missing, mode, self.exact_half)
        if not self.exact_ends:
            tq = exact(t)
            tol = (self.hi - self.lo) * AMB
            for end in (self.lo, self.hi):
                if tq != end and abs(tq - end) <= tol:
                    k = self.q.index(end)
                    for o in alternatives((k, k, Fr(0)), missing, mode, self.exact_half) + [None]:
                        if o not in res:
                            res.append(o)
        return res

    def table(self, tvals, missing, mode):
        return [self.alts(t, missing, mode) for t in tvals]

    def cond(self, t):
        """bound on (absolute weight error / eps): the code forms x - xp[i] and xp[j] - xp[i] (after mirroring a
        descending grid about xp[0]) in floating point, so a weight is only known to ~eps*max|x|/bin width"""
        if self.kind != "float":
            return 1.0
        br = self.bracket(t)
        if br is None or br[0] == br[1]:
            return 1.0
        a, b = self.nodes[br[0]], self.nodes[br[1]]
        return max(1.0, max(abs(t), abs(a), abs(b), abs(self.nodes[0])) / abs(b - a))

    def conds(self, tvals):
        return np.array([self.cond(t) for t in tvals])


def first_alt_arrays(table):
    m = len(table)
    I0 = np.zeros(m, dtype=int)
    I1 = np.zeros(m, dtype=int)
    W0 = np.zeros(m)
    W1 = np.zeros(m)
    NONE = np.zeros(m, dtype=bool)
    for j, alts in enumerate(table):
        a = alts[0]
        if a is None:
            NONE[j] = True
        else:
            I0[j], W0[j], I1[j], W1[j] = a
    return I0, I1, W0, W1, NONE


def eval_alt(V, alt, cond=1.0):
    """reference values (P,) and tolerance for one alternative on V (n, P)"""
    P = V.shape[1]
    if alt is None:
        return np.full(P, np.nan), np.zeros(P)
    i0, w0, i1, w1 = alt
    ref = np.zeros(P)
    scale = np.zeros(P)
    if w0 > 0:
        ref = ref + w0 * V[i0]
    if w1 > 0:
        ref = ref + w1 * V[i1]
    # weights carry an absolute error of a few eps*cond, so the tolerance scales with the node values
    scale = fabs(V[i0]) + fabs(V[i1])
    tol = np.zeros(P) if i0 == i1 else 1e-12 * cond * scale
    return ref, tol


def matches(R, ref, tol):
    """NaN matches NaN, +-inf matches the same infinity, finite values within tol"""
    R = np.asarray(R, dtype=float)
    ref = np.asarray(ref, dtype=float)
    with np.errstate(invalid="ignore"):
        return (np.isnan(R) & np.isnan(ref)) | (R == ref) | (
            np.isfinite(R) & np.isfinite(ref) & (np.abs(R - ref) <= tol))


def fabs(V):
    """|V| with non-finite entries counted as 0 (tolerance scales must stay finite)"""
    return np.where(np.isfinite(V), np.abs(V), 0.0)


def compare(R, V, table, pre=None, cond=None):
    """R (m, P) library values, V (n, P) node data (NaN where missing), table of alternatives.
    Returns list of failing target indices with (lib, expected alternatives)."""
    I0, I1, W0, W1, NONE = pre if pre is not None else first_alt_arrays(table)
    with np.errstate(invalid="ignore"):
        t0 = np.where(W0[:, None] > 0, W0[:, None] * V[I0], 0.0)
        t1 = np.where(W1[:, None] > 0, W1[:, None] * V[I1], 0.0)
        REF = np.where(NONE[:, None], np.nan, t0 + t1)
        cd = np.ones(len(table)) if cond is None else cond
        TOL = np.where((I0 == I1)[:, None], 0.0,
                       1e-12 * cd[:, None] * (fabs(V[I0]) + fabs(V[I1])))
        ok = np.all(matches(R, REF, TOL), axis=1)
    bad = []
    for j in np.nonzero(~ok)[0]:
        good = False
        for alt in table[j][1:]:
            ref, tol = eval_alt(V, alt, 1.0 if cond is None else cond[j])
            if np.all(matches(R[j], ref, tol)):
                good = True
                break
        if not good:
            bad.append(int(j))
    return bad


# --------------------------------------------------------------------------------------------
# alphabets
# --------------------------------------------------------------------------------------------
def float_grids(tier):
    base = [
        ("g2", [0.0, 4.0], True),
        ("g2n", [0.3, 0.7], False),
        ("g3", [-2.0, 0.0, 8.0], True),
        ("g5", [0.0, 1.0, 3.0, 7.0, 8.0], True),
        ("g5n", [0.1, 0.35, 0.4, 1.7, 3.3], False),
    ]
    if tier == "thorough":
        base += [
            ("g4n", [-3.7, -1.1, 0.2, 12.5], False),
            ("g8", [-4.0, -3.0, -2.5, 0.0, 0.5, 4.5, 5.0, 9.0], True),
            ("g12n", [0.03 * 1.37 ** k for k in range(12)], False),
            ("g40", list(np.cumsum([[1, 2, 4, 1, 0.5][k % 5] for k in range(40)]) - 20.0), True),
            ("g40n", [0.0293 * 1.1 ** k for k in range(40)], False),
        ]
    grids = []
    for name, nodes, dyadic in base:
        grids.append(Grid(name + "_asc", nodes))
        rev = list(reversed(nodes))
        grids.append(Grid(name + "_desc", rev, exact_half=dyadic))
        if dyadic and rev[0] != 0:
            # mirrored about zero: descending with xp[0] == 0, so xp[0]-x is exact (ulp targets decisive)
            shifted = [v - rev[0] for v in rev]
            grids.append(Grid(name + "_desc0", shifted, exact_half=True))
    return grids


def time_grids():
    nodes = [0, 8, 24, 56, 64]
    gs = []
    for kind in ("time_s", "time_ns"):
        gs.append(Grid(f"{kind}_asc", nodes, exact_half=True, exact_ends=True, kind=kind))
        gs.append(Grid(f"{kind}_desc", list(reversed(nodes)), exact_half=True, exact_ends=True, kind=kind))
    return gs


# non-uniform grids whose FIRST step equals the mean step (last-first)/(n-1): they look equidistant to any test that
# only inspects the first step and the end points.  All start at 0, so the negated grid is a descending grid whose
# mirrored coordinate xp[0]-xp is the same node set (and exact).
MEAN_STEP_GRIDS = {
    "quick": [("m4a", [0.0, 1.0, 1.5, 3.0]), ("m4b", [0.0, 2.0, 5.0, 6.0]), ("m5a", [0.0, 2.0, 3.0, 7.0, 8.0]),
              ("m5b", [0.0, 1.0, 3.0, 3.5, 4.0])],
    "thorough": [("m6", [0.0, 2.0, 3.0, 7.0, 9.0, 10.0]), ("m7", [0.0, 0.5, 0.75, 1.0, 2.0, 2.75, 3.0]),
                 ("m8", [0.0, 1.0, 1.5, 2.0, 4.0, 5.5, 6.0, 7.0])],
}


def mean_step_grids(tier):
    gs = []
    for name, nodes in MEAN_STEP_GRIDS["quick"] + (MEAN_STEP_GRIDS["thorough"] if tier == "thorough" else []):
        assert (nodes[1] - nodes[0]) * (len(nodes) - 1) == nodes[-1] - nodes[0] and len(set(np.diff(nodes))) > 1
        gs.append(Grid(name + "_asc", nodes))
        gs.append(Grid(name + "_desc0", [-v for v in nodes], exact_half=True))
        gs.append(Grid(name + "_rev", list(reversed(nodes)), exact_half=True))
    return gs


DT_UNITS = ["s", "ms", "us", "ns"]
DT_NODES = [0, 8, 12, 24]  # seconds; non-uniform with first step == mean step


def unit_time_grids():
    """datetime64 axes of every unit for the grid and for the targets (all 16 pairs), for the coordinate named 'time'
    (targets pass through the library's conversion) and for another datetime coordinate (targets used as given)"""
    gs = []
    for coord in ("time", "valid_time"):
        for gu in DT_UNITS:
            for tu in DT_UNITS:
                for tag, nodes in (("asc", DT_NODES), ("desc", list(reversed(DT_NODES)))):
                    gs.append(Grid(f"dt_{coord}_{gu}_{tu}_{tag}", nodes, exact_half=True, exact_ends=True, kind="time_u",
                                   coord=coord, gunit=gu, tunit=tu))
    return gs


def all_grids(tier):
    return float_grids(tier) + time_grids() + mean_step_grids(tier) + unit_time_grids()


def subsets(n, tier):
    full = 5 if tier == "quick" else 8
    if n <= full:
        for r in range(n + 1):
            for s in itertools.combinations(range(n), r):
                yield frozenset(s)
    else:
        # a target only ever sees two adjacent nodes, so pairs further than two nodes apart act independently:
        # the empty set, every single node, every pair of nodes at most two apart
        yield frozenset()
        for k in range(n):
            yield frozenset([k])
        for k in range(n):
            for d in (1, 2):
                if k + d < n:
                    yield frozenset([k, k + d])


PASSIVE = [("a", 2), ("b", 3), ("c", 2)]
LAYOUTS = [(r, p) for r in range(1, 5) for p in range(r)]
MODES = ["linear", "nearest"]


def gen_values(n):
    k = np.arange(n)
    return ((k * 37 + 11) % 17) - 8.0 + 0.25 * k


def build_vars(grid, r, missing, impulses):
    """name -> (n, P) node data; P = product of the passive sizes"""
    n = grid.n
    P = int(np.prod([s for _, s in PASSIVE[: r - 1]])) if r > 1 else 1
    q = np.arange(P, dtype=float)
    x = grid.numeric()
    out = {}
    out["gen"] = gen_values(n)[:, None] * (1 + 0.5 * q)[None, :] + 3.0 * q[None, :]
    out["ramp"] = (1.0 + q)[None, :] + (2.0 - 0.75 * q)[None, :] * x[:, None]
    if impulses:
        for j in range(n):
            v = np.zeros((n, P))
            v[j, :] = 1.0 + q
            out[f"imp{j}"] = v
    for v in out.values():
        if missing:
            v[sorted(missing), :] = np.nan
    return out, P


def inf_vars(grid, r):
    """one variable per node k: the generic data with node k infinite (+inf for even passive index, -inf for odd).
    Small grids: every node; large grids: first, second, middle, last."""
    n = grid.n
    P = int(np.prod([s for _, s in PASSIVE[: r - 1]])) if r > 1 else 1
    q = np.arange(P, dtype=float)
    ks = range(n) if n <= 12 else sorted({0, 1, n // 2, n - 1})
    out = {}
    for k in ks:
        v = gen_values(n)[:, None] * (1 + 0.5 * q)[None, :] + 3.0 * q[None, :]
        v[k, :] = np.where(q % 2 == 0, np.inf, -np.inf)
        out[f"inf{k}"] = v
    return out


def inf_table(grid, tvals, table, k):
    """Admissible answers when node k holds an infinite value (no missing nodes).  What the statement decides:
    at a node the data value itself (finite next to the infinite node, the infinity at it); strictly between a
    finite and the infinite node the linear value is that infinity; nearest = the value of the nearer node.  Not
    decided: a target so close to the finite neighbour (relative 1e-12 of the bin) that the weight of the infinite
    node may round to exactly zero - there the neighbour's value is accepted as well."""
    out = []
    for t, alts in zip(tvals, table):
        br = grid.bracket(t)
        alts = list(alts)
        if br is not None and br[0] != br[1] and k in (br[0], br[1]):
            i0, i1, f = br
            if f <= AMB and (i0, 1.0, i0, 0.0) not in alts:
                alts.append((i0, 1.0, i0, 0.0))
            if 1 - f <= AMB and (i1, 1.0, i1, 0.0) not in alts:
                alts.append((i1, 1.0, i1, 0.0))
        out.append(alts)
    return out


def to_layout(V, r, p):
    """(n, P) -> array with the interpolated axis at position p"""
    pshape = tuple(s for _, s in PASSIVE[: r - 1])
    return np.moveaxis(V.reshape((V.shape[0],) + pshape), 0, p)


def from_layout(A, p):
    A = np.moveaxis(A, p, 0)
    return A.reshape(A.shape[0], -1)


def layout_dims(coord, r, p):
    dims = [nm for nm, _ in PASSIVE[: r - 1]]
    dims.insert(p, coord)
    return tuple(dims)


def make_dataset(grid, coord, r, p, vars_):
    import xarray

    dims = layout_dims(coord, r, p)
    coords = {coord: grid.coordinate()}
    for nm, s in PASSIVE[: r - 1]:
        coords[nm] = np.arange(s) * 10.0
    data = {k: (dims, to_layout(v, r, p).copy()) for k, v in vars_.items()}
    pdims = tuple(nm for nm, _ in PASSIVE[: r - 1])
    pshape = tuple(s for _, s in PASSIVE[: r - 1])
    passv = 7.0 + np.arange(int(np.prod(pshape)) if pshape else 1, dtype=float).reshape(pshape)
    data["nocoord"] = (pdims, passv)
    return xarray.Dataset(data, coords=coords), passv


def tb_tail():
    return traceback.format_exc()[-1500:]


# --------------------------------------------------------------------------------------------
# unit: interpolate_dataset_along_axis, array targets
# --------------------------------------------------------------------------------------------
def count_table(c, grid, tkinds, table, missing, mode, keybase):
    """category / non-triviality bookkeeping for one (subset, mode) table"""
    n_nontriv = 0
    for (kind, t), alts in zip(tkinds, table):
        br = grid.bracket(t)
        if br is None:
            c.cat("outside")
            if kind == "ulp_out":
                c.cat("ulp_outside")
            continue
        i0, i1, f = br
        if kind == "ulp_in":
            c.cat("ulp_inside")
        if i0 == i1:
            c.cat("at_node")
            continue
        c.cat("interior")
        n_nontriv += 1
        if len(alts) > 1:
            if mode == "nearest" and f == HALF:
                c.cat("nearest_tie")
            else:
                c.cat("ambiguous_accept_either")
        involved = (i0 in missing) or (i1 in missing)
        if involved:
            if alts[0] is None:
                c.cat("nan_missing_result")
                if mode == "linear" and f == HALF and len(alts) == 1:
                    c.cat("half_way_exact_missing")
            else:
                c.cat("nan_renormalised")
    c.nontriv(n=n_nontriv)


def run_axis(unit):
    from ocean_science_utilities.interpolate.dataset import interpolate_dataset_along_axis

    tier = unit["tier"]
    grids = {g.name: g for g in all_grids(tier)}
    grid = grids[unit["grid"]]
    r, p = unit["rank"], unit["pos"]
    coord = grid.coord
    c = Collector()
    tk = grid.targets()
    tvals = [t for _, t in tk]
    targets = grid.target_array(tvals)
    m = len(tvals)
    dims = layout_dims(coord, r, p)
    if not grid.asc:
        c.cat("descending")
    if grid.kind != "float":
        c.cat("datetime_axis")
    if grid.kind == "time_u":
        c.cat("datetime_unit_pairs")
        if grid.gunit != "ns":
            c.cat("datetime_grid_coarser_than_ns")
    if grid.name[0] == "m" or grid.kind == "time_u":
        c.cat("first_step_equals_mean_step")
    if r == 4:
        c.cat("rank4")
    x_num = np.array(tvals, dtype=float)
    cond = grid.conds(tvals)
    sampled = False
    for missing in subsets(grid.n, tier):
        if len(missing) > 1 and (grid.kind == "time_u" or grid.name.endswith("_rev")):
            # unit pairs / reversed mean-step grids: the empty set and every single missing node (the NaN rule itself is
            # enumerated in full on the other grids)
            continue
        impulses = len(missing) <= 1 and grid.n <= 12
        vars_, P = build_vars(grid, r, missing, impulses)
        ds, passv = make_dataset(grid, coord, r, p, vars_)
        for mode in MODES:
            key0 = {"api": "along_axis", "grid": grid.name, "layout": f"r{r}p{p}", "mode": mode,
                    "nan": sorted(missing)}
            table = grid.table(tvals, missing, mode)
            pre = first_alt_arrays(table)
            count_table(c, grid, tk, table, missing, mode, key0)
            try:
                if mode == "linear":
                    out = interpolate_dataset_along_axis(targets.copy(), ds, coordinate_name=coord)
                else:
                    out = interpolate_dataset_along_axis(targets.copy(), ds, coordinate_name=coord,
                                                         nearest_neighbour=True)
            except Exception as exc:  # noqa
                c.violation(dict(key0, check="raises"), f"interpolate_dataset_along_axis raised {type(exc).__name__}: {exc}",
                            traceback=tb_tail())
                continue
            c.case(key0)
            # structure
            oc = np.asarray(out[coord].values)
            if oc.shape != targets.shape or not np.all(oc == targets):
                c.violation(dict(key0, check="coordinate"), "output coordinate differs from the targets",
                            got=str(oc[:5]), want=str(targets[:5]))
            for nm, s in PASSIVE[: r - 1]:
                if not np.array_equal(out[nm].values, ds[nm].values):
                    c.violation(dict(key0, check="passive coordinate"), f"passive coordinate {nm} changed")
            # pass-through
            c.evaluations += 1
            c.cat("passthrough")
            pv = out["nocoord"] if "nocoord" in out else None
            if pv is None or tuple(pv.dims) != tuple(ds["nocoord"].dims) or not np.array_equal(pv.values, passv):
                c.violation(dict(key0, check="passthrough", var="nocoord"),
                            "variable without the coordinate did not pass through unchanged")
            for name, V in vars_.items():
                da = out[name]
                c.evaluations += m
                if tuple(da.dims) != dims:
                    c.violation(dict(key0, check="dims", var=name), f"dims {da.dims} != {dims}")
                    continue
                want_shape = tuple(m if d == coord else ds.sizes[d] for d in dims)
                if da.shape != want_shape:
                    c.violation(dict(key0, check="shape", var=name), f"shape {da.shape} != {want_shape}")
                    continue
                R = from_layout(np.asarray(da.values, dtype=float), p)
                bad = compare(R, V, table, pre, cond)
                for j in bad[:3]:
                    kind, t = tk[j]
                    c.violation(
                        dict(key0, check="value", var=name if not name.startswith("imp") else "impulse",
                             target_kind=kind),
                        f"{name}: target {t!r} ({kind}) on {grid.name} {mode} missing={sorted(missing)}: "
                        f"library {R[j][:4].tolist()} not among admissible answers",
                        target=t, nodes=grid.nodes, lib=R[j].tolist(),
                        expected=[None if a is None else list(a) for a in table[j]],
                        node_values=V[:, 0].tolist(),
                    )
                if len(bad) > 3:
                    c.violations_total += len(bad) - 3
                # bounded: between the two neighbouring values where both are valid
                I0, I1, W0, W1, NONE = pre
                both = (~NONE) & (W0 > 0) & (W1 > 0)
                both &= np.array([len(a) == 1 for a in table])
                if np.any(both):
                    v0, v1 = V[I0[both]], V[I1[both]]
                    lo, hi = np.minimum(v0, v1), np.maximum(v0, v1)
                    tol = 1e-12 * cond[both][:, None] * np.maximum(np.abs(lo), np.abs(hi))
                    Rb = R[both]
                    with np.errstate(invalid="ignore"):
                        viol = ~((Rb >= lo - tol) & (Rb <= hi + tol))
                    c.cat("bounded_checked", int(both.sum()))
                    if np.any(viol):
                        j = int(np.nonzero(both)[0][np.nonzero(viol)[0][0]])
                        c.violation(dict(key0, check="bounded", var=name, target_kind=tk[j][0]),
                                    f"{name}: value at target {tk[j][1]!r} outside its two neighbouring values",
                                    lib=R[j].tolist())
                # exact for linearly varying data (independent closed form)
                if name == "ramp" and mode == "linear":
                    q = np.arange(P, dtype=float)
                    inside = both | ((I0 == I1) & ~NONE)
                    if np.any(inside):
                        want = (1.0 + q)[None, :] + (2.0 - 0.75 * q)[None, :] * x_num[inside][:, None]
                        tolr = 4e-12 * cond[inside][:, None] * ((1.0 + q)[None, :] + np.abs(2.0 - 0.75 * q)[None, :]
                                                                 * max(abs(grid.nodes[0]), abs(grid.nodes[-1]), 1.0))
                        with np.errstate(invalid="ignore"):
                            viol = ~(np.abs(R[inside] - want) <= tolr)
                        c.cat("ramp_exact", int(inside.sum()))
                        if np.any(viol):
                            j = int(np.nonzero(inside)[0][np.nonzero(viol)[0][0]])
                            c.violation(dict(key0, check="ramp", var=name, target_kind=tk[j][0]),
                                        f"linear data not reproduced at target {tk[j][1]!r}",
                                        lib=R[j].tolist(), want=want[np.nonzero(viol)[0][0]].tolist())
            if not sampled and len(missing) == 1 and mode == "linear":
                sampled = True
                j = next(i for i, (k, _) in enumerate(tk) if k == "quarter")
                c.sample({"api": "interpolate_dataset_along_axis", "grid": grid.nodes[:8], "layout": f"r{r}p{p}",
                          "missing_nodes": sorted(missing), "target": tvals[j],
                          "gen_node_values": [None if np.isnan(v) else float(v) for v in vars_["gen"][:8, 0]],
                          "library": [None if np.isnan(v) else float(v) for v in
                                      from_layout(np.asarray(out["gen"].values, dtype=float), p)[j][:2]],
                          "admissible": [None if a is None else list(a) for a in table[j]]})
    # ---- infinite node values: "identical to the data at grid nodes" next to and at an infinite node ----------
    ivars = inf_vars(grid, r)
    ds_inf, _ = make_dataset(grid, coord, r, p, ivars)
    for mode in MODES:
        key0 = {"api": "along_axis", "grid": grid.name, "layout": f"r{r}p{p}", "mode": mode, "nan": [], "data": "inf node"}
        base = grid.table(tvals, frozenset(), mode)
        try:
            out = interpolate_dataset_along_axis(targets.copy(), ds_inf, coordinate_name=coord,
                                                 nearest_neighbour=(mode == "nearest"))
        except Exception as exc:  # noqa
            c.violation(dict(key0, check="raises"), f"infinite node value: raised {type(exc).__name__}: {exc}",
                        traceback=tb_tail())
            continue
        c.case(key0)
        for name, V in ivars.items():
            k = int(name[3:])
            table = inf_table(grid, tvals, base, k)
            R = from_layout(np.asarray(out[name].values, dtype=float), p)
            c.evaluations += m
            touched = [j for j, t in enumerate(tvals) if grid.bracket(t) is not None and k in grid.bracket(t)[:2]]
            c.cat("inf_node_cases", len(touched))
            c.cat("inf_at_node_target", sum(1 for j in touched if grid.bracket(tvals[j])[0] == grid.bracket(tvals[j])[1]))
            c.nontriv(n=len(touched))
            bad = compare(R, V, table, None, cond)
            for j in bad[:3]:
                kind, t = tk[j]
                br = grid.bracket(t)
                c.violation(
                    dict(key0, check="value", var="inf node", target_kind=kind,
                         target_at_node=bool(br is not None and br[0] == br[1])),
                    f"{name}: node {k} is infinite; target {t!r} ({kind}) on {grid.name} {mode}: library "
                    f"{R[j][:4].tolist()} not among admissible answers",
                    target=t, nodes=grid.nodes, lib=[repr(float(v)) for v in R[j]],
                    expected=[None if a is None else list(a) for a in table[j]],
                    node_values=[repr(float(v)) for v in V[:, 0]])
            if len(bad) > 3:
                c.violations_total += len(bad) - 3
    return c.result()


# --------------------------------------------------------------------------------------------
# unit: scalar targets and other target containers
# --------------------------------------------------------------------------------------------
def run_scalar(unit):
    import xarray
    from ocean_science_utilities.interpolate.dataset import interpolate_dataset_along_axis

    tier = unit["tier"]
    grids = {g.name: g for g in all_grids(tier)}
    grid = grids[unit["grid"]]
    coord = grid.coord
    c = Collector()
    if not grid.asc:
        c.cat("descending")
    tk = grid.targets()
    if grid.n > 12:  # thorough 40-node grids: every 3rd target one by one is still > 80 scalar calls
        tk = tk[::3]
    tvals = [t for _, t in tk]
    n_nontriv = 0
    for (r, p) in [(1, 0), (3, 1)]:
        for missing in [frozenset(), frozenset([1])]:
            vars_, P = build_vars(grid, r, missing, False)
            ds, _ = make_dataset(grid, coord, r, p, vars_)
            for mode in MODES:
                key0 = {"api": "along_axis_scalar", "grid": grid.name, "layout": f"r{r}p{p}", "mode": mode,
                        "nan": sorted(missing)}
                c.case(key0)
                # containers holding all targets: list, DataArray (and datetime list for 'time')
                arr = grid.target_array(tvals)
                containers = [("DataArray", xarray.DataArray(arr, dims="points"))]
                if grid.kind == "float":
                    containers.append(("list", [float(v) for v in tvals]))
                elif grid.kind == "time_s":
                    containers.append(("datetime_list", [T0 + timedelta(seconds=int(v)) for v in tvals]))
                    containers.append(("naive_datetime_list",
                                       [(T0 + timedelta(seconds=int(v))).replace(tzinfo=None) for v in tvals]))
                    containers.append(("iso_string_list",
                                       [(T0 + timedelta(seconds=int(v))).strftime("%Y-%m-%dT%H:%M:%SZ") for v in tvals]))
                table = grid.table(tvals, missing, mode)
                cond = grid.conds(tvals)
                for cname, cont in containers:
                    try:
                        out = interpolate_dataset_along_axis(cont, ds, coordinate_name=coord,
                                                             nearest_neighbour=(mode == "nearest"))
                        for name, V in vars_.items():
                            R = from_layout(np.asarray(out[name].values, dtype=float), p)
                            c.evaluations += len(tvals)
                            if R.shape[0] != len(tvals):
                                c.violation(dict(key0, check="shape", container=cname), f"shape {R.shape}")
                                continue
                            for j in compare(R, V, table, None, cond)[:2]:
                                c.violation(dict(key0, check="value", container=cname, var=name,
                                                 target_kind=tk[j][0]),
                                            f"{cname} targets: {name} at {tk[j][1]!r}: library {R[j][:3].tolist()}",
                                            expected=[None if a is None else list(a) for a in table[j]])
                    except Exception as exc:  # noqa
                        c.violation(dict(key0, check="raises", container=cname),
                                    f"raised {type(exc).__name__}: {exc}", traceback=tb_tail())
                # one by one
                for j, (kind, t) in enumerate(tk):
                    if grid.kind == "float":
                        forms = [("float", float(t)), ("np.float64", np.float64(t)), ("0-d array", np.array(float(t)))]
                        if float(t).is_integer() and abs(t) < 1e6:
                            forms.append(("int", int(t)))
                    elif grid.kind == "time_s":
                        # (a 0-d datetime64 *array* is rejected by the library's time conversion, tools/time.py
                        #  to_datetime_utc iterates it; that is a matter of C17, not of interpolation)
                        forms = [("datetime64", arr[j]), ("datetime", T0 + timedelta(seconds=int(t)))]
                    else:
                        forms = [("datetime64", arr[j]), ("0-d array", np.array(arr[j]))]
                    form = forms[j % len(forms)] if unit["tier"] == "quick" else None
                    for fname, val in ([form] if form else forms):
                        alts = table[j]
                        try:
                            out = interpolate_dataset_along_axis(val, ds, coordinate_name=coord,
                                                                 nearest_neighbour=(mode == "nearest"))
                        except Exception as exc:  # noqa
                            c.violation(dict(key0, check="raises", form=fname, target_kind=kind),
                                        f"scalar target {val!r} raised {type(exc).__name__}: {exc}",
                                        traceback=tb_tail())
                            continue
                        c.cat("scalar_target")
                        br = grid.bracket(t)
                        if br is not None and br[0] != br[1]:
                            n_nontriv += 1
                        for name, V in vars_.items():
                            c.evaluations += 1
                            da = out[name]
                            want_shape = tuple(1 if d == coord else ds.sizes[d] for d in ds[name].dims)
                            if tuple(da.dims) != tuple(ds[name].dims) or da.shape != want_shape:
                                c.violation(dict(key0, check="shape", form=fname, var=name),
                                            f"scalar target: dims/shape {da.dims} {da.shape}, want {want_shape}")
                                continue
                            R = from_layout(np.asarray(da.values, dtype=float), p)
                            if compare(R, V, [alts], None, cond[j:j + 1]):
                                c.violation(dict(key0, check="value", form=fname, var=name, target_kind=kind),
                                            f"scalar target {val!r} ({fname}): {name} library {R[0][:3].tolist()}",
                                            expected=[None if a is None else list(a) for a in alts], nodes=grid.nodes,
                                            node_values=V[:, 0].tolist())
    c.nontriv(n=n_nontriv)
    c.sample({"api": "interpolate_dataset_along_axis(scalar)", "grid": grid.nodes[:8], "targets": [str(t) for t in tvals[:6]]})
    return c.result()


# --------------------------------------------------------------------------------------------
# unit: two-coordinate grid interpolation
# --------------------------------------------------------------------------------------------
def run_grid2(unit):
    import xarray
    from ocean_science_utilities.interpolate.dataset import interpolate_dataset_grid

    c = Collector()
    tier = unit["tier"]
    gx_all = [Grid("gx", [0.0, 1.0, 3.0, 7.0]), Grid("gx_desc", [7.0, 3.0, 1.0, 0.0], exact_half=True)]
    gy_all = [Grid("gy", [-2.0, 0.5, 4.0]), Grid("gy_desc", [4.0, 0.5, -2.0], exact_half=True)]
    gx = gx_all[unit["gx"]]
    gy = gy_all[unit["gy"]]
    mode = unit["mode"]
    if not (gx.asc and gy.asc):
        c.cat("descending")
    na = 2

    def tsel(g, with_out):
        res = [t for k, t in g.targets() if k in ("node", "mid", "quarter", "ulp_in")]
        if mode == "nearest":
            res = [t for t in res if not (g.bracket(t)[0] != g.bracket(t)[1] and g.bracket(t)[2] == HALF)]
        if with_out:
            res += [t for k, t in g.targets() if k in ("ulp_out", "far")]
        return res

    X, Y = gx.numeric(), gy.numeric()
    A = np.arange(na, dtype=float)
    f_xy = 1.0 + 2.0 * X[:, None] - 0.5 * Y[None, :] + 0.25 * X[:, None] * Y[None, :] + np.cos(X[:, None] + Y[None, :])
    f_axy = A[:, None, None] * 10 + f_xy[None, :, :] * (1 + A[:, None, None])
    f_x = np.sin(X) * 3 + X
    f_y = Y ** 2 - 1
    f_a = A + 5.0
    ds = xarray.Dataset(
        {
            "v_xy": (("x", "y"), f_xy), "v_yx": (("y", "x"), f_xy.T.copy()), "v_axy": (("a", "x", "y"), f_axy),
            "v_xay": (("x", "a", "y"), np.moveaxis(f_axy, 0, 1).copy()),
            "v_x": (("x",), f_x), "v_y": (("y",), f_y), "v_a": (("a",), f_a), "v_0": ((), 42.0),
            # an angular variable (by name): only its missing / not-missing pattern is claimed here, values are C14
            "wave_direction": (("x", "y"), (200.0 + 40.0 * np.sin(f_xy)) % 360.0),
        },
        coords={"x": gx.coordinate(), "y": gy.coordinate(), "a": A},
    )

    def lin_rows(g, tv, V):
        """1D reference along axis 0 of V (n, P) -> (m, P) (NaN-free input; single alternatives)"""
        tab = g.table(tv, frozenset(), mode)
        out = np.empty((len(tv), V.shape[1]))
        amb = np.zeros(len(tv), dtype=bool)
        for j, alts in enumerate(tab):
            out[j] = eval_alt(V, alts[0])[0]
            amb[j] = len(alts) > 1
        return out, amb

    n_nontriv = 0
    for order in ("xy", "yx"):
        for xo in (False, True):
            for yo in (False, True):
                tx, ty = tsel(gx, xo), tsel(gy, yo)
                coords = {"x": np.array(tx), "y": np.array(ty)}
                if order == "yx":
                    coords = {"y": np.array(ty), "x": np.array(tx)}
                first_out = (xo if order == "xy" else yo)
                key0 = {"api": "grid", "gx": gx.name, "gy": gy.name, "order": order, "mode": mode,
                        "x_outside": xo, "y_outside": yo, "outside_target_in_first_coordinate": first_out}
                c.case(key0)
                try:
                    out = interpolate_dataset_grid(coords, ds, nearest_neighbour=(mode == "nearest"))
                except Exception as exc:  # noqa
                    c.violation(dict(key0, check="raises"), f"interpolate_dataset_grid raised {type(exc).__name__}: {exc}",
                                traceback=tb_tail())
                    continue
                # reference: tensor product of the two 1D references (order irrelevant without NaN input)
                rx, ambx = lin_rows(gx, tx, f_xy)                      # (mx, ny)
                rxy, amby = lin_rows(gy, ty, rx.T.copy())              # (my, mx)
                ref_xy = rxy.T                                         # (mx, my)
                # out-of-range rows/cols: NaN for that target only
                inx = np.array([gx.bracket(t) is not None for t in tx])
                iny = np.array([gy.bracket(t) is not None for t in ty])
                # build by formula to avoid NaN propagation subtleties in the reference itself
                rx_in, _ = lin_rows(gx, [t if i else gx.nodes[0] for t, i in zip(tx, inx)], f_xy)
                rxy_in, _ = lin_rows(gy, [t if i else gy.nodes[0] for t, i in zip(ty, iny)], rx_in.T.copy())
                ref_xy = rxy_in.T.copy()
                ref_xy[~inx, :] = np.nan
                ref_xy[:, ~iny] = np.nan
                amb_cell = ambx[:, None] | amby[None, :]
                refs = {
                    "v_xy": ref_xy, "v_yx": ref_xy.T,
                    "v_axy": A[:, None, None] * 10 + ref_xy[None] * (1 + A[:, None, None]),
                }
                refs["v_xay"] = np.moveaxis(refs["v_axy"], 0, 1)
                r_x, _ = lin_rows(gx, tx, f_x[:, None])
                r_y, _ = lin_rows(gy, ty, f_y[:, None])
                refs["v_x"] = r_x[:, 0]
                refs["v_y"] = r_y[:, 0]
                refs["v_a"] = f_a
                refs["v_0"] = np.array(42.0)
                ambs = {"v_xy": amb_cell, "v_yx": amb_cell.T, "v_axy": amb_cell[None] | np.zeros((na, 1, 1), bool),
                        "v_x": ambx, "v_y": amby}
                ambs["v_xay"] = np.moveaxis(ambs["v_axy"], 0, 1)
                scale = float(np.max(np.abs(f_axy)))
                if "wave_direction" in out and out["wave_direction"].shape == ref_xy.shape:
                    gd = np.asarray(out["wave_direction"].values, dtype=float)
                    c.evaluations += int(gd.size)
                    wrong = (np.isnan(gd) != np.isnan(ref_xy)) & ~amb_cell
                    if np.any(wrong):
                        idx = tuple(int(i) for i in np.argwhere(wrong)[0])
                        c.violation(
                            dict(key0, check="in-range target missing" if np.isnan(gd[idx]) else "outside target not missing",
                                 var="wave_direction"),
                            f"wave_direction{list(idx)}: library {gd[idx]!r}, reference missing={bool(np.isnan(ref_xy[idx]))} "
                            f"({int(np.sum(wrong))} of {gd.size} cells)", x_targets=tx, y_targets=ty)
                else:
                    c.violation(dict(key0, check="shape", var="wave_direction"), "wave_direction missing or mis-shaped")
                for name, ref in refs.items():
                    if name not in out:
                        c.violation(dict(key0, check="variable dropped", var=name), f"{name} missing from the result")
                        continue
                    got = np.asarray(out[name].values, dtype=float)
                    c.evaluations += int(ref.size)
                    if tuple(out[name].dims) != tuple(ds[name].dims) or got.shape != ref.shape:
                        c.violation(dict(key0, check="shape", var=name),
                                    f"{name}: dims/shape {out[name].dims}{got.shape} want {ds[name].dims}{ref.shape}")
                        continue
                    if name in ("v_a", "v_0"):
                        c.cat("passthrough")
                        if not np.array_equal(got, ref):
                            c.violation(dict(key0, check="passthrough", var=name), f"{name} did not pass through")
                        continue
                    ok = matches(got, ref, 4e-12 * scale) | ambs[name]
                    c.cat("grid2_cells", int(ref.size))
                    n_nontriv += int(np.sum(~np.isnan(ref)))
                    if not np.all(ok):
                        idx = tuple(int(i) for i in np.argwhere(~ok)[0])
                        nanwipe = bool(np.isnan(got[idx]) and not np.isnan(ref[idx]))
                        c.violation(
                            dict(key0, check="in-range target missing" if nanwipe else "value", var=name),
                            f"{name}{list(idx)}: library {got[idx]!r}, reference {ref[idx]!r} "
                            f"({int(np.sum(~ok))} of {ref.size} cells differ; x targets {tx[:3]}.., y targets {ty[:3]}..)",
                            x_targets=tx, y_targets=ty, lib=got[idx], ref=ref[idx], cells_wrong=int(np.sum(~ok)),
                        )
    c.nontriv(n=n_nontriv)
    c.sample({"api": "interpolate_dataset_grid", "x_nodes": gx.nodes, "y_nodes": gy.nodes, "mode": mode,
              "orders": ["xy", "yx"], "targets_x": tsel(gx, True)[:6]})
    return c.result()


# --------------------------------------------------------------------------------------------
# units: spectra
# --------------------------------------------------------------------------------------------
FREQ = [0.05, 0.1, 0.2, 0.25, 0.4]
DIRS = [0.0, 90.0, 180.0, 270.0]
TIME_S = [0, 3600, 10800, 25200]  # non-uniform, multiples of 4 s apart
LEADS = {"scalar": (), "time": (4,), "time_lat": (4, 2)}


def spectrum_space(lead):
    tt = [T0 + timedelta(seconds=s) for s in TIME_S]
    if len(lead) == 0:
        return dict(time=T0, latitude=12.5, longitude=-120.0), ()
    if len(lead) == 1:
        return dict(time=tt, latitude=10.0 + np.arange(4) * 0.5 + np.arange(4) ** 2 * 0.125,
                    longitude=-120.0 + np.arange(4) * 0.25), ("time",)
    return dict(time=tt, latitude=10.0 + np.arange(lead[1]) * 0.5,
                longitude=-120.0 + np.arange(lead[0] * lead[1]).reshape(lead) * 0.25), ("time", "latitude")


def spectrum_data(lead, nd, pattern):
    """E (lead, nf[, nd]) and four moments for 1D; deterministic, varying along every axis"""
    nf = len(FREQ)
    shape = tuple(lead) + (nf,) + ((nd,) if nd else ())
    idx = np.indices(shape).astype(float)
    s = sum((i + 1) * 0.37 * ix for i, ix in enumerate(idx))
    if pattern == "generic":
        E = 1.0 + 0.75 * np.sin(s) ** 2 + 0.5 * ((idx[-1] * 3 + idx[0] * 2) % 5)
    else:  # one impulse per frequency node, shifted along the leading axes
        k = int(pattern[3:])
        fax = len(lead)
        E = np.where((idx[fax] + (idx[0] if lead else 0)) % nf == k, 2.0 + 0.5 * np.cos(s), 0.0)
    moms = [0.9 * np.cos(1.0 + s), 0.8 * np.sin(0.5 + 1.3 * s), 0.7 * np.cos(2.0 + 0.7 * s), 0.6 * np.sin(1.1 * s)]
    return E, moms


def build_spectrum(lead, two_d, pattern, depth):
    from ocean_science_utilities.wavespectra.spectrum import create_1d_spectrum, create_2d_spectrum

    sp, dims = spectrum_space(lead)
    E, moms = spectrum_data(lead, len(DIRS) if two_d else 0, pattern)
    dep = np.broadcast_to(np.asarray(20.0, dtype=float), lead).copy() if lead else 20.0
    if lead:
        dep = dep + np.arange(int(np.prod(lead)), dtype=float).reshape(lead) * 2.5
        if depth == "inf_all":       # deep water everywhere (the library's default depth)
            dep[...] = np.inf
        elif depth == "inf_mixed":   # deep water at the first, third and fourth time stamp (second stays finite)
            dep[[0, 2, 3]] = np.inf
    elif depth != "finite":
        dep = np.inf
    if two_d:
        s = create_2d_spectrum(np.array(FREQ), np.array(DIRS), E, sp["time"], sp["latitude"], sp["longitude"],
                               dims=dims + ("frequency", "direction"), depth=dep)
        return s, E, None, dep
    s = create_1d_spectrum(np.array(FREQ), E, sp["time"], sp["latitude"], sp["longitude"],
                           a1=moms[0], b1=moms[1], a2=moms[2], b2=moms[3], depth=dep, dims=dims + ("frequency",))
    return s, E, moms, dep


def ref_axis(g, tv, A, axis, mode):
    """reference along `axis` of array A (NaN-free): returns (ref, outside mask per target, ambiguous per target)"""
    V = np.moveaxis(A, axis, 0)
    sh = V.shape
    V = V.reshape(sh[0], -1)
    tab = g.table(tv, frozenset(), mode)
    out = np.empty((len(tv), V.shape[1]))
    amb = np.zeros(len(tv), dtype=bool)
    outside = np.zeros(len(tv), dtype=bool)
    for j, alts in enumerate(tab):
        out[j] = eval_alt(V, alts[0])[0]
        amb[j] = len(alts) > 1
        outside[j] = alts[0] is None
    out = np.moveaxis(out.reshape((len(tv),) + sh[1:]), 0, axis)
    return out, outside, amb


def bcast(mask, axis, ndim):
    sh = [1] * ndim
    sh[axis] = len(mask)
    return mask.reshape(sh)


def run_spectrum(unit):
    c = Collector()
    layout = unit["layout"]
    two_d = unit["two_d"]
    lead = LEADS[layout]
    gf = Grid("freq", FREQ)
    gt = Grid("time", TIME_S, exact_half=True, exact_ends=True, kind="time_s")
    fk = gf.targets()
    tkk = gt.targets()
    fax = len(lead)
    n_nontriv = 0
    patterns = ["generic"] + ([f"imp{k}" for k in range(len(FREQ))] if unit["tier"] == "thorough" else ["imp1", "imp4"])
    evs = [("default", None, 0.0), ("zero", 0.0, 0.0), ("minus1", -1.0, -1.0)]

    def check_spectral(key0, res, E, moms, axes_targets, mode, ev):
        """axes_targets: list of (grid, tvals, axis) applied in sequence; NaN-free so order is irrelevant"""
        nonlocal n_nontriv
        refE = E
        outside_any = np.zeros((), dtype=bool)
        amb_any = np.zeros((), dtype=bool)
        refM = [E * mm for mm in moms] if moms is not None else []
        # replace out-of-range targets by a node for the reference, mask afterwards
        for g, tv, axis in axes_targets:
            safe = [t if g.bracket(t) is not None else g.nodes[0] for t in tv]
            out_mask = np.array([g.bracket(t) is None for t in tv])
            refE, _, amb = ref_axis(g, safe, refE, axis, mode)
            refM = [ref_axis(g, safe, mm, axis, mode)[0] for mm in refM]
            nd_ = refE.ndim
            outside_any = outside_any | bcast(out_mask, axis, nd_)
            amb_any = amb_any | bcast(amb, axis, nd_)
        outside_any = np.broadcast_to(outside_any, refE.shape)
        amb_any = np.broadcast_to(amb_any, refE.shape)
        want_dims = tuple(res.dataset["variance_density"].dims)
        got = np.asarray(res.dataset["variance_density"].values, dtype=float)
        c.evaluations += int(refE.size)
        if got.shape != refE.shape:
            c.violation(dict(key0, check="shape", var="variance_density"), f"shape {got.shape} want {refE.shape} dims {want_dims}")
            return
        refE_f = np.where(outside_any, ev, refE)
        tolE = 4e-12 * float(np.max(np.abs(E)))
        ok = matches(got, refE_f, tolE) | (amb_any & ~outside_any)
        c.cat("spectrum_extrapolated", int(np.sum(outside_any)))
        n_nontriv += int(np.sum(~outside_any))
        if not np.all(ok):
            idx = tuple(int(i) for i in np.argwhere(~ok)[0])
            kind = "extrapolation value" if outside_any[idx] else "value"
            if not outside_any[idx] and got[idx] == ev and key0.get("outside_target_in_first_coordinate"):
                kind = "in-range target missing"
            c.violation(dict(key0, check=kind, var="variance_density"),
                        f"variance_density{list(idx)}: library {got[idx]!r}, reference {refE_f[idx]!r} "
                        f"({int(np.sum(~ok))} of {ok.size} differ)", lib=got[idx], ref=refE_f[idx])
        for nm, rm in zip(("a1", "b1", "a2", "b2"), refM):
            gotm = np.asarray(res.dataset[nm].values, dtype=float)
            c.evaluations += int(rm.size)
            with np.errstate(invalid="ignore", divide="ignore"):
                refm = np.where(outside_any, ev, rm / refE)
            cond = outside_any | (refE != 0)
            tolm = 1e-11 * (1.0 + np.abs(np.where(cond, refm, 0.0)))
            okm = matches(gotm, np.where(cond, refm, gotm), tolm) | (amb_any & ~outside_any) | ~cond
            c.cat("spectrum_moment", int(np.sum(cond & ~outside_any)))
            c.cat("moment_zero_energy_skipped", int(np.sum(~cond)))
            if not np.all(okm):
                idx = tuple(int(i) for i in np.argwhere(~okm)[0])
                kind = "extrapolation value" if outside_any[idx] else "moment"
                if not outside_any[idx] and gotm[idx] == ev and key0.get("outside_target_in_first_coordinate"):
                    kind = "in-range target missing"
                c.violation(dict(key0, check=kind, var=nm),
                            f"{nm}{list(idx)}: library {gotm[idx]!r}, reference interp(E*{nm})/interp(E) = {refm[idx]!r}",
                            lib=gotm[idx], ref=refm[idx])

    def check_passthrough(key0, res, src, names):
        for nm in names:
            if nm not in src.dataset:
                continue
            c.evaluations += 1
            c.cat("passthrough")
            a, b = src.dataset[nm], res.dataset[nm] if nm in res.dataset else None
            if b is None or tuple(a.dims) != tuple(b.dims) or not np.array_equal(a.values, b.values):
                c.violation(dict(key0, check="passthrough", var=nm), f"{nm} (no interpolated coordinate) changed")

    def check_time_vars(key0, res, src, tv, mode, lat_dep):
        # latitude / depth carry the time coordinate: piecewise linear inside; outside missing (or filled)
        for nm, arr in lat_dep.items():
            if nm not in src.dataset or "time" not in src.dataset[nm].dims:
                continue
            A = np.asarray(src.dataset[nm].values, dtype=float)
            ref, outm, amb = ref_axis(gt, tv, A, 0, mode)
            got = np.asarray(res.dataset[nm].values, dtype=float)
            c.evaluations += int(ref.size)
            if got.shape != ref.shape:
                c.violation(dict(key0, check="shape", var=nm), f"{nm} shape {got.shape} want {ref.shape}")
                continue
            om = np.broadcast_to(bcast(outm, 0, ref.ndim), ref.shape)
            am = np.broadcast_to(bcast(amb, 0, ref.ndim), ref.shape)
            ok = matches(got, ref, 4e-12 * float(np.max(fabs(A)))) | am
            ok |= om & np.isnan(got)
            if not np.all(ok):
                idx = tuple(int(i) for i in np.argwhere(~ok)[0])
                c.violation(dict(key0, check="value", var=nm), f"{nm}{list(idx)}: library {got[idx]!r}, reference {ref[idx]!r}")

    for pattern in patterns:
        s, E, moms, dep = build_spectrum(lead, two_d, pattern, "finite")
        # ---------------- frequency ----------------
        ftv_all = [t for _, t in fk]
        for mode in MODES:
            if two_d and mode == "nearest":
                continue  # the 2D interpolate()/interpolate_frequency() have no nearest option
            ftv = ftv_all
            if mode == "nearest":
                ftv = [t for t in ftv_all if not (gf.bracket(t) is not None and abs(gf.bracket(t)[2] - HALF) <= AMB
                                                  and gf.bracket(t)[0] != gf.bracket(t)[1])]
            for evname, evarg, ev in evs:
                calls = []
                kw = {} if evarg is None else {"extrapolation_value": evarg}
                if two_d:
                    calls.append(("interpolate_frequency", lambda: s.interpolate_frequency(np.array(ftv), **kw)))
                    calls.append(("interpolate", lambda: s.interpolate({"frequency": np.array(ftv)}, **kw)))
                else:
                    calls.append(("interpolate_frequency",
                                  lambda: s.interpolate_frequency(np.array(ftv), method=mode, **kw)))
                    calls.append(("interpolate", lambda: s.interpolate({"frequency": np.array(ftv)},
                                                                       nearest_neighbour=(mode == "nearest"), **kw)))
                for cname, fn in calls:
                    key0 = {"api": ("spec2d." if two_d else "spec1d.") + cname, "layout": layout, "along": "frequency",
                            "mode": mode, "extrapolation": evname, "pattern": "impulse" if pattern != "generic" else pattern}
                    c.case(dict(key0, pattern=pattern))
                    try:
                        res = fn()
                    except Exception as exc:  # noqa
                        c.violation(dict(key0, check="raises"), f"{cname} raised {type(exc).__name__}: {exc}",
                                    traceback=tb_tail())
                        continue
                    if not isinstance(res, type(s)):
                        c.violation(dict(key0, check="type"), f"returned {type(res).__name__}")
                        continue
                    check_spectral(key0, res, E, moms, [(gf, ftv, fax)], mode, ev)
                    check_passthrough(key0, res, s, ["latitude", "longitude", "depth", "time"])
        # ---------------- time ----------------
        if lead:
            ttv_all = [t for _, t in tkk]
            for mode in MODES:
                if two_d and mode == "nearest":
                    continue
                ttv = ttv_all
                if mode == "nearest":
                    ttv = [t for t in ttv_all if not (gt.bracket(t) is not None and gt.bracket(t)[2] == HALF)]
                tarr = gt.target_array(ttv)
                for evname, evarg, ev in evs:
                    kw = {} if evarg is None else {"extrapolation_value": evarg}
                    if not two_d:
                        kw["nearest_neighbour"] = (mode == "nearest")
                    key0 = {"api": ("spec2d." if two_d else "spec1d.") + "interpolate", "layout": layout,
                            "along": "time", "mode": mode, "extrapolation": evname,
                            "pattern": "impulse" if pattern != "generic" else pattern}
                    c.case(dict(key0, pattern=pattern))
                    try:
                        res = s.interpolate({"time": tarr.copy()}, **kw)
                    except Exception as exc:  # noqa
                        c.violation(dict(key0, check="raises"), f"interpolate(time) raised {type(exc).__name__}: {exc}",
                                    traceback=tb_tail())
                        continue
                    c.cat("datetime_axis")
                    check_spectral(key0, res, E, moms, [(gt, ttv, 0)], mode, ev)
                    check_time_vars(key0, res, s, ttv, mode, {"latitude": None, "depth": None})
            # ---------------- time + frequency ----------------
            if pattern == "generic":
                mode = "linear"
                f_in = [t for k, t in fk if k in ("node", "mid", "quarter")]
                f_out = [t for k, t in fk if k in ("ulp_out", "far")]
                t_in = [t for k, t in tkk if k in ("node", "mid", "quarter")]
                t_out = [t for k, t in tkk if k in ("ulp_out", "far")]
                for order in ("tf", "ft"):
                    for to in (False, True):
                        for fo in (False, True):
                            ttv = t_in + (t_out if to else [])
                            ftv = f_in + (f_out if fo else [])
                            co = {"time": gt.target_array(ttv), "frequency": np.array(ftv)}
                            if order == "ft":
                                co = {"frequency": np.array(ftv), "time": gt.target_array(ttv)}
                            first_out = to if order == "tf" else fo
                            key0 = {"api": ("spec2d." if two_d else "spec1d.") + "interpolate", "layout": layout,
                                    "along": "time+frequency", "order": order, "mode": mode, "extrapolation": "minus1",
                                    "outside_target_in_first_coordinate": first_out}
                            c.case(dict(key0, to=to, fo=fo))
                            try:
                                res = s.interpolate(co, extrapolation_value=-1.0)
                            except Exception as exc:  # noqa
                                c.violation(dict(key0, check="raises"),
                                            f"interpolate(time,frequency) raised {type(exc).__name__}: {exc}",
                                            traceback=tb_tail())
                                continue
                            check_spectral(key0, res, E, moms, [(gt, ttv, 0), (gf, ftv, fax)], mode, -1.0)
    # ---------------- deep water: depth = inf, interpolated in time onto its own time stamps and in between ----------
    if lead:
        ttv_all = [t for _, t in tkk]
        own = list(TIME_S)
        for dname in ("inf_all", "inf_mixed"):
            s, E, moms, dep = build_spectrum(lead, two_d, "generic", dname)
            for mode in MODES:
                if two_d and mode == "nearest":
                    continue
                full = ttv_all if mode == "linear" else [t for t in ttv_all if not (gt.bracket(t) is not None
                                                                                    and gt.bracket(t)[2] == HALF)]
                for tname, ttv in (("own_time_stamps", own), ("one_own_time_stamp", own[1:2]), ("all_targets", full)):
                    kw = {} if two_d else {"nearest_neighbour": (mode == "nearest")}
                    key0 = {"api": ("spec2d." if two_d else "spec1d.") + "interpolate", "layout": layout, "along": "time",
                            "mode": mode, "depth": dname, "targets": tname}
                    c.case(key0)
                    try:
                        res = s.interpolate({"time": gt.target_array(ttv)}, **kw)
                    except Exception as exc:  # noqa
                        c.violation(dict(key0, check="raises"), f"interpolate(time) raised {type(exc).__name__}: {exc}",
                                    traceback=tb_tail())
                        continue
                    c.cat("spectrum_inf_depth", len(ttv))
                    check_spectral(key0, res, E, moms, [(gt, ttv, 0)], mode, 0.0)
                    check_time_vars(key0, res, s, ttv, mode, {"latitude": None, "depth": None})
    # ---------------- time coordinate of the spectrum stored as datetime64[s|ms|us] (targets arrive as ns) ----------
    if lead:
        s0, E, moms, dep = build_spectrum(lead, two_d, "generic", "finite")
        ttv_all = [t for _, t in tkk]
        for gu in ("s", "ms", "us"):
            s = type(s0)(s0.dataset.assign_coords(time=s0.dataset["time"].values.astype(f"datetime64[{gu}]")))
            if s.dataset["time"].dtype != np.dtype(f"datetime64[{gu}]"):
                c.cat("spectrum_time_unit_not_kept")
                continue
            for mode in MODES:
                if two_d and mode == "nearest":
                    continue
                ttv = ttv_all if mode == "linear" else [t for t in ttv_all if not (gt.bracket(t) is not None
                                                                                   and gt.bracket(t)[2] == HALF)]
                for tu in ("ns", gu):
                    kw = {} if two_d else {"nearest_neighbour": (mode == "nearest")}
                    key0 = {"api": ("spec2d." if two_d else "spec1d.") + "interpolate", "layout": layout, "along": "time",
                            "mode": mode, "time_unit": gu, "target_unit": tu}
                    c.case(key0)
                    try:
                        res = s.interpolate({"time": gt.target_array(ttv).astype(f"datetime64[{tu}]")}, **kw)
                    except Exception as exc:  # noqa
                        c.violation(dict(key0, check="raises"), f"interpolate(time) raised {type(exc).__name__}: {exc}",
                                    traceback=tb_tail())
                        continue
                    c.cat("spectrum_time_unit", len(ttv))
                    check_spectral(key0, res, E, moms, [(gt, ttv, 0)], mode, 0.0)
                    check_time_vars(key0, res, s, ttv, mode, {"latitude": None, "depth": None})
    c.nontriv(n=n_nontriv)
    c.sample({"api": "spectrum.interpolate / interpolate_frequency", "two_d": two_d, "layout": layout,
              "frequency_nodes": FREQ, "time_nodes_s": TIME_S, "frequency_targets": [t for _, t in fk][:8]})
    return c.result()


# --------------------------------------------------------------------------------------------
def units(tier):
    us = []
    for g in float_grids(tier):
        nsub = sum(1 for _ in subsets(g.n, tier))
        for r, p in LAYOUTS:
            if g.n >= 40 and r == 4 and p in (1, 2):
                # the 40-node grids cover rank 4 with the axis first and last; inner positions on smaller grids
                continue
            us.append({"name": f"axis:{g.name}:r{r}p{p}", "kind": "axis", "grid": g.name, "rank": r, "pos": p,
                       "cost": nsub * g.n * (1 + r)})
        us.append({"name": f"scalar:{g.name}", "kind": "scalar", "grid": g.name, "cost": 40 * g.n})
    for g in time_grids():
        for r, p in ([(1, 0), (2, 0), (3, 1), (3, 2), (4, 3)] if tier == "quick" else LAYOUTS):
            us.append({"name": f"axis:{g.name}:r{r}p{p}", "kind": "axis", "grid": g.name, "rank": r, "pos": p,
                       "cost": 32 * 5 * (1 + r)})
        us.append({"name": f"scalar:{g.name}", "kind": "scalar", "grid": g.name, "cost": 400})
    for g in mean_step_grids(tier):
        nsub = sum(1 for _ in subsets(g.n, tier))
        for r, p in ([(1, 0), (2, 1), (3, 1), (4, 2)] if tier == "quick" else LAYOUTS):
            us.append({"name": f"axis:{g.name}:r{r}p{p}", "kind": "axis", "grid": g.name, "rank": r, "pos": p,
                       "cost": nsub * g.n * (1 + r)})
        if g.name.endswith("_asc") or tier == "thorough":
            us.append({"name": f"scalar:{g.name}", "kind": "scalar", "grid": g.name, "cost": 40 * g.n})
    for g in unit_time_grids():
        for r, p in ([(1, 0), (3, 1)] if tier == "quick" else [(1, 0), (2, 1), (3, 1), (4, 2)]):
            us.append({"name": f"axis:{g.name}:r{r}p{p}", "kind": "axis", "grid": g.name, "rank": r, "pos": p,
                       "cost": 16 * 4 * (1 + r)})
    for ix in range(2):
        for iy in range(2):
            for mode in MODES:
                us.append({"name": f"grid2:x{ix}y{iy}:{mode}", "kind": "grid2", "gx": ix, "gy": iy, "mode": mode,
                           "cost": 100})
    for two_d in (False, True):
        for layout in LEADS:
            us.append({"name": f"spectrum:{'2d' if two_d else '1d'}:{layout}", "kind": "spectrum", "two_d": two_d,
                       "layout": layout, "cost": 2000})
    return us


def run_unit(unit):
    return {"axis": run_axis, "scalar": run_scalar, "grid2": run_grid2, "spectrum": run_spectrum}[unit["kind"]](unit)
