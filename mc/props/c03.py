"""C03  Mean/peak direction and spread follow their definitions; rotation and mirror relations.

Engine E1 (product-space enumeration), two families of units.

1d: FrequencySpectrum objects on a 4-point frequency grid.  Batch axis = moment pattern x energy
    word: (a1,b1) per frequency from a polar lattice r in {0,.1,.5,.9,1} x phi in {0,15,..,345}
    (multiples of 90 degrees exact, both signs of zero at the +-180 seam), energy words = all of
    {0,1,3}^4; every band from an 11 x 11 table of (fmin,fmax) (nodes, mid points, one ulp either side of
    a node, below/above the grid, inf; reversed and empty bands included) plus the default call.
    Oracle: A,B = trapezoid(a1*e)/trapezoid(e) over the in-band nodes (python/numpy, no library);
    a returned direction D must satisfy r*cos D = A, r*sin D = B (the definition of atan2(B,A), checked
    without calling atan2) and lie in [-180,180]; spread^2 (radians) must equal 2(1-r) and the spread must
    lie in [0,81.03]; mean_a1..mean_b2 equal the band averages; peak variants use the moments at an
    in-band maximum of e (any of tied maxima is accepted); per-frequency variants use the moments at
    that frequency.

2d: FrequencyDirectionSpectrum objects on uniform direction grids.  For every base spectrum (impulses,
    bimodal pairs, off-centre lobes; different rows per frequency) EVERY rotation k=0..N-1 and the mirror
    image (direction coordinate negated and re-sorted) of every rotated member is formed.  Oracle:
    the same definitions against independent directional sums, and the closed relations
    D(rot_k S) = D(S)+k*dtheta (mod 360), D(mirror S) = -D(S), spread/Hm0/Tm01/Tm02/peak frequency unchanged.
"""
import itertools
import math
import re
import traceback

import numpy as np

from mc.common import Collector, _space, angle_diff, close, make_1d, reshape_lead

ID = "C03"
LEVEL = "exploration"
RULE = (
    "1d: layout {(), (time), (time,latitude), flattened} x moment pattern {one lattice point at all frequencies; "
    "two lattice points alternating over the frequencies, all ordered pairs (quick: of the 17-point sub-lattice "
    "r in {0,.5,1} x 45 degrees; thorough: of the full 101-point lattice); a stride pattern with four different "
    "points} x energy word {0,1,3}^4 x band (11 x 11 table + default). 2d: uniform grid N x start {0,7.5,350,-170; plus "
    "relabelled coordinates (theta+k*step)%360 kept unsorted, passing 360->0 in the interior} x layout (the four "
    "layouts and 'time_T' = dims (time,direction,frequency); named restriction 'transposed_layout_quick': quick runs "
    "time_T for N<=12 only) x base spectrum (impulse per bin, bimodal pair per separation, off-centre lobe per bin) x every "
    "rotation k in 0..N-1 x {original, mirror image} x 4 bands. Named restriction 'scalar_layout_subset': layout () "
    "runs 1d: the 101 single-point patterns with word (1,3,0,1) and all 81 words with one alternating pattern, on "
    "5 bands; 2d: two bases (one impulse base, one lobe base; N>=72: the lobe base) with every rotation and mirror "
    "on 2 bands. A case "
    "(member, band) is non-trivial when the band holds energy (reference m0 > 0) and the reference resultant "
    "exceeds 1e-9, so that direction AND spread are compared; distinct cases are counted once (in the (time) layout). "
    "Family '2d:everyN:*': EVERY uniform grid size N = 8..144 (start cycling over {0,7.5,350,-170} by N % 4) x "
    "three bases (energy in the first bin, in the last bin, a lobe across the wrap) x rotations {0,1,N/3,N-1} x "
    "{original, mirror} x 2 bands, same oracle. Families '2d:dtype:*' / '1d:dtype:*': variance density STORED as "
    "float32 / float16 / int32 / uint16 (whole-number valued, exactly representable): 2d all rotations and mirrors "
    "of whole-number bases on a 12-bin grid (thorough also 36), 1d the scalar-layout member subset batched. "
    "History family (units 'history:*'): for a 1d object and a 2d object (uniform 12 bins from 7.5; thorough also 8 "
    "from -170 and 36 from 350) x every layout, EVERY sequence of length 1..3 over {mean_direction(default band), "
    "mean_directional_spread(0.1,0.35), peak_direction(0.05,0.2+ulp), peak_directional_spread(default), "
    "mean_direction_per_frequency, mean_spread_per_frequency} + {multiply(full shape, inplace), multiply(per "
    "frequency (1d) / per direction (2d), inplace), fillna(1.0), spec['variance_density']=..., "
    "spec.dataset['variance_density']=..., spec.values[...] *= w (in-place write into the object's own buffer), 1d only: spec['a1']=..., spec.dataset['b1']=...} is executed on a fresh "
    "object holding six members (layout (): one); every read is checked against the definitions evaluated on the "
    "data the object holds at that moment, and after histories of length <= 2 all six reads are made once more with "
    "the bands swapped. Named restriction 'history_length3_quick': quick runs length 3 in the (time) layout only. "
    "A history is non-trivial when a read precedes an in-place modification."
)
ASSUMPTIONS = [
    "lattice of moments / densities, not the continuum",
    "1d energies are finite and non-negative (NaN energy is C01's domain); moments are finite and inside the closed "
    "unit disc",
    "a direction is compared only if the reference resultant exceeds 1e-9; a band average only if the reference "
    "band energy is positive; peak variants only if the band holds a positive maximum (ties: any tied maximum, "
    "2d: maxima within 1e-9 relative are treated as tied)",
    "mirror image is formed on uniform grids only (forward bin widths are not mirror symmetric on a non-uniform grid)",
]
REQUIRED_CATEGORIES = [
    "dir_Q1", "dir_Q2", "dir_Q3", "dir_Q4", "dir_on_axis", "dir_seam_gt179", "dir_compared", "dir_classified_small_r",
    "spread_compared", "spread_zero", "spread_max", "band_empty", "band_single_node", "band_edge_on_node",
    "band_no_energy_classified", "peak_tie", "peak_compared", "per_frequency_compared", "mean_moment_compared",
    "rotation_direction_pairs", "rotation_invariant_pairs", "mirror_direction_pairs", "mirror_invariant_pairs",
    "layout_scalar", "layout_time", "layout_time_lat", "layout_flat", "range_checked",
    "history_executed", "history_read_then_mutate", "history_mutation_steps", "history_reads_checked",
    "history_direction_compared", "grid_relabelled_coordinate", "layout_time_T", "grid_every_N",
    "storage_dtype_members",
]

F = np.array([0.05, 0.1, 0.2, 0.35])
NF = 4
LAYOUTS = ("scalar", "time", "time_lat", "flat")
# "time_T" (2d only): leading dimension time, spectral dimensions stored as (direction, frequency)
LEAD_NAMES = {"scalar": (), "time": ("time",), "time_lat": ("time", "latitude"), "flat": ("linear_index",),
              "time_T": ("time",)}


EVERY_N = tuple(range(8, 145))
EVERY_N_STARTS = (0.0, 7.5, 350.0, -170.0)        # start of the grid with N bins: EVERY_N_STARTS[N % 4]
STORAGE_DTYPES = ("float32", "float16", "int32", "uint16")
DTYPE_GRIDS = {"quick": ["uni12@7.5"], "thorough": ["uni36@350"]}


def make_1d_dtype(f, E, a1, b1, a2, b2, dtype):
    """(time, frequency) FrequencySpectrum whose variance density is stored with the given dtype."""
    from ocean_science_utilities.wavespectra.spectrum import create_1d_spectrum

    sp, dims = _space(E.shape[:-1])
    return create_1d_spectrum(np.asarray(f, dtype=float), np.asarray(E, dtype=float).astype(dtype), sp["time"],
                              sp["latitude"], sp["longitude"], a1=a1, b1=b1, a2=a2, b2=b2,
                              depth=np.full(E.shape[:-1], np.inf), dims=dims + ("frequency",))


class ShapeMismatch(Exception):
    """a library result does not have one entry per member; reported as a violation, never a harness error."""

    def __init__(self, check, what):
        super().__init__(what)
        self.check, self.what = check, what


def fit(v, shape, check, what):
    v = np.asarray(v)
    if v.size != int(np.prod(shape)):
        raise ShapeMismatch(check, f"{what}: shape {v.shape}, expected {tuple(shape)} (one entry per member)")
    return v.reshape(shape)


def make_2d(f, d, E, depth=np.inf, flat=False, transposed=False, dtype=None):
    """as mc.common.make_2d; the spectral dimensions can be stored as (direction, frequency)."""
    from ocean_science_utilities.wavespectra.spectrum import create_2d_spectrum

    E = np.asarray(E, dtype=float)
    lead = E.shape[:-2]
    sp, dims = _space(lead)
    dep = np.broadcast_to(np.asarray(depth, dtype=float), lead).copy() if lead else float(depth)
    sdims = ("frequency", "direction")
    if transposed:
        E = np.ascontiguousarray(np.swapaxes(E, -1, -2))
        sdims = ("direction", "frequency")
    if dtype is not None:
        E = E.astype(dtype)     # storage dtype of the variance density (values are exactly representable)
    s = create_2d_spectrum(np.asarray(f, dtype=float), np.asarray(d, dtype=float), E, sp["time"], sp["latitude"],
                           sp["longitude"], dims=dims + sdims, depth=dep)
    return s.flatten() if flat else s
SPREAD_MAX = 81.03
TOL_M = 1e-12        # absolute tolerance of a (band averaged) moment: 4..144 terms, |term| <= 1
TOL_D = 4e-12        # |r cos D - A|: error of A plus error of r
TOL_S2 = 8e-12       # spread^2 in rad^2 = 2(1-r): 2 * error of r, doubled
MAX_CELLS = 2_000_000

# history family: one object, a sequence of reads and in-place modifications
HISTORY_GRIDS = {"quick": ["uni12@7.5"], "thorough": ["uni8@-170", "uni36@350"]}
HISTORY_MAXLEN = 3
B_MID = (0.1, 0.35)
B_LOW = (0.05, float(np.nextafter(0.2, 1)))
# read operation -> (library attribute, band used as a history step, band used in the closing observation)
HISTORY_READS = {
    "mean_direction": ("mean_direction", None, B_MID),
    "mean_directional_spread": ("mean_directional_spread", B_MID, None),
    "peak_direction": ("peak_direction", B_LOW, None),
    "peak_directional_spread": ("peak_directional_spread", None, B_LOW),
    "mean_direction_per_frequency": ("mean_direction_per_frequency", "prop", "prop"),
    "mean_spread_per_frequency": ("mean_spread_per_frequency", "prop", "prop"),
}
HISTORY_MUTATORS = {
    "1d": ("mul_full", "mul_axis", "fillna", "setitem", "dataset_assign", "values_inplace", "set_a1", "set_b1"),
    "2d": ("mul_full", "mul_axis", "fillna", "setitem", "dataset_assign", "values_inplace"),
}


def history_ops(part):
    return tuple(HISTORY_READS) + HISTORY_MUTATORS[part]


# ---------------------------------------------------------------------------------------------
# 1d alphabet
# ---------------------------------------------------------------------------------------------
def lattice():
    """list of (label, a, b); multiples of 90 degrees are exact; phi=180 also with b = -0.0."""
    exact = {0: (1.0, 0.0), 90: (0.0, 1.0), 180: (-1.0, 0.0), 270: (0.0, -1.0)}
    pts = [((0.0, 0), 0.0, 0.0)]
    for r in (0.1, 0.5, 0.9, 1.0):
        for phi in range(0, 360, 15):
            if phi in exact:
                ca, sb = exact[phi]
            else:
                ca, sb = math.cos(math.radians(phi)), math.sin(math.radians(phi))
            pts.append(((r, phi), r * ca, r * sb))
        pts.append(((r, -180), -r, -0.0))
    return pts


def patterns(tier):
    """list of (label, (i0,i1,i2,i3)) lattice indices per frequency."""
    L = lattice()
    n = len(L)
    out = [(("const", i), (i, i, i, i)) for i in range(n)]
    if tier == "thorough":
        sub = list(range(n))
    else:
        sub = [i for i, (lab, _, _) in enumerate(L) if lab[0] in (0.0, 0.5, 1.0) and lab[1] % 45 == 0 and lab[1] >= 0]
    for i in sub:
        for j in sub:
            out.append((("alt", i, j), (i, j, i, j)))
    for i in range(n):
        out.append((("stride", i), (i, (i + 7) % n, (i + 31) % n, (i + 59) % n)))
    return out


WORDS = list(itertools.product((0.0, 1.0, 3.0), repeat=NF))


def band_table():
    lo = [0.0, 0.05, 0.075, 0.1, 0.15, float(np.nextafter(0.2, 0)), 0.2, float(np.nextafter(0.2, 1)), 0.275, 0.35, 0.4]
    hi = [0.05, 0.075, 0.1, 0.15, float(np.nextafter(0.2, 0)), 0.2, float(np.nextafter(0.2, 1)), 0.275, 0.35, 0.4,
          float("inf")]
    return [None] + [(a, b) for a in lo for b in hi]


SCALAR_BANDS_1D = [None, (0.05, float(np.nextafter(0.2, 1))), (0.1, 0.35), (0.2, 0.1), (0.35, float("inf"))]


def band_mask(band):
    if band is None:
        return np.ones(NF, dtype=bool)
    return np.array([(f >= band[0]) and (f < band[1]) for f in F])


def trapz_band(g, mask):
    sel = [i for i in range(NF) if mask[i]]
    tot = np.zeros(g.shape[:-1])
    for a, b in zip(sel[:-1], sel[1:]):
        tot = tot + 0.5 * (F[b] - F[a]) * (g[..., a] + g[..., b])
    return tot


# ---------------------------------------------------------------------------------------------
# 2d alphabet
# ---------------------------------------------------------------------------------------------
def grids2d(tier):
    out = []
    for n in (8, 12, 36) + ((72, 144) if tier == "thorough" else ()):
        for sname, start in (("0", 0.0), ("7.5", 7.5), ("350", 350.0), ("-170", -170.0)):
            out.append({"name": f"uni{n}@{sname}", "n": n, "theta": [start + j * 360.0 / n for j in range(n)]})
    # relabelled coordinates: the rotation done on the coordinate, (theta + k*step) % 360 WITHOUT re-sorting, so that
    # the coordinate passes 360 -> 0 in the interior of the array
    for n, sname, start in ((8, "350w", 350.0), (12, "127.5w", 127.5)) + (
            ((36, "350w", 350.0), (72, "127.5w", 127.5)) if tier == "thorough" else ()):
        out.append({"name": f"uni{n}@{sname}", "n": n, "theta": [(start + j * 360.0 / n) % 360.0 for j in range(n)],
                    "relabelled": True})
    return out


def bases2d(theta):
    """list of (label, E[NF, N]); row 2 carries no energy; the rows differ so that band means mix directions."""
    n = len(theta)
    step = 360.0 / n
    out = []

    def delta(j, amp=1.0):
        d = np.zeros(n)
        d[j % n] = amp
        return d

    def lobe(centre, power, half=False):
        if half:
            return np.array([math.cos(math.radians(t - centre) / 2.0) ** 2 for t in theta])
        return np.array([max(0.0, math.cos(math.radians(t - centre))) ** power for t in theta])

    for j in range(n):
        out.append((("imp", j), np.stack([delta(j), 0.5 * delta(j + 1), np.zeros(n), 2.0 * delta(2 * j + 3)])))
    for j in range(1, n):
        out.append((("pair", j), np.stack([delta(0) + delta(j, 0.6), 0.5 * (delta(j) + delta(2 * j, 0.3)), np.zeros(n),
                                           2.0 * delta(n - j) + delta(1, 0.25)])))
    for j in range(n):
        c0 = theta[j] + 0.3 * step
        out.append((("lobe", j), np.stack([lobe(c0, 2), 0.5 * lobe(c0 + 90.0 + 0.2 * step, 8), np.zeros(n),
                                           2.0 * lobe(theta[(2 * j) % n] - 0.4 * step, 2, half=True)])))
    return out


BANDS_2D = [None, (0.1, 0.35), (0.05, float(np.nextafter(0.2, 1))), (0.2, 0.05)]


def units(tier):
    us = []
    npat = len(patterns(tier))
    nchunk = 1 if tier == "quick" else 8
    for layout in LAYOUTS:
        if layout == "scalar":
            us.append({"name": "1d:scalar", "kind": "1d", "layout": layout, "chunk": 0, "nchunk": 1, "cost": 3000})
            continue
        for ch in range(nchunk):
            us.append({"name": f"1d:{layout}:{ch}", "kind": "1d", "layout": layout, "chunk": ch, "nchunk": nchunk,
                       "cost": npat // nchunk})
    for g in grids2d(tier):
        # named restriction 'transposed_layout_quick': quick runs the (time, direction, frequency) storage order
        # on the 8- and 12-bin grids only
        for layout in LAYOUTS + (("time_T",) if (tier == "thorough" or g["n"] <= 12) else ()):
            n = g["n"]
            cost = 6 * n * n * n / 20 if layout != "scalar" else 40 * n
            us.append({"name": f"2d:{g['name']}:{layout}", "kind": "2d", "grid": g["name"], "layout": layout,
                       "cost": int(cost)})
    for r in range(8):     # every uniform N in 8..144, sharded by N % 8
        us.append({"name": f"2d:everyN:{r}", "kind": "2d_everyN", "residue": r, "layout": "time", "cost": 1200})
    for gname in DTYPE_GRIDS["quick"] + (DTYPE_GRIDS["thorough"] if tier == "thorough" else []):
        for dt in STORAGE_DTYPES:
            us.append({"name": f"2d:dtype:{dt}:{gname}", "kind": "2d_dtype", "grid": gname, "dtype": dt,
                       "layout": "time", "cost": 400})
    for dt in STORAGE_DTYPES:
        us.append({"name": f"1d:dtype:{dt}", "kind": "1d", "layout": "time", "dtype": dt, "chunk": 0, "nchunk": 1,
                   "cost": 300})
    # history family (see run_history): named restriction 'history_length3_quick' -- the quick tier runs the
    # length-3 histories in the (time) layout only, the other layouts run every history of length <= 2
    targets = [("1d", None)] + [("2d", gname) for gname in
                                HISTORY_GRIDS["quick"] + (HISTORY_GRIDS["thorough"] if tier == "thorough" else [])]
    for part, gname in targets:
        ops = history_ops(part)
        base = f"history:{part}" + (f":{gname}" if gname else "")
        for layout in LAYOUTS:
            if tier == "thorough" or layout == "time":
                for op in ops:
                    us.append({"name": f"{base}:{layout}:first={op}", "kind": "history", "part": part, "grid": gname,
                               "layout": layout, "maxlen": HISTORY_MAXLEN, "first": op,
                               "cost": 800 if part == "2d" else 300})
            else:
                us.append({"name": f"{base}:{layout}", "kind": "history", "part": part, "grid": gname,
                           "layout": layout, "maxlen": 2, "first": None, "cost": 1500 if part == "2d" else 400})
    return us


# ---------------------------------------------------------------------------------------------
# shared oracle pieces (no library import)
# ---------------------------------------------------------------------------------------------
class Reporter:
    def __init__(self, c, base_key, cap=4):
        self.c, self.base, self.cap, self.n = c, base_key, cap, {}

    def __call__(self, check, what, **key_and_detail):
        k = self.n.get(check, 0)
        self.n[check] = k + 1
        what = re.sub(r"np\.(?:float64|int64|bool_?)\(([^()]*)\)", r"\1", what)
        if k < self.cap:
            key = dict(self.base, check=check)
            detail = {}
            for name, v in key_and_detail.items():
                (key if name in ("member", "band", "quantity", "k", "mirror") else detail)[name] = v
            self.c.violation(key, f"{check}: {what}", **detail)
        else:
            self.c.violations_total += 1


def _vals(x):
    return np.asarray(getattr(x, "values", x))


def direction_ok(D, A, B, r):
    """D (degrees) is an argument of the vector (A,B): r cos D = A, r sin D = B."""
    with np.errstate(invalid="ignore"):
        Dr = np.radians(D)
        return (np.abs(r * np.cos(Dr) - A) <= TOL_D) & (np.abs(r * np.sin(Dr) - B) <= TOL_D)


def spread_ok(S, r):
    with np.errstate(invalid="ignore"):
        want = np.maximum(0.0, 2.0 * (1.0 - r))
        return np.abs(np.radians(S) ** 2 - want) <= TOL_S2


def in_range(c, rep, name, D, lo, hi, **kw):
    """range check of every non-NaN returned value."""
    D = np.asarray(D, dtype=float)
    with np.errstate(invalid="ignore"):
        bad = ~np.isnan(D) & ~((D >= lo) & (D <= hi))
    c.cat("range_checked", int(np.sum(~np.isnan(D))))
    if bad.any():
        i = np.argwhere(bad)[0]
        rep(name + " range", f"value {D[tuple(i)]!r} outside [{lo},{hi}]", quantity=name, index=i.tolist(), **kw)


def classify_direction(c, A, B, r, ok):
    """category counters for the reference direction of the compared cases."""
    a, b = A[ok], B[ok]
    c.cat("dir_Q1", int(np.sum((a > 0) & (b > 0))))
    c.cat("dir_Q2", int(np.sum((a < 0) & (b > 0))))
    c.cat("dir_Q3", int(np.sum((a < 0) & (b < 0))))
    c.cat("dir_Q4", int(np.sum((a > 0) & (b < 0))))
    c.cat("dir_on_axis", int(np.sum((a == 0) | (b == 0))))
    with np.errstate(invalid="ignore", divide="ignore"):
        c.cat("dir_seam_gt179", int(np.sum((a < 0) & (np.abs(b) < np.abs(a) * math.tan(math.radians(1.0))))))


def check_band_quantities(c, rep, lib, ref, band_key, labels, count_nontrivial):
    """lib: dict name -> (n,) arrays for one band; ref: dict with m0, A1,B1,A2,B2 (n,), e (n,NF), a1,b1 (n,NF),
    mask (NF,), peak_tol."""
    n = len(ref["m0"])
    has = ref["m0"] > 0
    A, B = ref["A1"], ref["B1"]
    r = np.sqrt(A ** 2 + B ** 2)
    c.cat("band_no_energy_classified", int(np.sum(~has)))
    # band averaged moments
    for nm, want in (("mean_a1", A), ("mean_b1", B), ("mean_a2", ref["A2"]), ("mean_b2", ref["B2"])):
        if nm not in lib:
            continue
        with np.errstate(invalid="ignore"):
            bad = has & ~(np.abs(lib[nm] - want) <= TOL_M)
        for i in np.nonzero(bad)[0][:2]:
            rep(nm, f"{lib[nm][i]!r} but the energy weighted band average is {want[i]!r}", member=labels(i),
                band=band_key, e=ref["e"][i].tolist())
        c.cat("mean_moment_compared", int(np.sum(has)))
    # mean direction
    D = lib["mean_direction"]
    cmp_d = has & (r > 1e-9)
    bad = cmp_d & ~direction_ok(D, A, B, r)
    for i in np.nonzero(bad)[0][:2]:
        rep("mean_direction", f"{D[i]!r} is not atan2(B,A) for A={A[i]!r}, B={B[i]!r} "
            f"(={math.degrees(math.atan2(B[i], A[i]))!r})", member=labels(i), band=band_key, e=ref["e"][i].tolist())
    c.cat("dir_compared", int(np.sum(cmp_d)))
    c.cat("dir_classified_small_r", int(np.sum(has & ~(r > 1e-9))))
    classify_direction(c, A, B, r, cmp_d)
    in_range(c, rep, "mean_direction", D, -180.0, 180.0, band=band_key)
    # mean spread
    S = lib["mean_directional_spread"]
    bad = has & ~spread_ok(S, r)
    for i in np.nonzero(bad)[0][:2]:
        rep("mean_directional_spread", f"{S[i]!r} but sqrt(2(1-r)) = "
            f"{math.degrees(math.sqrt(max(0.0, 2 * (1 - r[i]))))!r} for r={r[i]!r}", member=labels(i), band=band_key,
            e=ref["e"][i].tolist())
    c.cat("spread_compared", int(np.sum(has)))
    c.cat("spread_zero", int(np.sum(has & (r >= 1 - 1e-12))))
    c.cat("spread_max", int(np.sum(has & (r <= 1e-12))))
    in_range(c, rep, "mean_directional_spread", np.where(has, S, np.nan), 0.0, SPREAD_MAX, band=band_key)
    if count_nontrivial:
        c.nontriv(n=int(np.sum(cmp_d)))
    # peak variants: the moments at an in-band maximum of e
    mask = ref["mask"]
    em = np.where(mask[None, :], ref["e"], -1.0)
    emax = em.max(axis=1)
    pk_ok = emax > 0
    cand = mask[None, :] & (ref["e"] >= emax[:, None] * (1.0 - ref["peak_tol"])) & pk_ok[:, None]
    c.cat("peak_tie", int(np.sum(cand.sum(axis=1) > 1)))
    c.cat("peak_compared", int(np.sum(pk_ok)))
    ra = np.sqrt(ref["a1"] ** 2 + ref["b1"] ** 2)
    PD = lib["peak_direction"]
    PS = lib["peak_directional_spread"]
    okd = np.zeros(n, dtype=bool)
    oks = np.zeros(n, dtype=bool)
    for i in range(NF):
        with np.errstate(invalid="ignore"):
            small = ~(ra[:, i] > 1e-9)
        okd |= cand[:, i] & (small | direction_ok(PD, ref["a1"][:, i], ref["b1"][:, i], ra[:, i]))
        oks |= cand[:, i] & spread_ok(PS, ra[:, i])
    for nm, ok, v in (("peak_direction", okd, PD), ("peak_directional_spread", oks, PS)):
        for i in np.nonzero(pk_ok & ~ok)[0][:2]:
            rep(nm, f"{v[i]!r} does not follow from (a1,b1) at an in-band maximum of e: e={ref['e'][i].tolist()}, "
                f"a1={ref['a1'][i].tolist()}, b1={ref['b1'][i].tolist()}", member=labels(i), band=band_key)
    in_range(c, rep, "peak_direction", PD, -180.0, 180.0, band=band_key)
    in_range(c, rep, "peak_directional_spread", np.where(pk_ok, PS, np.nan), 0.0, SPREAD_MAX, band=band_key)


def check_per_frequency(c, rep, Df, Sf, a1, b1, valid, labels):
    """per-frequency variants; valid (n,NF) marks frequencies whose moments are defined."""
    r = np.sqrt(a1 ** 2 + b1 ** 2)
    with np.errstate(invalid="ignore"):
        cmp_d = valid & (r > 1e-9)
    bad = cmp_d & ~direction_ok(Df, a1, b1, r)
    for i, fi in zip(*np.nonzero(bad)):
        rep("mean_direction_per_frequency", f"{Df[i, fi]!r} at f{fi} is not atan2(b1,a1) for a1={a1[i, fi]!r}, "
            f"b1={b1[i, fi]!r}", member=labels(i))
        break
    bad = valid & ~spread_ok(Sf, r)
    for i, fi in zip(*np.nonzero(bad)):
        rep("mean_spread_per_frequency", f"{Sf[i, fi]!r} at f{fi} but r={r[i, fi]!r}", member=labels(i))
        break
    c.cat("per_frequency_compared", int(np.sum(valid)))
    in_range(c, rep, "mean_direction_per_frequency", Df, -180.0, 180.0)
    in_range(c, rep, "mean_spread_per_frequency", np.where(valid, Sf, np.nan), 0.0, SPREAD_MAX)


BAND_FUNCS = ("mean_direction", "mean_directional_spread", "mean_a1", "mean_b1", "mean_a2", "mean_b2",
              "peak_direction", "peak_directional_spread")


def call_band(s, fn, band, n, lead_names, rep, band_key):
    r = getattr(s, fn)(*(() if band is None else band))
    dims = tuple(getattr(r, "dims", ()))
    v = _vals(r)
    if v.size != n:
        rep(fn + " shape", f"result has shape {v.shape} for {n} spectra", band=band_key)
        return None
    if dims != lead_names:
        # np.trapezoid based results may come back without names; only the size/order is demanded
        pass
    return v.reshape(n).astype(float)


def _lib_raised(exc):
    return not traceback.extract_tb(exc.__traceback__)[-1].filename.startswith("/verif/")


# ---------------------------------------------------------------------------------------------
# 1d units
# ---------------------------------------------------------------------------------------------
def run_1d(unit):
    c = Collector()
    layout = unit["layout"]
    tier = unit["tier"]
    rep = Reporter(c, {"part": "1d", "layout": layout})
    c.cat("layout_" + layout)
    L = lattice()
    la = np.array([p[1] for p in L])
    lb = np.array([p[2] for p in L])
    nl = len(L)
    pats = patterns(tier)
    dtype = unit.get("dtype")
    if dtype:
        rep.base["dtype"] = dtype
    if layout == "scalar" or dtype:
        pat_by_label = dict(pats)
        alt = next(lab for lab, _ in pats if lab[0] == "alt" and lab[1] != lab[2] and lab[1] > 0 and lab[2] > 0)
        mem = [(("const", i), (1.0, 3.0, 0.0, 1.0)) for i in range(nl)] + [(alt, w) for w in WORDS]
        mem = [(lab, pat_by_label[lab], w) for lab, w in mem]
        bands = SCALAR_BANDS_1D
    else:
        mine = pats[unit["chunk"]::unit["nchunk"]]
        mem = [(lab, idx, w) for lab, idx in mine for w in WORDS]
        bands = band_table()
    n = len(mem)
    idx = np.array([m[1] for m in mem])                  # (n, NF) lattice indices
    E = np.array([m[2] for m in mem])                    # (n, NF)
    a1, b1 = la[idx], lb[idx]
    idx2 = (idx * 5 + 3) % nl                            # a different lattice point for the second moments
    a2, b2 = la[idx2], lb[idx2]
    labels = lambda i: [list(mem[i][0]), list(mem[i][2])]  # noqa: E731

    def build(sl):
        if dtype:
            c.cat("storage_dtype_members", len(E[sl]))
            return make_1d_dtype(F, E[sl], a1[sl], b1[sl], a2[sl], b2[sl], dtype)
        if layout == "scalar":
            return make_1d(F, E[sl][0], a1[sl][0], b1[sl][0], a2[sl][0], b2[sl][0])
        k = len(E[sl])
        shp = lambda x: reshape_lead(x, layout, (NF,))  # noqa: E731
        return make_1d(F, shp(E[sl]), shp(a1[sl]), shp(b1[sl]), shp(a2[sl]), shp(b2[sl]), flat=(layout == "flat"))

    if layout == "scalar":
        slices = [slice(i, i + 1) for i in range(n)]
    else:
        size = 240_000
        slices = [slice(a, min(n, a + size)) for a in range(0, n, size)]
    lead_names = LEAD_NAMES[layout]
    valid = np.ones((n, NF), dtype=bool)
    for sl in slices:
        k = len(E[sl])
        lab_sl = lambda i, _o=sl.start: labels(_o + i)  # noqa: E731
        try:
            s = build(sl)
            Df = fit(_vals(s.mean_direction_per_frequency), (k, NF), "shape", "mean_direction_per_frequency")
            Sf = fit(_vals(s.mean_spread_per_frequency), (k, NF), "shape", "mean_spread_per_frequency")
            check_per_frequency(c, rep, Df, Sf, a1[sl], b1[sl], valid[sl], lab_sl)
            for band in bands:
                mask = band_mask(band)
                bkey = "default" if band is None else [float(band[0]), float(band[1])]
                c.evaluations += k
                nsel = int(mask.sum())
                c.cat("band_empty", k if nsel == 0 else 0)
                c.cat("band_single_node", k if nsel == 1 else 0)
                c.cat("band_edge_on_node", k if (band is not None and (band[0] in F or band[1] in F)) else 0)
                lib = {}
                for fn in BAND_FUNCS:
                    v = call_band(s, fn, band, k, lead_names, rep, bkey)
                    if v is not None:
                        lib[fn] = v
                if len(lib) != len(BAND_FUNCS):
                    continue
                e = E[sl]
                m0 = trapz_band(e, mask)
                den = np.where(m0 > 0, m0, 1.0)
                ref = {"m0": m0, "e": e, "a1": a1[sl], "b1": b1[sl], "mask": mask, "peak_tol": 0.0}
                for nm, q in (("A1", a1[sl]), ("B1", b1[sl]), ("A2", a2[sl]), ("B2", b2[sl])):
                    ref[nm] = trapz_band(q * e, mask) / den
                check_band_quantities(c, rep, lib, ref, bkey, lab_sl, count_nontrivial=(layout == "time"))
        except ShapeMismatch as exc:
            rep(exc.check, exc.what, member=lab_sl(0))
        except Exception as exc:
            if not _lib_raised(exc):
                raise
            rep("raises", f"{type(exc).__name__}: {exc}", member=lab_sl(0), traceback=traceback.format_exc()[-1500:])
    c.case({"part": "1d", "layout": layout, "chunk": unit["chunk"], "members": n, "bands": len(bands)})
    c.sample({"part": "1d", "layout": layout, "member": labels(n // 3), "a1": a1[n // 3].tolist(),
              "b1": b1[n // 3].tolist(), "e": E[n // 3].tolist()})
    return c.result()


# ---------------------------------------------------------------------------------------------
# 2d units
# ---------------------------------------------------------------------------------------------
def ref_2d(theta, E):
    """E (n, NF, N) -> e (n,NF), a1,b1,a2,b2 (n,NF) with NaN where e == 0.  Uniform grid: width 360/N."""
    N = len(theta)
    w = 360.0 / N
    e = E.sum(axis=2) * w
    out = [e]
    for mult, fn in ((1.0, math.cos), (1.0, math.sin), (2.0, math.cos), (2.0, math.sin)):
        k = np.array([fn(mult * math.radians(t)) for t in theta])
        num = (E * k[None, None, :]).sum(axis=2) * w
        with np.errstate(invalid="ignore", divide="ignore"):
            out.append(np.where(e > 0, num / np.where(e > 0, e, 1.0), np.nan))
    return out


INVARIANTS = ("hm0", "tm01", "tm02", "peak_frequency")


def bases_every_n(theta):
    """energy in the first bin, in the last bin, and a lobe across the wrap (different rows per frequency)."""
    n = len(theta)
    step = 360.0 / n

    def delta(j, amp=1.0):
        d = np.zeros(n)
        d[j % n] = amp
        return d

    def lobe(centre, power, half=False):
        if half:
            return np.array([math.cos(math.radians(t - centre) / 2.0) ** 2 for t in theta])
        return np.array([max(0.0, math.cos(math.radians(t - centre))) ** power for t in theta])

    return [
        (("first",), np.stack([delta(0), 0.5 * delta(n - 1), np.zeros(n), 2.0 * delta(1)])),
        (("last",), np.stack([delta(n - 1), 0.5 * delta(0), np.zeros(n), 2.0 * delta(n // 2)])),
        (("wraplobe",), np.stack([lobe(theta[0] - 0.3 * step, 2), 0.5 * lobe(theta[n - 1] + 0.2 * step, 8), np.zeros(n),
                                  2.0 * lobe(theta[0] + 0.4 * step, 2, half=True)])),
    ]


def bases_int(theta):
    """whole-number valued bases (exactly representable in float16 / float32 / int32 / uint16)."""
    n = len(theta)
    step = 360.0 / n
    out = []

    def delta(j, amp):
        d = np.zeros(n)
        d[j % n] = amp
        return d

    def stair(centre, power, top):
        return np.round(top * np.array([max(0.0, math.cos(math.radians(t - centre))) ** power for t in theta]))

    for j in range(n):
        out.append((("imp", j), np.stack([delta(j, 3), delta(j + 1, 1), np.zeros(n), delta(2 * j + 3, 5)])))
    for j in range(1, n):
        out.append((("pair", j), np.stack([delta(0, 4) + delta(j, 2), delta(j, 1) + delta(2 * j, 1), np.zeros(n),
                                           delta(n - j, 6) + delta(1, 1)])))
    for j in range(n):
        c0 = theta[j] + 0.3 * step
        out.append((("stair", j), np.stack([stair(c0, 2, 8), stair(c0 + 90.0 + 0.2 * step, 8, 4), np.zeros(n),
                                            stair(theta[(2 * j) % n] - 0.4 * step, 2, 9)])))
    return out


def run_2d(unit):
    c = Collector()
    layout = unit["layout"]
    tier = unit["tier"]
    c.cat("layout_" + layout)
    if unit["kind"] == "2d_everyN":
        for n in EVERY_N:
            if n % 8 != unit["residue"]:
                continue
            start = EVERY_N_STARTS[n % 4]
            g = {"name": f"every{n}@{start:g}", "n": n, "theta": [start + j * 360.0 / n for j in range(n)]}
            ks = [0] + sorted({1, n // 3, n - 1})
            grid_2d(c, g, layout, bases_every_n(g["theta"]), ks, BANDS_2D[:2], 3, None, n == 8 + unit["residue"])
            c.cat("grid_every_N")
            c.case({"part": "2d", "family": "everyN", "grid": g["name"], "ks": ks})
        return c.result()
    g = next(x for x in grids2d(tier) if x["name"] == unit["grid"])
    theta = list(g["theta"])
    N = g["n"]
    c.cat("grid_relabelled_coordinate", int(bool(g.get("relabelled"))))
    if unit["kind"] == "2d_dtype":
        bases = bases_int(theta)
        for _, Eb in bases:
            assert np.all(Eb == np.round(Eb)) and np.all(Eb.astype(unit["dtype"]).astype(float) == Eb)
        c.cat("storage_dtype_members", len(bases) * N * 2)
        grid_2d(c, g, layout, bases, list(range(N)), BANDS_2D, max(1, MAX_CELLS // (N * NF * N)), unit["dtype"], True)
        c.case({"part": "2d", "family": "dtype", "dtype": unit["dtype"], "grid": g["name"], "bases": len(bases)})
        return c.result()
    bases = bases2d(theta)
    if layout == "scalar":
        bases = [b for b in bases if b[0] in ((("imp", 1), ("lobe", 0)) if N < 72 else (("lobe", 0),))]
        bands = BANDS_2D[:2]
        per = 1
    else:
        bands = BANDS_2D
        per = max(1, MAX_CELLS // (N * NF * N))       # bases per chunk (each gives N rotations)
    grid_2d(c, g, layout, bases, list(range(N)), bands, per, None, True)
    c.case({"part": "2d", "grid": g["name"], "layout": layout, "bases": len(bases), "bands": len(bands)})
    return c.result()


def grid_2d(c, g, layout, bases, ks, bands, per, dtype, sample):
    """one grid: every base x every rotation in ks (ks[0] == 0) x {original, mirror image}; definitions and
    the closed relations."""
    theta = list(g["theta"])
    N = g["n"]
    nk = len(ks)
    step = 360.0 / N
    order = sorted(range(N), key=lambda j: -theta[j])  # mirror image: coordinate negated and re-sorted
    theta_m = [-theta[j] for j in order]
    key = {"part": "2d", "grid": g["name"], "layout": layout}
    if dtype:
        key["dtype"] = dtype
    rep = Reporter(c, key)
    lead_names = LEAD_NAMES[layout]

    for b0 in range(0, len(bases), per):
        chunk = bases[b0:b0 + per]
        nb = len(chunk)
        # members: (base, k) -> E[..., j] = base[..., j-k]
        Erot = np.stack([np.stack([np.roll(Eb, k, axis=-1) for k in ks]) for _, Eb in chunk])  # (nb,nk,NF,N)
        Erot = Erot.reshape(nb * nk, NF, N)
        Emir = Erot[:, :, order]
        n = nb * nk
        labels = lambda i, mirror=False: [list(chunk[i // nk][0]), int(ks[i % nk]), bool(mirror)]  # noqa: E731
        results = {}
        for mirror, th, E in ((False, theta, Erot), (True, theta_m, Emir)):
            lab = lambda i, _m=mirror: labels(i, _m)  # noqa: E731
            groups = [slice(0, n)] if layout != "scalar" else [slice(i, i + 1) for i in range(n)]
            obs = {}
            for sl in groups:
                k = sl.stop - sl.start
                try:
                    if layout == "scalar":
                        s = make_2d(F, np.array(th), E[sl][0], dtype=dtype)
                    elif layout == "time_T":
                        s = make_2d(F, np.array(th), np.ascontiguousarray(E[sl]), transposed=True, dtype=dtype)
                    else:
                        s = make_2d(F, np.array(th), reshape_lead(np.ascontiguousarray(E[sl]), layout, (NF, N)),
                                    flat=(layout == "flat"), dtype=dtype)
                    part = {"Df": fit(_vals(s.mean_direction_per_frequency), (k, NF), "shape",
                                      "mean_direction_per_frequency"),
                            "Sf": fit(_vals(s.mean_spread_per_frequency), (k, NF), "shape",
                                      "mean_spread_per_frequency")}
                    for bi, band in enumerate(bands):
                        bkey = "default" if band is None else [float(band[0]), float(band[1])]
                        for fn in BAND_FUNCS + INVARIANTS:
                            v = call_band(s, fn, band, k, lead_names, rep, bkey)
                            part[(fn, bi)] = v if v is not None else np.full(k, np.nan)
                except ShapeMismatch as exc:
                    rep(exc.check, exc.what, member=lab(sl.start))
                    part = None
                except Exception as exc:
                    if not _lib_raised(exc):
                        raise
                    rep("raises", f"{type(exc).__name__}: {exc}", member=lab(sl.start),
                        traceback=traceback.format_exc()[-1500:])
                    part = None
                if part is None:
                    obs = None
                    break
                for key, v in part.items():
                    obs.setdefault(key, []).append(v)
            if obs is None:
                results = None
                break
            obs = {key: np.concatenate(v, axis=0) for key, v in obs.items()}
            results[mirror] = obs
            # ---- definitions against the independent reference ------------------------------------------
            e, a1, b1, a2, b2 = ref_2d(th, np.ascontiguousarray(E))
            valid = e > 0
            z = lambda x: np.where(valid, x, 0.0)  # noqa: E731
            check_per_frequency(c, rep, obs["Df"], obs["Sf"], z(a1), z(b1), valid, lab)
            for bi, band in enumerate(bands):
                mask = band_mask(band)
                bkey = "default" if band is None else [float(band[0]), float(band[1])]
                c.evaluations += n
                nsel = int(mask.sum())
                c.cat("band_empty", n if nsel == 0 else 0)
                c.cat("band_single_node", n if nsel == 1 else 0)
                c.cat("band_edge_on_node", n if (band is not None and (band[0] in F or band[1] in F)) else 0)
                m0 = trapz_band(e, mask)
                den = np.where(m0 > 0, m0, 1.0)
                ref = {"m0": m0, "e": e, "a1": z(a1), "b1": z(b1), "mask": mask, "peak_tol": 1e-9}
                for nm, q in (("A1", a1), ("B1", b1), ("A2", a2), ("B2", b2)):
                    ref[nm] = trapz_band(z(q) * e, mask) / den
                lib = {fn: obs[(fn, bi)] for fn in BAND_FUNCS}
                check_band_quantities(c, rep, lib, ref, bkey, lab, count_nontrivial=(layout == "time"))
                results[(mirror, "ref", bi)] = ref
        if results is None:
            continue
        # ---- closed relations on the implementation's own outputs ---------------------------------------------
        kk = np.tile(np.array(ks), nb)
        base_of = (np.arange(n) // nk) * nk              # index of the k=0 member of the same base
        for bi, band in enumerate(bands):
            bkey = "default" if band is None else [float(band[0]), float(band[1])]
            ref = results[(False, "ref", bi)]
            has = ref["m0"] > 0
            r = np.sqrt(ref["A1"] ** 2 + ref["B1"] ** 2)
            rb = r[base_of]
            with np.errstate(invalid="ignore", divide="ignore"):
                tol = np.degrees(2 * TOL_D / np.where(rb > 1e-9, rb, 1.0)) + 1e-9
            cmp_d = has & (rb > 1e-9)
            # peak comparisons need a unique in-band maximum in the base member
            em = np.where(ref["mask"][None, :], ref["e"], -1.0)
            srt = np.sort(em, axis=1)
            uniq = (srt[:, -1] > 0) & (srt[:, -1] - srt[:, -2] > 1e-9 * srt[:, -1])
            uniq = uniq[base_of]
            pk = np.argmax(em, axis=1)[base_of]
            ra_pk = np.sqrt(ref["a1"] ** 2 + ref["b1"] ** 2)[base_of, pk]
            with np.errstate(invalid="ignore", divide="ignore"):
                tol_pk = np.degrees(2 * TOL_D / np.where(ra_pk > 1e-9, ra_pk, 1.0)) + 1e-9
            o, om = results[False], results[True]
            for fn, cmpmask, tl in (("mean_direction", cmp_d, tol), ("peak_direction", uniq & (ra_pk > 1e-9), tol_pk)):
                D = o[(fn, bi)]
                with np.errstate(invalid="ignore"):
                    bad = cmpmask & ~(angle_diff(D, D[base_of] + kk * step) <= tl)
                for i in np.nonzero(bad)[0][:2]:
                    rep("rotation " + fn, f"rot_k gives {D[i]!r}, base gives {D[base_of[i]]!r}, k*dtheta="
                        f"{kk[i] * step!r}", member=labels(i), band=bkey, k=int(kk[i]))
                c.cat("rotation_direction_pairs", int(np.sum(cmpmask & (kk > 0))))
                Dm = om[(fn, bi)]
                with np.errstate(invalid="ignore"):
                    bad = cmpmask & ~(angle_diff(Dm, -D) <= tl)
                for i in np.nonzero(bad)[0][:2]:
                    rep("mirror " + fn, f"mirror image gives {Dm[i]!r}, original {D[i]!r}", member=labels(i, True),
                        band=bkey, mirror=True)
                c.cat("mirror_direction_pairs", int(np.sum(cmpmask)))
            for fn, cmpmask in (("mean_directional_spread", has), ("peak_directional_spread", uniq)):
                S = o[(fn, bi)]
                Sm = om[(fn, bi)]
                with np.errstate(invalid="ignore"):
                    s2 = np.radians(S) ** 2
                    bad = cmpmask & ~(np.abs(s2 - s2[base_of]) <= 2 * TOL_S2)
                    badm = cmpmask & ~(np.abs(np.radians(Sm) ** 2 - s2) <= 2 * TOL_S2)
                for i in np.nonzero(bad)[0][:2]:
                    rep("rotation " + fn, f"rot_k gives {S[i]!r}, base gives {S[base_of[i]]!r}", member=labels(i),
                        band=bkey, k=int(kk[i]))
                for i in np.nonzero(badm)[0][:2]:
                    rep("mirror " + fn, f"mirror image gives {Sm[i]!r}, original {S[i]!r}", member=labels(i, True),
                        band=bkey, mirror=True)
                c.cat("rotation_invariant_pairs", int(np.sum(cmpmask & (kk > 0))))
                c.cat("mirror_invariant_pairs", int(np.sum(cmpmask)))
            for fn in INVARIANTS:
                V = o[(fn, bi)]
                Vm = om[(fn, bi)]
                cmpmask = uniq if fn == "peak_frequency" else np.ones(n, dtype=bool)
                bad = cmpmask & ~close(V, V[base_of], rtol=1e-12)
                badm = cmpmask & ~close(Vm, V, rtol=1e-12)
                for i in np.nonzero(bad)[0][:2]:
                    rep("rotation " + fn, f"rot_k gives {V[i]!r}, base gives {V[base_of[i]]!r}", member=labels(i),
                        band=bkey, k=int(kk[i]))
                for i in np.nonzero(badm)[0][:2]:
                    rep("mirror " + fn, f"mirror image gives {Vm[i]!r}, original {V[i]!r}", member=labels(i, True),
                        band=bkey, mirror=True)
                c.cat("rotation_invariant_pairs", int(np.sum(cmpmask & (kk > 0))))
                c.cat("mirror_invariant_pairs", int(np.sum(cmpmask)))
        # per-frequency rotation / mirror
        Df, Dfm = results[False]["Df"], results[True]["Df"]
        e, a1, b1, _, _ = ref_2d(theta, np.ascontiguousarray(Erot))
        with np.errstate(invalid="ignore"):
            rf = np.where(e > 0, np.sqrt(a1 ** 2 + b1 ** 2), 0.0)[base_of]
            cmpf = rf > 1e-9
            tolf = np.degrees(2 * TOL_D / np.where(cmpf, rf, 1.0)) + 1e-9
            bad = cmpf & ~(angle_diff(Df, Df[base_of] + (kk * step)[:, None]) <= tolf)
            badm = cmpf & ~(angle_diff(Dfm, -Df) <= tolf)
        for i, fi in zip(*np.nonzero(bad)):
            rep("rotation mean_direction_per_frequency", f"f{fi}: rot_k gives {Df[i, fi]!r}, base "
                f"{Df[base_of[i], fi]!r}, k*dtheta={kk[i] * step!r}", member=labels(i), k=int(kk[i]))
            break
        for i, fi in zip(*np.nonzero(badm)):
            rep("mirror mean_direction_per_frequency", f"f{fi}: mirror gives {Dfm[i, fi]!r}, original {Df[i, fi]!r}",
                member=labels(i, True), mirror=True)
            break
        c.cat("rotation_direction_pairs", int(np.sum(cmpf & (kk > 0)[:, None])))
        c.cat("mirror_direction_pairs", int(np.sum(cmpf)))
        if b0 == 0 and sample:
            c.sample({"part": "2d", "grid": g["name"], "layout": layout, "member": labels(1),
                      "theta": theta, "density_rows": Erot[1].tolist(),
                      "mean_direction": float(results[False][("mean_direction", 0)][1]),
                      "mean_direction_base": float(results[False][("mean_direction", 0)][0]),
                      "mean_direction_mirror": float(results[True][("mean_direction", 0)][1])})


def run_unit(unit):
    if unit["kind"] == "history":
        r = run_history(unit)
    else:
        r = run_1d(unit) if unit["kind"] == "1d" else run_2d(unit)   # kinds 2d, 2d_everyN, 2d_dtype
    if unit["layout"] != "time":
        r["distinct_nontrivial"] = 0
    return r


# ---------------------------------------------------------------------------------------------
# history family: reads and in-place modifications on ONE object
# ---------------------------------------------------------------------------------------------
def history_members_1d():
    """six members: (lattice indices per frequency, energy word); moments finite and inside the unit disc."""
    L = lattice()
    lab = {p[0]: i for i, p in enumerate(L)}
    n = len(L)
    st = lambda i: (i, (i + 7) % n, (i + 31) % n, (i + 59) % n)  # noqa: E731
    c = lambda key: (lab[key],) * 4  # noqa: E731
    return [
        (st(5), (1.0, 3.0, 0.0, 1.0)),
        (c((1.0, 105)), (3.0, 1.0, 1.0, 0.0)),
        ((lab[(0.5, 45)], lab[(1.0, 270)], lab[(0.5, 45)], lab[(1.0, 270)]), (0.0, 1.0, 3.0, 1.0)),
        (c((0.0, 0)), (1.0, 1.0, 1.0, 1.0)),
        (st(40), (3.0, 0.0, 0.0, 3.0)),
        (c((0.9, 180)), (1.0, 0.0, 3.0, 0.0)),
    ]


def history_members_2d(theta):
    """six members E[NF, N], two of them with a NaN bin (so that fillna changes the density)."""
    n = len(theta)
    b = dict(bases2d(theta))
    m = [b[("lobe", 5 % n)].copy(), b[("imp", 1)].copy(), b[("pair", 3)].copy(), b[("lobe", 0)].copy(),
         np.roll(b[("imp", 4)], 5, axis=-1).copy(), b[("pair", n - 1)].copy()]
    m[0][3, 7 % n] = np.nan
    m[0][0, 1] = np.nan
    m[2][0, 2] = np.nan
    return m


def history_reference(part, s, theta, nm):
    """(e, a1, b1, valid) (nm, NF) from the data the object holds NOW.  No library computation."""
    if part == "1d":
        e = fit(np.array(_vals(s.dataset["variance_density"]), dtype=float), (nm, NF), "history shape", "variance_density")
        a1 = fit(np.array(_vals(s.dataset["a1"]), dtype=float), (nm, NF), "history shape", "a1")
        b1 = fit(np.array(_vals(s.dataset["b1"]), dtype=float), (nm, NF), "history shape", "b1")
        with np.errstate(invalid="ignore"):
            valid = np.isfinite(a1) & np.isfinite(b1) & (a1 ** 2 + b1 ** 2 <= 1 + 1e-12)
        return e, a1, b1, valid
    cur = fit(np.array(_vals(s.dataset["variance_density"]), dtype=float), (nm, NF, len(theta)), "history shape",
              "variance_density")
    e, a1, b1, _, _ = ref_2d(theta, np.where(np.isnan(cur), 0.0, cur))
    valid = e > 0
    return e, np.where(valid, a1, 0.0), np.where(valid, b1, 0.0), valid


def history_check_read(c, name, band, v, ref):
    """failure text or None for one read against the reference (e, a1, b1, valid)."""
    e, a1, b1, valid = ref
    nm = e.shape[0]
    v = np.asarray(v, dtype=float)
    ra = np.sqrt(a1 ** 2 + b1 ** 2)
    c.cat("history_reads_checked")
    if band == "prop":
        if v.size != nm * NF:
            return f"shape {v.shape}"
        v = v.reshape(nm, NF)
        if name == "mean_direction_per_frequency":
            cmpd = valid & (ra > 1e-9)
            bad = cmpd & ~direction_ok(v, a1, b1, ra)
            with np.errstate(invalid="ignore"):
                bad |= ~np.isnan(v) & ~((v >= -180.0) & (v <= 180.0))
            c.cat("history_direction_compared", int(np.sum(cmpd)))
        else:
            with np.errstate(invalid="ignore"):
                bad = valid & (~spread_ok(v, ra) | ~((v >= 0.0) & (v <= SPREAD_MAX)))
        if bad.any():
            i, fi = np.argwhere(bad)[0]
            return (f"member {i} f{fi}: returned {v[i, fi]} but the object now holds a1={a1[i, fi]}, b1={b1[i, fi]} "
                    f"(direction {math.degrees(math.atan2(b1[i, fi], a1[i, fi]))}, spread "
                    f"{math.degrees(math.sqrt(max(0.0, 2 - 2 * ra[i, fi])))})")
        return None
    if v.size != nm:
        return f"shape {v.shape}"
    v = v.reshape(nm)
    mask = band_mask(band)
    inband_ok = np.all(valid | ~mask[None, :] | ~(e > 0), axis=1)   # every in-band moment that carries energy is valid
    if name.startswith("mean_"):
        m0 = trapz_band(e, mask)
        den = np.where(m0 > 0, m0, 1.0)
        A = trapz_band(np.where(e > 0, a1 * e, 0.0), mask) / den
        B = trapz_band(np.where(e > 0, b1 * e, 0.0), mask) / den
        r = np.sqrt(A ** 2 + B ** 2)
        has = (m0 > 0) & inband_ok
        if name == "mean_direction":
            cmpd = has & (r > 1e-9)
            bad = cmpd & ~direction_ok(v, A, B, r)
            with np.errstate(invalid="ignore"):
                bad |= ~np.isnan(v) & ~((v >= -180.0) & (v <= 180.0))
            c.cat("history_direction_compared", int(np.sum(cmpd)))
        else:
            with np.errstate(invalid="ignore"):
                bad = has & (~spread_ok(v, r) | ~((v >= 0.0) & (v <= SPREAD_MAX)))
        if bad.any():
            i = int(np.argwhere(bad)[0][0])
            return (f"member {i}: returned {v[i]} but the data the object now holds give A={A[i]}, B={B[i]} (direction "
                    f"{math.degrees(math.atan2(B[i], A[i]))}, spread {math.degrees(math.sqrt(max(0.0, 2 - 2 * r[i])))}); "
                    f"e={e[i].tolist()}")
        return None
    em = np.where(mask[None, :], e, -1.0)
    emax = em.max(axis=1)
    pk_ok = (emax > 0) & inband_ok
    cand = mask[None, :] & (e >= emax[:, None] * (1.0 - 1e-9)) & pk_ok[:, None]
    ok = np.zeros(nm, dtype=bool)
    for i in range(NF):
        if name == "peak_direction":
            with np.errstate(invalid="ignore"):
                small = ~(ra[:, i] > 1e-9)
            ok |= cand[:, i] & (small | direction_ok(v, a1[:, i], b1[:, i], ra[:, i]))
        else:
            ok |= cand[:, i] & spread_ok(v, ra[:, i])
    with np.errstate(invalid="ignore"):
        if name == "peak_direction":
            rng_bad = ~np.isnan(v) & ~((v >= -180.0) & (v <= 180.0))
            c.cat("history_direction_compared", int(np.sum(pk_ok)))
        else:
            rng_bad = pk_ok & ~((v >= 0.0) & (v <= SPREAD_MAX))
    bad = (pk_ok & ~ok) | rng_bad
    if bad.any():
        i = int(np.argwhere(bad)[0][0])
        return (f"member {i}: returned {v[i]}, which does not follow from the moments at an in-band maximum of the e(f) "
                f"the object now holds: e={e[i].tolist()}, a1={a1[i].tolist()}, b1={b1[i].tolist()}")
    return None


def all_histories(ops, maxlen, first):
    out = []
    for length in range(1, maxlen + 1):
        for h in itertools.product(ops, repeat=length):
            if first is None or h[0] == first:
                out.append(list(h))
    return out


def run_history(unit):
    c = Collector()
    part, layout, tier = unit["part"], unit["layout"], unit["tier"]
    base_key = {"part": part, "layout": layout, "family": "history"}
    theta = None
    if part == "2d":
        g = next(x for x in grids2d(tier) if x["name"] == unit["grid"])
        theta = list(g["theta"])
        base_key["grid"] = g["name"]
    rep = Reporter(c, base_key, cap=3)
    c.cat("layout_" + layout)
    ops = history_ops(part)
    if part == "1d":
        L = lattice()
        la = np.array([p[1] for p in L])
        lb = np.array([p[2] for p in L])
        mem = history_members_1d()
        idx = np.array([m[0] for m in mem])
        data = {"E": np.array([m[1] for m in mem]), "a1": la[idx], "b1": lb[idx]}
        idx2 = (idx * 5 + 3) % len(L)
        data["a2"], data["b2"] = la[idx2], lb[idx2]
    else:
        data = {"E": np.stack(history_members_2d(theta))}
    nsel = [0] if layout == "scalar" else list(range(len(data["E"])))
    hists = all_histories(ops, unit["maxlen"], unit["first"])
    for hist in hists:
        try:
            one_history(c, rep, part, layout, theta, {k: v[nsel] for k, v in data.items()}, hist)
        except ShapeMismatch as exc:
            rep("history " + exc.check, f"{exc.what} in history {hist}", history=hist)
        except Exception as exc:
            if not _lib_raised(exc):
                raise
            rep("history raises", f"{type(exc).__name__}: {exc} in history {hist}", history=hist,
                traceback=traceback.format_exc()[-1500:])
        c.evaluations += len(nsel)
        c.cat("history_executed")
        c.cat("history_mutation_steps", sum(1 for op in hist if op not in HISTORY_READS))
        seen_read = stale_possible = False
        for op in hist:
            if op in HISTORY_READS:
                seen_read = True
            elif seen_read:
                stale_possible = True
        if stale_possible:
            c.cat("history_read_then_mutate")
            if layout == "time":
                c.nontriv(("history", part, unit.get("grid")) + tuple(hist))
    c.case({"family": "history", "part": part, "grid": unit.get("grid"), "layout": layout, "ops": list(ops),
            "maxlen": unit["maxlen"], "first": unit["first"], "histories": len(hists)})
    c.sample({"family": "history", "part": part, "grid": unit.get("grid"), "layout": layout, "operations": list(ops),
              "max_length": unit["maxlen"], "first": unit["first"], "histories": len(hists), "example": hists[-1]})
    return c.result()


def one_history(c, rep, part, layout, theta, data, hist):
    E = data["E"]
    nm = E.shape[0]
    if part == "1d":
        trailing, axis_name, naxis = (NF,), "frequency", NF
        if layout == "scalar":
            s = make_1d(F, E[0].copy(), data["a1"][0].copy(), data["b1"][0].copy(), data["a2"][0].copy(),
                        data["b2"][0].copy())
        else:
            shp = lambda x: reshape_lead(x.copy(), layout, trailing)  # noqa: E731
            s = make_1d(F, shp(E), shp(data["a1"]), shp(data["b1"]), shp(data["a2"]), shp(data["b2"]),
                        flat=(layout == "flat"))
    else:
        n = len(theta)
        trailing, axis_name, naxis = (NF, n), "direction", n
        if layout == "scalar":
            s = make_2d(F, np.array(theta), E[0].copy())
        else:
            s = make_2d(F, np.array(theta), reshape_lead(E.copy(), layout, trailing), flat=(layout == "flat"))
    waxis = np.array([0.5 + (j % 3) for j in range(naxis)])

    def read(step, op, closing=False):
        attr, band_step, band_close = HISTORY_READS[op]
        band = band_close if closing else band_step
        ref = history_reference(part, s, theta, nm)
        if band == "prop":
            v = _vals(getattr(s, attr))
        else:
            v = _vals(getattr(s, attr)(*(() if band is None else band)))
        msg = history_check_read(c, op, band, v, ref)
        if msg:
            bkey = "per_frequency" if band == "prop" else ("default" if band is None else [float(band[0]), float(band[1])])
            where = f"closing observation after {hist}" if closing else f"after {hist[:step + 1]} (step {step})"
            rep(f"history {op}", f"{where}: {msg}", history=list(hist), step=(-1 if closing else step), band=bkey)

    for step, op in enumerate(hist):
        if op in HISTORY_READS:
            read(step, op)
        elif op == "mul_full":
            s.multiply(np.full(s.shape(), 3.0), inplace=True)
        elif op == "mul_axis":
            s.multiply(waxis.copy(), dimensions=[axis_name], inplace=True)
        elif op == "fillna":
            s.fillna(1.0)
        elif op == "setitem":
            da = s.dataset["variance_density"]
            s["variance_density"] = da.copy(data=2.0 * _vals(da)[..., ::-1] + 0.25)
        elif op == "dataset_assign":
            s.dataset["variance_density"] = 0.5 * s.dataset["variance_density"].roll({axis_name: 1}, roll_coords=False)
        elif op == "values_inplace":
            buf = s.values            # the object's own buffer, edited in place (no new backing array)
            buf *= 1.0 + (np.arange(naxis) % 2) * 1.5
        elif op == "set_a1":
            da = s.dataset["a1"]
            s["a1"] = da.copy(data=-0.5 * _vals(da))
        elif op == "set_b1":
            s.dataset["b1"] = -s.dataset["b1"]
        else:
            raise AssertionError(op)
    if len(hist) <= 2:
        for op in HISTORY_READS:
            read(len(hist) - 1, op, closing=True)
