"""C01  Spectral moments and integral wave parameters equal their defining integrals.

Engine E1 (product-space enumeration, batched).  For every frequency grid the module builds
every word of the variance-density alphabet {0, 1, 3, NaN}^nf (sparse impulse/pair/NaN words
on the large grids), stacks all words along the leading dimension(s) of ONE spectrum object
and evaluates every ordered band (fmin, fmax) drawn from
{-1, 0, node, mid-point, nextafter(node, -inf), nextafter(node, +inf), +inf} with the real
library methods.  Each stacked member is compared with its own reference value.

Reference model (no library import): explicit Python loops, trapezoid over the *selected*
in-band nodes, NaN counted as zero; 2D spectra are outer products word[f] * shape_m[theta]
(the directional shape differs from member to member), e(f) = sum_theta E * forward wrapped bin
width, NaN terms skipped (the definition C02 uses).

Laws, evaluated on the implementation's own outputs: m_n(cE) = c m_n(E), Hm0(cE) = sqrt(c) Hm0(E),
periods scale-invariant (c in {1/2, 2, 7}, separate spectrum objects; c = -1 through the real
__neg__), m_n(E1 +- E2) = m_n(E1) +- m_n(E2) through the real __add__ / __sub__ for every
unordered pair of words with identical NaN masks, and 1/f_last <= Tm02 <= Tm01 <= 1/f_first
(in-band nodes) for every member with m0 > 0 (the alphabet is non-negative).

History family (units 'history:*'): ONE spectrum object per history, every sequence of length <= 3
over {read moments, read Hm0/Tm01/Tm02} U {in-place modifications: multiply(full array, inplace),
multiply(array, dimensions=[frequency] / [direction], inplace), fillna(value), item assignment of
variance_density, direct dataset assignment, in-place edit of the numpy buffer}; after every read (and once
more after the last step)
the values must equal the reference recomputed from the variance density the object holds NOW.
"""
import itertools
import math
import traceback

import numpy as np

from mc.common import Collector, make_1d, make_2d, reshape_lead

ID = "C01"
LEVEL = "exploration"
RULE = (
    "full product grid x kind{1d,2d outer product} x layout{(),(time),(time,latitude),flattened} x word x band x "
    "quantity{frequency_moment(0..4), m0, m1, m2, hm0, tm01, tm02 (+ the three default-band properties)}; words = all "
    "{0,1,3,NaN}^nf for nf<=6, impulses/pairs/single-NaN placements for larger grids; bands = all ordered pairs of "
    "{-1,0,nodes,mid-points,nextafter(node,+-inf),+inf}. Named restrictions: layout () evaluates one band per distinct "
    "in-band node set on a reduced word set (quick: impulses / pairs / ones-with-one-NaN; thorough: all words for 1d nf<=5, {0,1,NaN}^nf or the sparse set otherwise); the additivity law uses one band per distinct in-band node set; the scaling/negation laws do "
    "too, except in the thorough tier for nf<=5 (1d, 2d:d4), where they run on every band. A case (grid, word, in-band node set, power) is non-trivial when "
    "the band holds >= 2 nodes and the in-band energy is > 0; distinct cases are counted once (1d, time layout). "
    "History family: all operation sequences of length <= 3 (quick: length 3 only for 1d in the (time) layout, else <= 2) "
    "over 2 reads and 6 (1d) / 7 (2d) in-place mutators on a fresh 6-member object (grid g5z; layout () uses two members), "
    "bands {default, [f1,f4)}; a history is non-trivial when a read precedes a modification."
)
ASSUMPTIONS = [
    "lattice of variance densities {0,1,3,NaN} per bin (plus scalings 1/2, 2, 7, -1 and pairwise sums/differences), not the continuum",
    "2D spectra are outer products word[f] x shape[theta]; e(f) is the forward wrapped bin-width sum with NaN terms skipped (C02's definition)",
    "ratios Tm01 = m0/m1 and Tm02 = sqrt(m0/m2) are compared only where the reference denominator is non-zero",
    "rtol 1e-12 (sums of same-signed terms; differences use atol 1e-12 * sum of |terms|)",
]
REQUIRED_CATEGORIES = [
    "empty_band", "single_point_band", "band_edge_on_node", "nan_bin_in_band", "f0_zero_in_band",
    "layout:scalar", "layout:time", "layout:time_lat", "layout:flat", "kind:1d", "kind:2d",
    "period_law_checked", "scaling_pairs", "negation_pairs", "additivity_pairs", "ratio_undefined_trivial",
    "default_band_properties", "history_executed", "history_read_then_mutate", "history_mutation_steps",
    "history_fillna_filled_bins",
]

NAN = float("nan")
INF = float("inf")
LETTERS = (0.0, 1.0, 3.0, None)  # None = missing (NaN)
POWERS = (0, 1, 2, 3, 4)
SCALES = (0.5, 2.0, 7.0)
RTOL = 1e-12

GRIDS_QUICK = {
    "g1": [0.1],
    "g2": [0.05, 0.3],
    "g5u": [0.1, 0.2, 0.3, 0.4, 0.5],
    "g5z": [0.0, 0.05, 0.15, 0.2, 0.4],
    "g6g": [0.04 * 1.5 ** i for i in range(6)],
}
GRIDS_THOROUGH = dict(
    GRIDS_QUICK,
    g8i=[0.0, 0.01, 0.035, 0.05, 0.11, 0.12, 0.3, 1.0],
    g12g=[0.02 * 1.3 ** i for i in range(12)],
)

# direction grids and member-dependent directional shapes for the 2D kind
DIRSETS = {
    "d4": dict(dirs=[0.0, 90.0, 180.0, 270.0],
               shapes=[[4.0, 2.0, 1.0, 1.0], [1.0, 0.0, 2.0, 0.5], [0.0, 8.0, 0.0, NAN]]),
    "d8n": dict(dirs=[10.0, 40.0, 100.0, 145.0, 190.0, 250.0, 310.0, 340.0],
                shapes=[[1.0, 0.0, 2.0, 0.5, 0.0, 3.0, 1.0, 0.25],
                        [0.0, 0.0, NAN, 4.0, 1.0, 0.0, 0.0, 2.0],
                        [2.0, 2.0, 2.0, 2.0, 2.0, 2.0, 2.0, 2.0]]),
}
LAYOUTS = ("time", "time_lat", "flat")


def close(a, b, rtol=1e-12, atol=0.0):
    """NaN-aware closeness: NaN matches NaN, +-inf matches the same infinity, finite values within
    atol + rtol*max(|a|,|b|).  (Own helper: a finite value is never close to an infinite one.)"""
    a = np.asarray(a, dtype=float)
    b = np.asarray(b, dtype=float)
    with np.errstate(invalid="ignore"):
        fin = np.isfinite(a) & np.isfinite(b)
        ok = fin & (np.abs(np.where(fin, a, 0.0) - np.where(fin, b, 0.0)) <= atol + rtol * np.maximum(np.abs(a), np.abs(b)))
        ok |= np.isnan(a) & np.isnan(b)
        ok |= np.isinf(a) & np.isinf(b) & (np.sign(a) == np.sign(b))
    return ok


def grids(tier):
    return GRIDS_QUICK if tier == "quick" else GRIDS_THOROUGH


def kinds(tier):
    return ("1d", "2d:d4") if tier == "quick" else ("1d", "2d:d4", "2d:d8n")


# ------------------------------------------------------------------------------------------
# alphabets
# ------------------------------------------------------------------------------------------
def band_values(f):
    vals = {-1.0, 0.0, INF}
    for i, x in enumerate(f):
        vals.add(x)
        vals.add(math.nextafter(x, -INF))
        vals.add(math.nextafter(x, INF))
        if i + 1 < len(f):
            vals.add(0.5 * (x + f[i + 1]))
    return sorted(vals)


def all_bands(f):
    v = band_values(f)
    return [(a, b) for a in v for b in v]


def inband(f, fmin, fmax):
    """Reference band selection: explicit comparisons, fmin <= f < fmax."""
    return tuple(i for i, x in enumerate(f) if (fmin <= x and x < fmax))


def rep_bands(f, bands):
    """One band (the first in enumeration order) per distinct in-band node set."""
    seen, out = set(), []
    for b in bands:
        k = inband(f, *b)
        if k not in seen:
            seen.add(k)
            out.append(b)
    return out


def sparse_words(nf):
    """impulses, pairs of impulses (heights 1 and 3), each with every single-NaN placement."""
    base = []
    for i in range(nf):
        w = [0.0] * nf
        w[i] = 1.0
        base.append(w)
    for i in range(nf):
        for j in range(i + 1, nf):
            w = [0.0] * nf
            w[i], w[j] = 1.0, 3.0
            base.append(w)
    out = []
    for w in base:
        out.append(tuple(w))
        for k in range(nf):
            v = list(w)
            v[k] = None
            out.append(tuple(v))
    # de-duplicate, keep order
    seen, res = set(), []
    for w in out:
        if w not in seen:
            seen.add(w)
            res.append(w)
    return res


def words_for(nf):
    if nf <= 6:
        return list(itertools.product(LETTERS, repeat=nf))
    return sparse_words(nf)


def words_for_pairs(nf):
    return list(itertools.product(LETTERS, repeat=nf)) if nf <= 5 else sparse_words(nf)


def to_array(words):
    return np.array([[NAN if x is None else x for x in w] for w in words], dtype=float).reshape(len(words), -1)


# ------------------------------------------------------------------------------------------
# reference model (plain Python; nothing from the library)
# ------------------------------------------------------------------------------------------
def ref_widths(dirs):
    n = len(dirs)
    return [((dirs[(j + 1) % n] - dirs[j]) % 360.0) for j in range(n)]


def ref_e(letter, shape, widths):
    """e(f) of the outer product letter*shape: sum of E*width, NaN terms skipped."""
    if letter is None:
        return 0.0  # every term is NaN and skipped
    tot = 0.0
    for dk, wk in zip(shape, widths):
        v = letter * dk
        if v != v:
            continue
        tot += v * wk
    return tot


def ref_moment(f, e, idx, p):
    """trapezoid of e*f**p over the selected nodes idx (consecutive selected pairs); None = 0."""
    tot = 0.0
    for a, b in zip(idx[:-1], idx[1:]):
        ga = 0.0 if e[a] is None else e[a] * f[a] ** p
        gb = 0.0 if e[b] is None else e[b] * f[b] ** p
        tot += 0.5 * (f[b] - f[a]) * (ga + gb)
    return tot


def member_e(words, kind):
    """Per member: the tuple e(f) (None = missing) the moments are defined on."""
    if kind == "1d":
        return [tuple(w) for w in words]
    ds = DIRSETS[kind.split(":")[1]]
    wd = ref_widths(ds["dirs"])
    ns = len(ds["shapes"])
    return [tuple(ref_e(x, ds["shapes"][m % ns], wd) for x in w) for m, w in enumerate(words)]


def build_ref(f, evals, masks):
    """dict mask -> array (len(POWERS), n_members) of reference moments."""
    n = len(evals)
    out = {k: np.zeros((len(POWERS), n)) for k in masks}
    for m, e in enumerate(evals):
        for k in masks:
            if len(k) < 2:
                continue
            for pi, p in enumerate(POWERS):
                out[k][pi, m] = ref_moment(f, e, k, p)
    return out


# ------------------------------------------------------------------------------------------
# building library objects
# ------------------------------------------------------------------------------------------
def density(W, kind, offset=0, nan_free_shapes=False):
    """W (n, nf) -> variance density array (n, nf) or (n, nf, nd); member m uses shape (m+offset) % ns."""
    if kind == "1d":
        return W
    ds = DIRSETS[kind.split(":")[1]]
    S = np.array(ds["shapes"], dtype=float)
    if nan_free_shapes:
        S = S[~np.isnan(S).any(axis=1)]
    sel = S[(np.arange(W.shape[0]) + offset) % len(S)]
    with np.errstate(invalid="ignore"):
        return W[:, :, None] * sel[:, None, :]


def build(f, E, kind, layout):
    trailing = E.shape[1:]
    if layout == "scalar":
        arr = E[0]
    else:
        arr = reshape_lead(E, layout, trailing)
    if kind == "1d":
        return make_1d(f, arr, flat=(layout == "flat"))
    ds = DIRSETS[kind.split(":")[1]]
    return make_2d(f, ds["dirs"], arr, flat=(layout == "flat"))


def lead_shape(n, layout):
    if layout == "scalar":
        return ()
    if layout in ("time", "flat"):
        return (n,)
    for k in (4, 3, 2, 1):
        if n % k == 0:
            return (n // k, k)


class Agg:
    """One violation per (check name) per unit: first failing example plus a count."""

    def __init__(self, c, base):
        self.c, self.base, self.d = c, base, {}

    def add(self, check, n, what, **detail):
        if check in self.d:
            self.d[check][0] += n
        else:
            self.d[check] = [n, what, detail]

    def flush(self):
        for check, (n, what, detail) in self.d.items():
            self.c.violation(dict(self.base, check=check), f"{what} [{n} failing member case(s) in this unit]",
                             failing=n, **detail)


def values(c, agg, name, fn, n, layout, band):
    """Call the library, return the flat member vector or None (exception / wrong shape reported)."""
    try:
        r = fn()
        v = np.asarray(r.values if hasattr(r, "values") else r, dtype=float)
    except Exception:
        agg.add("raises:" + name, n, f"{name} raised for band {band}", band=list(band),
                traceback=traceback.format_exc()[-1500:])
        return None
    if v.shape != lead_shape(n, layout):
        agg.add("shape:" + name, n, f"{name} returned shape {v.shape}, expected {lead_shape(n, layout)}", band=list(band))
        return None
    return v.reshape(-1)


def cmp(agg, name, lib, ref, band, words, where=None, rtol=RTOL, atol=0.0):
    ok = close(lib, ref, rtol=rtol, atol=atol)
    if where is not None:
        ok = ok | ~where
    if not ok.all():
        m = int(np.argmin(ok))
        agg.add(name, int((~ok).sum()),
                f"{name} != reference: band={list(band)} member={m} word={words[m % len(words)]} lib={lib[m]!r} ref={np.asarray(ref).reshape(-1)[m]!r}",
                band=list(band), member=m, word=[str(x) for x in words[m % len(words)]], lib=float(lib[m]),
                ref=float(np.asarray(ref).reshape(-1)[m]))
    return int(ok.size)


# ------------------------------------------------------------------------------------------
# units
# ------------------------------------------------------------------------------------------
def units(tier):
    """cost = rough CPU seconds (only used to schedule the big units first)."""
    us = []
    for g, f in grids(tier).items():
        nf = len(f)
        nb = len(band_values(f)) ** 2
        nmask = nf * (nf + 1) // 2 + 1
        for kind in kinds(tier):
            w2 = 2.5 if kind != "1d" else 1.0
            lawf = 4.0 if laws_on_all_bands(tier, nf, kind) else 1.0
            for layout in LAYOUTS:
                us.append({"name": f"{g}:{kind}:{layout}", "grid": g, "kind": kind, "layout": layout,
                           "cost": round(nb * w2 * lawf * 0.03 * max(1.0, len(words_for(nf)) / 1024) ** 0.5, 1)})
            nw = len(scalar_words(nf, tier, kind))
            sec = nw * nmask * 0.0185 * w2
            nch = max(1, int(math.ceil(sec / 60.0)))
            for ch in range(nch):
                us.append({"name": f"{g}:{kind}:scalar:{ch}of{nch}", "grid": g, "kind": kind, "layout": "scalar",
                           "chunk": ch, "nchunks": nch, "cost": round(sec / nch, 1)})
    us += history_units(tier)
    return us


def laws_on_all_bands(tier, nf, kind):
    return tier == "thorough" and nf <= 5 and kind in ("1d", "2d:d4")


def _sparse_scalar(nf):
    out = []
    for i in range(nf):
        w = [0.0] * nf
        w[i] = 1.0
        out.append(tuple(w))
    for i in range(nf):
        for j in range(i + 1, nf):
            w = [0.0] * nf
            w[i], w[j] = 1.0, 3.0
            out.append(tuple(w))
    for i in range(nf):
        w = [1.0] * nf
        w[i] = None
        out.append(tuple(w))
    return out


def scalar_words(nf, tier, kind="1d"):
    """Words evaluated one spectrum object at a time (layout ())."""
    if nf <= 2:
        return list(itertools.product(LETTERS, repeat=nf))
    if tier == "quick" or nf > 6:
        return _sparse_scalar(nf)
    if nf <= 5:
        return list(itertools.product(LETTERS if kind == "1d" else (0.0, 1.0, None), repeat=nf))
    return list(itertools.product((0.0, 1.0, None), repeat=nf)) if kind == "1d" else _sparse_scalar(nf)


# ------------------------------------------------------------------------------------------
# the quantities evaluated for one spectrum object and one band
# ------------------------------------------------------------------------------------------
def lib_quantities(s, fmin, fmax):
    q = [(f"frequency_moment({p})", (lambda p=p: s.frequency_moment(p, fmin, fmax))) for p in POWERS]
    q += [
        ("m0", lambda: s.m0(fmin, fmax)),
        ("m1", lambda: s.m1(fmin, fmax)),
        ("m2", lambda: s.m2(fmin, fmax)),
        ("hm0", lambda: s.hm0(fmin, fmax)),
        ("tm01", lambda: s.tm01(fmin, fmax)),
        ("tm02", lambda: s.tm02(fmin, fmax)),
    ]
    return q


def ref_quantities(R):
    """R: (5, n) reference moments for one mask -> dict name -> (ref, where-comparable)."""
    m0, m1, m2 = R[0], R[1], R[2]
    out = {f"frequency_moment({p})": (R[i], None) for i, p in enumerate(POWERS)}
    out["m0"], out["m1"], out["m2"] = (m0, None), (m1, None), (m2, None)
    out["hm0"] = (np.array([4.0 * math.sqrt(x) for x in m0]), None)
    d1 = m1 != 0
    d2 = m2 != 0
    out["tm01"] = (np.array([a / b if b != 0 else NAN for a, b in zip(m0, m1)]), d1)
    out["tm02"] = (np.array([math.sqrt(a / b) if b != 0 else NAN for a, b in zip(m0, m2)]), d2)
    return out


def check_band(c, agg, s, f, band, R, n, layout, words, lib_out=None):
    fmin, fmax = band
    idx = inband(f, fmin, fmax)
    refs = ref_quantities(R)
    got = {}
    for name, fn in lib_quantities(s, fmin, fmax):
        v = values(c, agg, name, fn, n, layout, band)
        if v is None:
            continue
        got[name] = v
        ref, where = refs[name]
        c.evaluations += cmp(agg, name, v, ref, band, words, where=where)
        if where is not None:
            c.cat("ratio_undefined_trivial", int((~where).sum()))
    # period law on the implementation's own outputs (non-negative alphabet)
    if "tm01" in got and "tm02" in got and len(idx) >= 1:
        pos = R[0] > 0
        if pos.any():
            t1, t2 = got["tm01"], got["tm02"]
            hi = 1.0 / f[idx[0]] if f[idx[0]] > 0 else INF
            lo = 1.0 / f[idx[-1]] if f[idx[-1]] > 0 else INF
            with np.errstate(invalid="ignore"):
                ok = (t2 <= t1 * (1 + RTOL)) & (t1 <= hi * (1 + RTOL)) & (t2 >= lo * (1 - RTOL))
            ok = ok | ~pos
            if not ok.all():
                m = int(np.argmin(ok))
                agg.add("period_law", int((~ok).sum()),
                        f"1/f_last <= Tm02 <= Tm01 <= 1/f_first violated: band={list(band)} word={words[m % len(words)]} "
                        f"tm01={t1[m]!r} tm02={t2[m]!r} bounds=[{lo!r},{hi!r}]", band=list(band), member=m)
            c.cat("period_law_checked", int(pos.sum()))
            c.evaluations += int(pos.sum())
    # categories
    if len(idx) == 0:
        c.cat("empty_band", n)
    elif len(idx) == 1:
        c.cat("single_point_band", n)
    if fmin in f or fmax in f:
        c.cat("band_edge_on_node", n)
    if idx and f[idx[0]] == 0.0:
        c.cat("f0_zero_in_band", n)
    return got


def law_quantities(s, fmin, fmax):
    q = [(f"frequency_moment({p})", (lambda p=p: s.frequency_moment(p, fmin, fmax))) for p in POWERS]
    q += [("hm0", lambda: s.hm0(fmin, fmax)), ("tm01", lambda: s.tm01(fmin, fmax)), ("tm02", lambda: s.tm02(fmin, fmax))]
    return q


def run_batched(unit):
    c = Collector()
    tier, g, kind, layout = unit["tier"], unit["grid"], unit["kind"], unit["layout"]
    f = grids(tier)[g]
    nf = len(f)
    words = words_for(nf)
    n = len(words)
    W = to_array(words)
    agg = Agg(c, {"grid": g, "kind": kind, "layout": layout})
    bands = all_bands(f)
    rbands = rep_bands(f, bands)
    masks = [inband(f, *b) for b in rbands]
    REF = build_ref(f, member_e(words, kind), masks)
    s = build(f, density(W, kind), kind, layout)
    c.cat("layout:" + layout, n)
    c.cat("kind:" + kind[:2], n)
    nanw = np.isnan(W)

    # ---- variants for the scaling / negation laws (implementation's own outputs) -----------------
    variants = []
    with np.errstate(invalid="ignore"):
        for cval in SCALES:
            variants.append((cval, f"scale {cval}", build(f, density(cval * W, kind), kind, layout)))
    try:
        variants.append((-1.0, "negation (__neg__)", -s))
    except Exception:
        agg.add("raises:__neg__", n, "__neg__ raised", traceback=traceback.format_exc()[-1500:])
    law_bands = set(bands if laws_on_all_bands(tier, nf, kind) else rbands)

    # ---- every band against the reference --------------------------------------------------
    for band in bands:
        idx = inband(f, *band)
        got = check_band(c, agg, s, f, band, REF[idx], n, layout, words)
        if idx:
            c.cat("nan_bin_in_band", int(nanw[:, list(idx)].any(axis=1).sum()))
        c.case({"band": [repr(band[0]), repr(band[1])], "n": n})
        if band not in law_bands:
            continue
        for cval, label, sv in variants:
            for name, fn in law_quantities(sv, *band):
                if name not in got:
                    continue
                if cval < 0 and not name.startswith("frequency_moment"):
                    continue
                v = values(c, agg, f"{name} of {label}", fn, n, layout, band)
                if v is None:
                    continue
                if name.startswith("frequency_moment"):
                    exp = cval * got[name]
                elif name == "hm0":
                    exp = math.sqrt(cval) * got[name]
                else:
                    exp = got[name]
                c.evaluations += cmp(agg, f"law:{label}:{name.split('(')[0]}", v, exp, band, words)
                c.cat("negation_pairs" if cval < 0 else "scaling_pairs", n)

    # ---- default band, properties ------------------------------------------------------------
    full = inband(f, 0, INF)
    refs = ref_quantities(REF[full])
    for name, fn, rname in (
        ("m0()", lambda: s.m0(), "m0"), ("m1()", lambda: s.m1(), "m1"), ("m2()", lambda: s.m2(), "m2"),
        ("hm0()", lambda: s.hm0(), "hm0"), ("tm01()", lambda: s.tm01(), "tm01"), ("tm02()", lambda: s.tm02(), "tm02"),
        ("frequency_moment(3) default band", lambda: s.frequency_moment(3), "frequency_moment(3)"),
        ("significant_waveheight", lambda: s.significant_waveheight, "hm0"),
        ("mean_period", lambda: s.mean_period, "tm01"),
        ("zero_crossing_period", lambda: s.zero_crossing_period, "tm02"),
    ):
        v = values(c, agg, name, fn, n, layout, (0, INF))
        if v is not None:
            ref, where = refs[rname]
            c.evaluations += cmp(agg, name, v, ref, (0, INF), words, where=where)
            c.cat("default_band_properties", n)

    # ---- additivity through the real __add__ / __sub__ ---------------------------------------------
    pw = words_for_pairs(nf)
    groups = {}
    for i, w in enumerate(pw):
        groups.setdefault(tuple(x is None for x in w), []).append(i)
    I, J = [], []
    for ids in groups.values():
        for a in range(len(ids)):
            for b in range(a, len(ids)):
                I.append(ids[a])
                J.append(ids[b])
    PW = to_array(pw)
    npair = len(I)
    # the two operands carry different directional shapes; NaN + x = NaN in the sum, so the pair law is
    # only stated for operands with identical NaN masks: NaN-free shapes, words with equal NaN masks
    E1 = density(PW[I], kind, 0, nan_free_shapes=True)
    E2 = density(PW[J], kind, 1, nan_free_shapes=True)
    s1 = build(f, E1, kind, layout)
    s2 = build(f, E2, kind, layout)
    combos = []
    for label, op in (("__add__", lambda: s1 + s2), ("__sub__", lambda: s1 - s2)):
        try:
            combos.append((label, op()))
        except Exception:
            agg.add("raises:" + label, npair, f"{label} raised", traceback=traceback.format_exc()[-1500:])
    pairwords = [pw[i] for i in I]
    for band in rbands:
        for p in POWERS:
            a = values(c, agg, "frequency_moment", lambda: s1.frequency_moment(p, *band), npair, layout, band)
            b = values(c, agg, "frequency_moment", lambda: s2.frequency_moment(p, *band), npair, layout, band)
            if a is None or b is None:
                continue
            for label, sc in combos:
                v = values(c, agg, f"frequency_moment of {label}", lambda: sc.frequency_moment(p, *band), npair, layout, band)
                if v is None:
                    continue
                exp = a + b if label == "__add__" else a - b
                ok = close(v, exp, rtol=RTOL) | (np.abs(v - exp) <= RTOL * (np.abs(a) + np.abs(b)))
                if not ok.all():
                    m = int(np.argmin(ok))
                    agg.add(f"law:{label}", int((~ok).sum()),
                            f"m{p}(E1 {label} E2) != m{p}(E1) +- m{p}(E2): band={list(band)} E1={pw[I[m]]} E2={pw[J[m]]} "
                            f"lib={v[m]!r} expected={exp[m]!r}", band=list(band), power=p)
                c.evaluations += npair
                c.cat("additivity_pairs", npair)

    # ---- distinct non-trivial cases: counted once per grid -----------------------------------------
    if kind == "1d" and layout == "time":
        cnt = 0
        for k in masks:
            if len(k) >= 2:
                cnt += int((REF[k][0] > 0).sum()) * len(POWERS)
        c.nontriv(n=cnt)
    agg.flush()
    mid = n // 2
    c.sample({"grid": g, "f": f, "kind": kind, "layout": layout, "word": [str(x) for x in words[mid]],
              "band": [repr(rbands[min(3, len(rbands) - 1)][0]), repr(rbands[min(3, len(rbands) - 1)][1])],
              "ref_m0_m1_m2": [float(REF[masks[min(3, len(rbands) - 1)]][i, mid]) for i in range(3)]})
    return c.result()


def run_scalar(unit):
    c = Collector()
    tier, g, kind = unit["tier"], unit["grid"], unit["kind"]
    f = grids(tier)[g]
    nf = len(f)
    allw = scalar_words(nf, tier, kind)
    sel = [i for i in range(len(allw)) if i % unit["nchunks"] == unit["chunk"]]
    agg = Agg(c, {"grid": g, "kind": kind, "layout": "scalar"})
    bands = all_bands(f)
    rbands = rep_bands(f, bands)
    masks = [inband(f, *b) for b in rbands]
    evals_all = member_e(allw, kind)
    W = to_array(allw)
    Eall = density(W, kind)
    for m in sel:
        words = [allw[m]]
        REF = build_ref(f, [evals_all[m]], masks)
        s = build(f, Eall[m:m + 1], kind, "scalar")
        for band, k in zip(rbands, masks):
            check_band(c, agg, s, f, band, REF[k], 1, "scalar", words)
            if k and any(allw[m][i] is None for i in k):
                c.cat("nan_bin_in_band", 1)
        refs = ref_quantities(REF[inband(f, 0, INF)])
        for name, fn, rname in (
            ("significant_waveheight", lambda: s.significant_waveheight, "hm0"),
            ("mean_period", lambda: s.mean_period, "tm01"),
            ("zero_crossing_period", lambda: s.zero_crossing_period, "tm02"),
        ):
            v = values(c, agg, name, fn, 1, "scalar", (0, INF))
            if v is not None:
                ref, where = refs[rname]
                c.evaluations += cmp(agg, name, v, ref, (0, INF), words, where=where)
                c.cat("default_band_properties", 1)
        c.cat("layout:scalar", 1)
        c.cat("kind:" + kind[:2], 1)
        c.case({"word": [str(x) for x in allw[m]]})
    agg.flush()
    if sel:
        c.sample({"grid": g, "f": f, "kind": kind, "layout": "scalar", "word": [str(x) for x in allw[sel[0]]],
                  "bands": len(rbands)})
    return c.result()


# ------------------------------------------------------------------------------------------
# history family: reads and in-place modifications on ONE object
# ------------------------------------------------------------------------------------------
HISTORY_GRID = "g5z"
HISTORY_READS = ("moments", "bulk")
HISTORY_MUTATORS = ("mul_full", "mul_frequency", "mul_direction", "fillna", "setitem", "dataset_assign", "values_inplace")
HISTORY_MAXLEN = 3
HISTORY_WORDS = [
    (1.0, 3.0, 0.0, 1.0, 0.0), (0.0, None, 3.0, 1.0, 1.0), (3.0, 3.0, None, 0.0, 1.0),
    (0.0, 0.0, 0.0, 0.0, 0.0), (None, 1.0, 1.0, 3.0, None), (1.0, 0.0, 3.0, 3.0, 1.0),
]
HISTORY_SCALAR_MEMBERS = (1, 4)


def history_ops(kind):
    return HISTORY_READS + tuple(m for m in HISTORY_MUTATORS if not (m == "mul_direction" and kind == "1d"))


def history_maxlen(tier, kind, layout):
    """named restriction 'history_length3_quick'."""
    if tier == "thorough" or (kind == "1d" and layout == "time"):
        return HISTORY_MAXLEN
    return 2


def histories(kind, maxlen, first=None):
    ops = history_ops(kind)
    out = []
    for length in range(1, maxlen + 1):
        for h in itertools.product(ops, repeat=length):
            if first is None or h[0] == first:
                out.append(list(h))
    return out


def history_units(tier):
    us = []
    for kind in ("1d", "2d:d4"):
        for layout in ("scalar",) + LAYOUTS:
            ml = history_maxlen(tier, kind, layout)
            w2 = 2.5 if kind != "1d" else 1.0
            if ml == HISTORY_MAXLEN:  # sharded by the first operation
                for op in history_ops(kind):
                    us.append({"name": f"history:{kind}:{layout}:first={op}", "family": "history", "kind": kind,
                               "layout": layout, "first": op, "maxlen": ml, "cost": 8 * w2, "grid": HISTORY_GRID})
            else:
                us.append({"name": f"history:{kind}:{layout}", "family": "history", "kind": kind, "layout": layout,
                           "first": None, "maxlen": ml, "cost": 8 * w2, "grid": HISTORY_GRID})
    return us


def ref_e_row(row, widths):
    """e of one frequency from the directional densities the object holds: sum of E*width, NaN skipped."""
    tot = 0.0
    for v, wk in zip(row, widths):
        if v != v:
            continue
        tot += v * wk
    return tot


def run_history(unit):
    c = Collector()
    tier, kind, layout = unit["tier"], unit["kind"], unit["layout"]
    f = grids(tier)[HISTORY_GRID]
    nf = len(f)
    agg = Agg(c, {"grid": HISTORY_GRID, "kind": kind, "layout": layout, "family": "history"})
    W0 = to_array(HISTORY_WORDS)
    member_sets = [[m] for m in HISTORY_SCALAR_MEMBERS] if layout == "scalar" else [list(range(len(HISTORY_WORDS)))]
    hs = histories(kind, unit["maxlen"], unit.get("first"))
    bands = [(0, INF), (f[1], f[4])]
    widths = None if kind == "1d" else ref_widths(DIRSETS[kind.split(":")[1]]["dirs"])
    for ms in member_sets:
        E0 = density(W0, kind)[ms]
        for hist in hs:
            try:
                one_history(c, agg, f, kind, layout, E0, hist, bands, widths)
            except Exception:
                agg.add("history raises", len(ms), f"history {hist} raised", history=list(hist),
                        traceback=traceback.format_exc()[-1500:])
            c.cat("history_executed")
            c.cat("history_mutation_steps", sum(1 for op in hist if op in HISTORY_MUTATORS))
            seen_read = False
            for op in hist:
                if op in HISTORY_READS:
                    seen_read = True
                elif seen_read:
                    c.cat("history_read_then_mutate")
                    if layout == "time":
                        c.nontriv((kind, "history") + tuple(hist))
                    break
    agg.flush()
    c.case({"family": "history", "kind": kind, "layout": layout, "ops": list(history_ops(kind)), "maxlen": unit["maxlen"],
            "first": unit.get("first"), "histories": len(hs)})
    c.sample({"family": "history", "kind": kind, "layout": layout, "operations": list(history_ops(kind)),
              "max_length": unit["maxlen"], "histories": len(hs), "example": hs[len(hs) // 2],
              "words": [[str(x) for x in w] for w in HISTORY_WORDS]})
    return c.result()


def one_history(c, agg, f, kind, layout, E0, hist, bands, widths):
    nm = E0.shape[0]
    nf = len(f)
    s = build(f, E0.copy(), kind, layout)

    def current_e():
        """e(f) (None = missing) of every member from the variance density the object holds NOW."""
        cur = np.array(s.variance_density.values, dtype=float).reshape((nm,) + E0.shape[1:])
        if kind == "1d":
            return [tuple(None if v != v else float(v) for v in row) for row in cur]
        return [tuple(ref_e_row(cur[m, j], widths) for j in range(nf)) for m in range(nm)]

    def read(step, which):
        evals = current_e()
        for band in bands:
            idx = inband(f, *band)
            R = build_ref(f, evals, [idx])[idx]
            refs = ref_quantities(R)
            if which == "moments":
                q = [(f"frequency_moment({p})", (lambda p=p: s.frequency_moment(p, *band))) for p in (0, 1, 2)]
            else:
                q = [("hm0", lambda: s.hm0(*band)), ("tm01", lambda: s.tm01(*band)), ("tm02", lambda: s.tm02(*band))]
            for name, fn in q:
                v = values(c, agg, "history " + name, fn, nm, layout, band)
                if v is None:
                    continue
                ref, where = refs[name]
                ok = close(v, ref, rtol=RTOL)
                if where is not None:
                    ok = ok | ~where
                c.evaluations += nm
                if not ok.all():
                    m = int(np.argmin(ok))
                    agg.add("history " + name.split("(")[0], int((~ok).sum()),
                            f"after {hist[:step + 1]} (step {step}): {name} band={list(band)} is {v[m]!r} but the variance density "
                            f"the object holds now gives {ref[m]!r} (member {m}, e={evals[m]})",
                            history=list(hist), step=step, band=list(band), lib=float(v[m]), ref=float(ref[m]))

    for step, op in enumerate(hist):
        if op in HISTORY_READS:
            read(step, op)
        elif op == "mul_full":
            s.multiply(np.full(s.shape(), 3.0), inplace=True)
        elif op == "mul_frequency":
            s.multiply(0.5 + np.arange(nf, dtype=float), dimensions=["frequency"], inplace=True)
        elif op == "mul_direction":
            nd = E0.shape[-1]
            s.multiply(np.array([1.0, 2.0, 0.5, 4.0, 1.5, 0.25, 3.0, 1.0])[:nd], dimensions=["direction"], inplace=True)
        elif op == "fillna":
            c.cat("history_fillna_filled_bins", int(np.sum(np.isnan(s.variance_density.values))))
            s.fillna(1.0)
        elif op == "setitem":
            da = s.dataset["variance_density"]
            s["variance_density"] = da.copy(data=2.0 * np.flip(da.values, axis=da.dims.index("frequency")) + 0.25)
        elif op == "dataset_assign":
            s.dataset["variance_density"] = 0.5 * s.dataset["variance_density"].roll(frequency=1, roll_coords=False)
        elif op == "values_inplace":
            # edit the object's own numpy buffer, the variable is not rebound
            da = s.dataset["variance_density"]
            buf = da.values
            shp = [1] * buf.ndim
            shp[da.dims.index("frequency")] = nf
            buf *= (float(nf) - np.arange(nf, dtype=float)).reshape(shp)
            buf += 0.5
        else:
            raise AssertionError(op)
    last = len(hist) - 1
    read(last, "moments")
    read(last, "bulk")


def run_unit(unit):
    if unit.get("family") == "history":
        return run_history(unit)
    return run_scalar(unit) if unit["layout"] == "scalar" else run_batched(unit)
