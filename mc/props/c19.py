"""C19  File cache: failed or interrupted downloads never poison the cache.

Engine E3, fault enumeration: for every history (prefix, faulted request) the fault-free run is
executed first (0 deviations; it also counts the call sites), then every single fault (kind x
call site x position) and, in the thorough tier, every ordered pair of faults; each combined with
every follow-up (retry, other URIs, reopen+retry, double reopen).  A crash is a snapshot of the
directory at that instant, recovery runs on the snapshot.  In parallel mode the pool threads that
outlive the raised exception are interleaved with the follow-up under a preemption bound.
"""
import os

from mc import cachelab as lab
from mc.common import Collector

ID = "C19"
LEVEL = "fault_enumeration"
RULE = (
    "histories = prefix in {none, get[a], get[a,b]} x faulted request in the request alphabet (plain, comment, postprocess and "
    "validate directives, 6/7-URI parallel requests) x download mode x missing-file mode; faults = every kind in {not-found, "
    "exception before write, exception after half the bytes, crash at open/half/done, crash before/after the rename, "
    "post-processing exception before/after rewriting half, crash in post-processing, validation returns False, validation raises} "
    "at every call position of its site, bounded by the number of injected faults (1 quick, 2 thorough) x follow-up in {retry, every URI "
    "singly, reopen+retry, reopen twice + every URI, retry+reopen+retry}. An execution is non-trivial when its planned faults all fired; "
    "distinct = distinct (history, mode, fault plan, follow-up, schedule) tuples among those."
)
ASSUMPTIONS = [
    "process death = the directory as it is at the crash point (everything written so far survives; no torn sectors / lost directory entries)",
    "faults are injected by the scripted resource / directive functions / os.replace seam of the harness, not by the OS",
    "a size limit large enough that eviction never interferes (eviction is C18's subject)",
    "ControlledPool reproduces ThreadPool.imap(chunksize=5); pool threads of a failed request keep running (daemon threads are not joined by terminate())",
]
REQUIRED_CATEGORIES = ["corrupted_entry", "fault_fired", "request_raised", "uri_omitted", "crash_recovered", "refetched_after_failure",
                       "rejected_entry_refetched", "prefix_hit_intact", "parallel_fault", "orphan_thread_outlived_request"]

S = lab.SCHEME
A, B, C_ = S + "a", lab.ALT_SCHEME + "b", S + "c"  # b is served by a second resource
D = S + "d"  # never part of a faulted request: requested first in the "other_first" follow-up
CPP = "postprocess=p:" + S + "c<<pp"
AVAL = "validate=v:" + S + "a"
BVALPP = "validate=v;postprocess=p:" + lab.ALT_SCHEME + "b<<vp"
MISSING = S + "missing"
LIMIT = 200_000

DL_KINDS = ["raise_before", "raise_half", "notfound_now", "crash_open", "crash_half", "crash_done"]
RP_KINDS = ["crash_before_replace", "crash_after_replace"]
PP_KINDS = ["pp_raise_before", "pp_raise_half", "pp_crash_half"]
VAL_KINDS = ["invalid", "val_raise", "val_raise_eio"]
SITE_KINDS = {"dl": DL_KINDS, "rp": RP_KINDS, "pp": PP_KINDS, "val": VAL_KINDS}


def parse(raw):
    """(key uri incl. comment, remote name, has_pp, has_val) by the documented URI grammar."""
    head, path = raw.split("://")
    directives = {}
    scheme = head
    if ":" in head:
        d, scheme = head.split(":")
        for item in d.split(";"):
            k, v = item.split("=")
            directives[k] = v
    uri = scheme + "://" + path
    return uri, path.split("<<")[0], "postprocess" in directives, "validate" in directives


def expected(raw):
    uri, name, pp, _ = parse(raw)
    if name not in lab.REMOTE:
        return None
    return lab.REMOTE[name] + (b"|pp" if pp else b"")


# --------------------------------------------------------------------------------------------
def followups(request, universe):
    singles = [("get", [u]) for u in universe]
    return {
        "retry": [("get", request)],
        "singles": singles,
        "reopen_retry": [("reopen",), ("get", request)],
        "reopen2_singles": [("reopen",), ("reopen",)] + singles,
        "retry_reopen_retry": [("get", request), ("reopen",), ("get", request)],
        "retry_retry": [("get", request), ("get", request)],
        "other_first": [("get", [D])] + singles,
    }


class Exec:
    """One execution of (prefix, request, plan, follow-up) with the C19 oracle."""

    FAIL_KINDS = ("raise_before", "raise_half", "pp_raise_before", "pp_raise_half", "notfound_now")

    def __init__(self, c, scen, plan, fu_name, sched_prefix=(), interleave=False):
        self.c = c
        self.scen = scen
        self.plan = plan
        self.fu_name = fu_name
        self.sched_prefix = sched_prefix
        self.interleave = interleave
        self.viol = []
        self.world = None
        self.first_sched = None
        self.path_uri = {}  # basename -> key uri (learned from served results)
        self.cached_intact = set()  # key uris cached by the prefix: must stay hits
        self.must_refetch = set()  # key uris that must be fetched afresh at their next request
        self.fired = []
        self.corrupted = None

    def v(self, check, what):
        self.viol.append((check, what))

    def check_paths(self, request, paths, label):
        """every returned path holds exactly the bytes of one requested URI, in request order."""
        want = [(r, expected(r)) for r in request]
        i = 0
        served = []
        for p in paths:
            if not os.path.isfile(p):
                self.v("dangling path", f"{label}: returned path {os.path.basename(p)} does not exist")
                continue
            b = lab.read_noatime(p)
            j = i
            while j < len(want) and want[j][1] != b:
                j += 1
            if j == len(want):
                partial = any(w[1] is not None and b != w[1] and len(b) < len(w[1]) + 8 and w[1][:4] == b[:4] for w in want)
                cls = "a partial / rejected version of a requested object" if partial else "bytes of no requested object"
                self.v("poisoned file served", f"{label}: returned file {os.path.basename(p)} holds {len(b)} bytes: {cls}")
            else:
                served.append(want[j][0])
                self.path_uri[os.path.basename(p)] = parse(want[j][0])[0]
                i = j + 1
        return served

    def run(self):
        scen = self.scen
        w = lab.World(size_bytes=scen.get("limit", LIMIT), parallel=scen["parallel"], allow_missing=scen["allow_missing"],
                      prefix=self.sched_prefix)
        self.world = w
        self.first_sched = w.sched
        worlds = [w]
        self._worlds = worlds
        try:
            return self._run(w)
        finally:
            for x in worlds:
                try:
                    x.close()
                except Exception:
                    pass

    def _get(self, w, request):
        start = len(w.log)
        try:
            paths = w.cache[list(request)]
            outcome = ("ok", paths)
        except lab.Crash:
            outcome = ("crash", None)
        except Exception as exc:  # noqa
            outcome = ("raised", exc)
        contacted = [e[1] for e in w.log[start:] if e[0] == "download"]
        self.last_log_start = start
        return outcome, contacted

    def _recover(self, w):
        """a new process on the directory as it was at the crash point"""
        snap = w.crashed
        w.crashed = None
        scen = self.scen
        # with a size limit close to the working set a killed request can leave more bytes on disk than the limit;
        # reopening then needs do_cache_eviction_on_startup=True (documented constructor behaviour, not C19's subject)
        w2 = lab.World(size_bytes=scen.get("limit", LIMIT), parallel=scen["parallel"], allow_missing=scen["allow_missing"], path=snap,
                       evict_on_start="limit" in scen)
        self._worlds.append(w2)
        self.world = w2
        self.c.cat("crash_recovered")
        fired_sites = {(f[0], f[1]) for f in self.fired}
        # a remaining planned fault stays armed; its index counts calls made by the restarted process
        w2.install_plan({k: v for k, v in self.plan.items() if k not in fired_sites})
        self.fault_log_start = 0
        return w2

    def _fetched_elsewhere(self, w, name, upto):
        """True if, since the fault plan was installed in this world and before log position `upto`, the object
        was also fetched by a download that no fault hit (a duplicate of the URI in the same request, or a pool
        thread that outlived the failed request)."""
        entries = [e for e in w.log[self.fault_log_start:upto] if e[0] == "download" and e[1] == name]
        dl_faulted = {f[1] for f in self.fired if f[0] == "dl" and f[3] == name}
        ok = [e for e in entries if e[2] not in dl_faulted]
        n_pp = sum(1 for f in self.fired if f[0] == "pp" and f[3] == name)
        return len(ok) - n_pp > 0

    def _account_faults(self, request, new_faults, contacted, served, outcome):
        """update must_refetch / cached_intact from the faults that fired during `request`"""
        c = self.c
        keys = {parse(r)[0]: parse(r) for r in request}
        for f in new_faults:
            site, n, kind, who = f
            if site in ("dl", "pp") and kind in self.FAIL_KINDS:
                for key, (_, name, _, _) in keys.items():
                    if name == who:
                        self.must_refetch.add(key)
                        self.cached_intact.discard(key)
            if site in ("val", "ext"):
                c.cat("validation_rejected" if site == "val" else "corrupted_entry")
                key = self.path_uri.get(who)
                if key is not None:
                    self.cached_intact.discard(key)
                    name = keys[key][1] if key in keys else None
                    # O5: a rejected entry is re-fetched rather than served
                    if name is not None and name not in contacted:
                        self.v("rejected entry served", f"validation rejected the cached entry of {key} but the resource was not contacted")
                    elif name is not None:
                        c.cat("rejected_entry_refetched")
                    # (if its re-fetch failed, the dl/pp branch above has already put it in must_refetch;
                    # if the request failed for another reason nothing is known about the new copy)

    def _run(self, w):
        scen = self.scen
        c = self.c
        # ---- prefix (no faults)
        for req in scen["prefix"]:
            out, _ = self._get(w, req)
            if out[0] != "ok":
                self.v("prefix failed", f"fault-free prefix request {req} -> {out}")
                return
            self.check_paths(req, out[1], "prefix")
            for r in req:
                self.cached_intact.add(parse(r)[0])
        # ---- an external deviation before the faulted request: a cached file gets corrupted on disk
        ext = self.plan.get(("ext", 0))
        w.install_plan({k: v for k, v in self.plan.items() if k[0] != "ext"})
        self.fault_log_start = len(w.log)
        if ext is not None:
            target = ext.split(":", 1)[1]
            hit = [b for b, key in self.path_uri.items() if key == target]
            if hit:
                pth = os.path.join(w.path, hit[0])
                st = os.stat(pth)
                with open(pth, "wb") as fp:
                    fp.write(b"corrupted on disk")
                lab._real_utime(pth, (st.st_atime, st.st_mtime))
                w.fired.append(("ext", 0, "corrupt", hit[0]))
                self.corrupted = target
        request = scen["request"]
        out, contacted = self._get(w, request)
        self.fired = list(w.fired)
        crashed = out[0] == "crash"
        missing_req = [r for r in request if expected(r) is None]
        served = []
        if out[0] == "ok":
            served = self.check_paths(request, out[1], "faulted request")
            omitted = [r for r in request if r not in served]
            if omitted:
                c.cat("uri_omitted")
            failed_names = {f[3] for f in self.fired if f[0] in ("dl", "pp")}
            for r in omitted:
                key, name, _, _ = parse(r)
                self.must_refetch.add(key)
                self.cached_intact.discard(key)
                # O1: a request that returns may omit only URIs whose fetch failed
                if expected(r) is not None and name not in failed_names:
                    self.v("uri dropped without failure", f"{r} omitted from the result although its fetch did not fail")
            if missing_req and not scen["allow_missing"]:
                self.v("strict mode swallowed not-found", f"request {request} returned although {missing_req} does not exist and missing files are not tolerated")
        elif out[0] == "raised":
            c.cat("request_raised")
            if not self.fired and not (missing_req and not scen["allow_missing"]):
                self.v("raised without failure", f"fault-free request {request} raised {type(out[1]).__name__}: {out[1]}")
            for r in missing_req:
                self.must_refetch.add(parse(r)[0])
        self._account_faults(request, self.fired, contacted, served, out[0])
        if self.fired:
            c.cat("fault_fired")
            if scen["parallel"]:
                c.cat("parallel_fault")
        # pool threads that outlive the request
        if w.sched is not None and not crashed:
            alive = [t for t, s in w.sched.state.items() if t != 0 and s != "done"]
            if alive:
                c.cat("orphan_thread_outlived_request")
                if not self.interleave:
                    try:
                        w.sched.drain()
                    except lab.Crash:
                        crashed = True
                    except Exception as exc:  # noqa
                        self.v("deadlock", f"draining orphan threads: {exc!r}")
        wcur = w
        if crashed or w.crashed:
            if w.crashed is None:
                self.v("harness", "crash without snapshot")
                return
            wcur = self._recover(w)
            crashed = True
            # after a crash nothing is known about what was completed: only exact bytes are demanded
            self.must_refetch.clear()
        # ---- follow-up
        for op in scen["followups"][self.fu_name]:
            if op[0] == "reopen":
                try:
                    wcur.reopen("limit" in self.scen)
                except Exception as exc:  # noqa
                    self.v("reopen failed", f"reopening the cache raised {type(exc).__name__}: {exc}")
                    return
                continue
            req = op[1]
            before_fired = len(wcur.fired)
            out, contacted = self._get(wcur, req)
            log_start = self.last_log_start
            new_faults = list(wcur.fired[before_fired:])
            self.fired += new_faults
            if out[0] == "crash":
                wcur = self._recover(wcur)
                self.must_refetch.clear()
                continue
            served = []
            if out[0] == "ok":
                served = self.check_paths(req, out[1], f"follow-up {self.fu_name}")
            pending_before = set(self.must_refetch)
            self._account_faults(req, new_faults, contacted, served, out[0])
            if out[0] == "raised":
                if new_faults:
                    continue
                if any(expected(r) is None for r in req) and not scen["allow_missing"]:
                    continue
                self.v("follow-up raised", f"fault-free follow-up request {req} raised {type(out[1]).__name__}: {out[1]}")
                continue
            for f in new_faults:
                if f[0] == "dl" and f[2] == "notfound_now" and out[0] == "ok":
                    n_dl = sum(1 for x in contacted if x == f[3])
                    n_nf = sum(1 for g in new_faults if g[0] == "dl" and g[2] == "notfound_now" and g[3] == f[3])
                    if n_dl <= n_nf:
                        for r in req:
                            if parse(r)[1] == f[3] and r in served:
                                self.v("served although its fetch failed",
                                       f"follow-up {req}: the resource reported {r} as not found, but a path was returned for it")
            for r in req:
                key, name, _, _ = parse(r)
                exp = expected(r)
                if exp is not None and r not in served and not new_faults:
                    self.v("not served after failure", f"follow-up {req}: {r} exists remotely but was not returned")
                if key in pending_before and self._fetched_elsewhere(wcur, name, log_start):
                    # another, unfaulted download of the same object ran since the failure (a duplicate of the
                    # URI in the same request, or a pool thread that outlived the request): nothing is demanded
                    self.must_refetch.discard(key)
                elif key in pending_before:
                    # O3: the failed URI is fetched afresh on the next request
                    if name not in contacted:
                        self.v("failed uri not refetched", f"{r} failed before but the next request served it without contacting the resource")
                    else:
                        c.cat("refetched_after_failure")
                    if not any(f[3] == name for f in new_faults):
                        self.must_refetch.discard(key)
                elif key in self.cached_intact and not new_faults:
                    # O2: URIs cached before the failure stay cached and intact
                    if name in contacted:
                        self.v("intact entry lost", f"{r} was cached before the failure but had to be downloaded again")
                    else:
                        c.cat("prefix_hit_intact")
        # orphan threads interleaved with the follow-up: let them finish, then everything must still be exact
        if wcur.sched is not None:
            try:
                wcur.sched.drain()
            except lab.Crash:
                pass
            except Exception as exc:  # noqa
                self.v("deadlock", f"draining orphan threads: {exc!r}")
            if self.interleave:
                for r in scen["universe"]:
                    if expected(r) is None:
                        continue
                    out, _ = self._get(wcur, [r])
                    if out[0] == "ok":
                        self.check_paths([r], out[1], "after orphan threads finished")
                    elif out[0] == "raised":
                        self.v("follow-up raised", f"request [{r}] after orphans finished raised {out[1]!r}")


# --------------------------------------------------------------------------------------------
def scenarios(tier):
    reqs = {
        "a": [A],
        "ab": [A, B],
        "bac": [B, A, C_],
        "cpp_a": [CPP, A],
        "aval_b": [AVAL, B],
        "bvalpp_c": [BVALPP, C_],
        # the same URI at two positions of one request
        "aa": [A, A],
        "aba": [A, B, A],
    }
    prefixes = {"none": [], "a": [[A]], "ab": [[A, B]], "aval_bvp": [[AVAL, BVALPP]],
                # the entries are cached and have been ACCEPTED by the validator once before the faulted request
                "ab+accepted": [[A, B], [AVAL, B]], "bvp+accepted": [[BVALPP], [BVALPP]]}
    out = []
    for rn, req in reqs.items():
        for pn, pre in prefixes.items():
            if pn in ("aval_bvp", "ab+accepted", "bvp+accepted") and rn not in ("aval_b", "bvalpp_c"):
                continue
            if (pn, rn) in (("ab+accepted", "bvalpp_c"), ("bvp+accepted", "aval_b")):
                continue
            for par in (False, True):
                for allow in (True, False):
                    universe = sorted(set(req + [u for p in pre for u in p] + [A, B, C_]))
                    out.append({"name": f"{rn}|pre={pn}|{'par' if par else 'seq'}|{'tolerant' if allow else 'strict'}",
                                "request": req, "prefix": pre, "parallel": par, "allow_missing": allow,
                                "universe": universe})
    # a size limit close to the working set: files that a failed request left on disk must not make the
    # cache evict (or lose) good entries of later requests
    for par in (False, True):
        out.append({"name": f"bac|pre=none|{'par' if par else 'seq'}|tolerant|limit2500", "request": reqs["bac"], "prefix": [],
                    "parallel": par, "allow_missing": True, "universe": sorted(set(reqs["bac"])), "limit": 2500})
        # a request that exceeds the limit even when one of its URIs fails (the limit must still be enlarged)
        out.append({"name": f"bac|pre=none|{'par' if par else 'seq'}|tolerant|limit1500", "request": reqs["bac"], "prefix": [],
                    "parallel": par, "allow_missing": True, "universe": sorted(set(reqs["bac"])), "limit": 1500})
    small = [S + "s%d" % i for i in range(7)]
    big = [("six", small[:6]), ("seven_pp", small[:3] + ["postprocess=p:" + small[3] + "<<pp"] + small[4:7]),
           # the same URI twice in one request, in different chunks of the pool (positions 0 and 5)
           ("dup7", small[:5] + [small[0]] + [small[6]])]
    for rn, req in big:
        for pn, pre in (("none", []), ("s5", [[small[5]]])):
            for allow in (True, False):
                out.append({"name": f"{rn}|pre={pn}|par|{'tolerant' if allow else 'strict'}", "request": req,
                            "prefix": pre, "parallel": True, "allow_missing": allow, "universe": sorted(set(req + small[:6]))})
    return out


def with_missing(scen, pos):
    s = dict(scen)
    req = list(scen["request"])
    uri, name, pp, val = parse(req[pos])
    req[pos] = req[pos].replace("://" + name, "://missing_" + name)
    s["request"] = req
    s["name"] = scen["name"] + f"|notfound@{pos}"
    s["universe"] = sorted(set(scen["universe"]) | {req[pos]})
    return s


def units(tier):
    us = []
    for sc in scenarios(tier):
        n = len(sc["request"])
        us.append({"name": "scen:" + sc["name"], "scen": sc, "cost": 5 if n > 3 else 1})
        for pos in range(n):
            if n > 3 and pos not in (0, 4, 5):
                continue
            m = with_missing(sc, pos)
            us.append({"name": "scen:" + m["name"], "scen": m, "notfound": True, "cost": 1})
        # two not-found objects in one request (second deviation of the same kind)
        pairs = [(i, j) for i in range(n) for j in range(i + 1, n)]
        if n > 3:
            pairs = [(0, 1), (0, 5), (4, 5), (1, 4)]
        for i, j in pairs:
            m = with_missing(with_missing(sc, i), j)
            us.append({"name": "scen:" + m["name"], "scen": m, "notfound": True, "cost": 1})
    return us


def run_unit(unit):
    c = Collector()
    scen = dict(unit["scen"])
    tier = unit["tier"]
    scen["followups"] = followups(scen["request"], scen["universe"])
    executions = 0
    outcomes = set()

    def execute(plan, fu, sched_prefix=(), interleave=False):
        nonlocal executions
        ex = Exec(c, scen, plan, fu, sched_prefix, interleave)
        ex.run()
        executions += 1
        c.evaluations += 1
        planned = {(k[0], k[1]) for k in plan}
        fired = {(f[0], f[1]) for f in ex.fired}
        if plan and planned <= fired:
            c.nontriv((tuple(sorted(plan.items())), fu, tuple(sched_prefix)))
        elif plan:
            c.cat("fault_not_reached")
        for check, what in ex.viol:
            c.violation(
                {"scenario": scen["name"], "plan": sorted([list(k) + [v] for k, v in plan.items()]), "followup": fu,
                 "schedule": list(sched_prefix), "check": check},
                f"{check}: {what} [scenario {scen['name']}, faults {sorted(plan.items())}, follow-up {fu}]",
            )
        outcomes.add((tuple(sorted(plan.items())), fu, tuple(v[0] for v in ex.viol)))
        return ex

    fus = list(scen["followups"])
    # 0 deviations: the fault-free run (also counts the call sites of the faulted request)
    for fu in fus:
        execute({}, fu)
    counts = count_sites(scen)
    # 1 fault
    single = []
    for site, kinds in SITE_KINDS.items():
        for n in range(counts.get(site, 0)):
            for kind in kinds:
                single.append({(site, n): kind})
    for plan in single:
        for fu in fus:
            execute(plan, fu)
    # the rejected-entry clause needs two deviations to be non-trivial (rejection, then a failing
    # re-fetch): these pairs are part of the quick tier too
    if counts.get("val", 0) and tier == "quick":
        for n in range(counts["val"]):
            for vk in VAL_KINDS:
                for m in range(counts.get("dl", 0) + 1):
                    for dk in ("raise_before", "raise_half", "crash_half"):
                        for fu in fus:
                            execute({("val", n): vk, ("dl", m): dk}, fu)
    # a cached entry is corrupted on disk before a request that validates it: it must be rejected and re-fetched
    # (also when the validator has accepted that entry earlier in the session)
    cached_before = {parse(u)[0] for p_ in scen["prefix"] for u in p_}
    for r in scen["request"]:
        key, name, _, has_val = parse(r)
        if has_val and key in cached_before and not unit.get("notfound"):
            for fu in fus:
                execute({("ext", 0): "corrupt:" + key}, fu)
            for m in range(counts.get("dl", 0) + 1):
                for fu in ("retry", "reopen_retry", "singles"):
                    execute({("ext", 0): "corrupt:" + key, ("dl", m): "raise_half"}, fu)
    # an earlier URI of a failed request was already fetched (its file may be on disk, unregistered); before the
    # retry the remote object disappears: the retry must omit it (or raise), and fetch it afresh later
    if not unit.get("notfound") and 2 <= len(scen["request"]) <= 3 and not scen["prefix"] and "limit" not in scen:
        nreq = len(scen["request"])
        for j in range(1, counts.get("dl", 0)):
            for i in range(nreq):
                plan = {("dl", j): "raise_half", ("dl", j + 1 + i): "notfound_now"}
                for fu in ("retry_retry", "retry_reopen_retry"):
                    execute(plan, fu)
    # 2 faults (thorough): second fault at a later call of any site (also during the follow-up)
    if tier == "thorough" and not unit.get("notfound") and len(scen["request"]) <= 3:
        for p1 in single:
            (s1, n1), k1 = next(iter(p1.items()))
            if "crash" in k1:
                # counters restart with the new process
                second_sites = [(s2, n2, k2) for s2, kinds in SITE_KINDS.items() for n2 in range(0, 2)
                                for k2 in kinds if (s2, n2) != (s1, n1)]
            else:
                second_sites = [(s2, n2, k2) for s2, kinds in SITE_KINDS.items() for n2 in range(counts.get(s2, 0) + 2)
                                for k2 in kinds if (s2, n2) != (s1, n1) and (s2 != s1 or n2 > n1)]
            for s2, n2, k2 in second_sites:
                plan = dict(p1)
                plan[(s2, n2)] = k2
                for fu in ("retry", "reopen_retry"):
                    execute(plan, fu)
    # the same URI in two chunks: both downloads run concurrently inside ONE request; a partial write of one
    # of them must never be published by the other (needs two preemptions: good download finished writing ->
    # failing download truncates and half-writes -> good download renames)
    if scen["parallel"] and scen["name"].startswith("dup7") and not unit.get("notfound") and (
            tier == "thorough" or (scen["allow_missing"] and not scen["prefix"])):
        for n in (range(counts.get("dl", 0)) if tier == "thorough" else (0, 5)):
            for fu in (("reopen_retry", "singles") if tier == "thorough" else ("reopen_retry",)):
                explore(execute, {("dl", n): "raise_half"}, fu, 2, c)
    # parallel: interleave the orphaned pool threads with the follow-up (preemption bound 1)
    nf_tags = scen["name"].count("notfound@")
    if scen["parallel"] and len(scen["request"]) > 5 and nf_tags <= (0 if scen["name"].startswith("dup7") else 1):
        bound = 1 if tier == "quick" else 1
        plans = [p for p in single if next(iter(p.values())) in ("raise_before", "raise_half", "pp_raise_half")]
        if tier == "quick":
            plans = [p for p in plans if next(iter(p.keys()))[1] in (0, 4)]
        for plan in plans:
            for fu in ("retry", "singles"):
                explore(execute, plan, fu, bound, c)
    c.extra = {"executions": executions, "distinct_outcomes": len(outcomes), "fault_bound": 1 if tier == "quick" else 2}
    c.case({"unit": unit["name"], "executions": executions})
    c.sample({"scenario": scen["name"], "request": scen["request"], "prefix": scen["prefix"],
              "example_plan": [list(k) + [v] for k, v in (single[len(single) // 2].items() if single else [])],
              "followups": fus})
    lab.cleanup_scratch()
    return c.result()


def count_sites(scen):
    """number of calls per site made by the fault-free faulted request"""
    w = lab.World(size_bytes=LIMIT, parallel=scen["parallel"], allow_missing=scen["allow_missing"])
    try:
        for req in scen["prefix"]:
            w.cache[list(req)]
        w.install_plan({})
        try:
            w.cache[list(scen["request"])]
        except Exception:
            pass
        if w.sched is not None:
            try:
                w.sched.drain()
            except Exception:
                pass
        return dict(w.counters)
    finally:
        w.close()


def explore(execute, plan, fu, bound, c):
    """all schedules of (faulted request + follow-up) with <= bound preemptions, orphans interleaved"""
    stack = [()]
    seen = set()
    while stack:
        prefix = stack.pop()
        ex = execute(plan, fu, sched_prefix=prefix, interleave=True)
        sched = ex.first_sched
        if sched is None:
            return
        choices = list(sched.choices)
        points = [(p["n"], p["running_enabled"]) for p in sched.points]
        if choices[:len(prefix)] != list(prefix):
            raise RuntimeError(f"replay divergence: asked {list(prefix)} got {choices}")
        if sched.preemptions() > 0:
            c.cat("preempted_schedule")
        pre = 0
        pre_before = []
        for ch, (n, re_) in zip(choices, points):
            pre_before.append(pre)
            if re_ and ch != 0:
                pre += 1
        for i in range(len(prefix), len(choices)):
            n, re_ = points[i]
            for alt in range(1, n):
                if pre_before[i] + (1 if re_ else 0) > bound:
                    continue
                child = tuple(choices[:i]) + (alt,)
                if child not in seen:
                    seen.add(child)
                    stack.append(child)
