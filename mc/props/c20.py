"""C20  Time integration: exact stencils, linearity, start value, jitter fallback.

Engine E1.  Two parts.

(a) Stencil table -- the FULL domain: every order 1..8 x every number of implicit points 1..order
    (36 pairs).  The reference weights are the integrals of the Lagrange basis polynomials on the
    nodes 0..order-1 over the step [m-1, m], m = order - n, computed with fractions.Fraction.  The
    reference itself is proven (exactly) to sum to one and to integrate x^p, p < order, exactly; the
    library's float weights must match it within a rounding bound derived from the conditioning of
    the library's own evaluation scheme.

(b) integrate(time, signal, order, n, start_value): for every grid of a structured family (uniform,
    one jittered step at every position, two jittered steps at every position/distance, periodic
    jitter with every phase, a change of the sampling interval at every position, gaps) the weight
    vector the implementation uses at every step is read off the impulse responses (unit impulse
    at every index) and compared with what the property allows at that step:
        MUST_TRAP     stencil not available (it would reach outside the record) or it touches two
                      consecutive time steps that differ by more than 1.05 % -> trapezoid weights
        MUST_STENCIL  every time step within order+2 steps before and n+2 steps after is equal
                      (1e-9) -> the order/n stencil; with the default (4,1) the increments of
                      t^0..t^3 must then equal the exact integral
        EITHER        uniform under the stencil but close to a restart cause -> one of the two
        FREE          the stencil touches jitter below 1 % -> no claim on the value
    plus out[0] == start_value, out(start=c) == c + out(start=0), and linearity (superposition of
    the impulse responses reproduces monomials t^0..t^5, monomial+impulse sums and scalings).
"""
import math
from fractions import Fraction as Fr

import numpy as np

from mc.common import Collector

ID = "C20"
LEVEL = "exploration"
RULE = (
    "(a) all 36 (order, implicit points) pairs, exact rational reference; a pair is non-trivial when order >= 2. "
    "(b) full product config {(4,1) explicit and by default arguments,(2,1),(3,2),(4,2),(6,3)} x base dt {0.4,1} x "
    "length x grid family member (uniform; single jitter +0.5/+-1.1/+-2/+50 %/gap x10 at every step position; two deviations of different size (x10 gap / 50 % / 2 %) at every ordered pair of positions; equal "
    "jitter pairs 2/50 % at every position with distance 1..6; periodic jitter period 2,3,4 every phase; change of "
    "dt by 2/50 % at every position; sub-threshold alternating; two deviations of different size; wobble = 2/3/5 "
    "consecutive steps alternating -+0.6 % (each within 1 % of nominal, neighbours 1.2 % apart) at every position) x signal {unit impulse at every index, t^0..t^5 x "
    "start value {0,5,-2.5}, t^3+2*impulse(i), -3.5*t^2}.  One evaluation = one integrate() call.  A (config, grid) "
    "is non-trivial when at least one step is constrained to a rule (trapezoid or stencil) that differs from the "
    "other rule's weights; distinct = distinct (config, dt, length, grid)."
)
ASSUMPTIONS = [
    "float64 time and signal arrays (an integer-dtype signal makes integrate() return a truncated integer array; "
    "dtype is not part of the statement and is not enumerated)",
    "jitter amplitudes are chosen so that they are below (0.5 %) or above (1.1 %, 2 %, 50 %, x10) the 1 % threshold "
    "whichever neighbouring step the difference is taken relative to; grids with slow drift, where 'jitter by more "
    "than 1 %' is ambiguous, are not enumerated",
    "steps whose stencil touches sub-threshold (<1 %) jitter are not constrained in value (only linearity/start)",
    "length 2000 restricts jitter positions to the first/last 8 steps and the quarter points, and uses a reduced "
    "amplitude set; length 200 restricts jitter pairs to the first 12 / last 20 positions",
]
REQUIRED_CATEGORIES = [
    "stencil_pairs", "stencil_monomial_moments", "steps_must_trap_jitter", "steps_must_trap_ends",
    "steps_must_stencil", "steps_either", "steps_free", "cubic_exact_steps", "start_nonzero_calls",
    "superposition_checks", "grids_uniform", "grids_single", "grids_pair", "grids_periodic", "grids_change",
    "grids_wobble", "steps_must_trap_wobble",
    "default_argument_calls",
]

EPS = 2.0 ** -52
CONFIGS = [("default", 4, 1), ("4_1", 4, 1), ("2_1", 2, 1), ("3_2", 3, 2), ("4_2", 4, 2), ("6_3", 6, 3)]
DT0 = [0.4, 1.0]
STARTS = [0.0, 5.0, -2.5]
LENGTHS = {"quick": [2, 3, 5, 6, 9, 20], "thorough": [2, 3, 5, 6, 9, 20, 200, 2000]}


# ------------------------------------------------------------------------------------------
# reference: Lagrange integrals in exact rational arithmetic (no library import)
# ------------------------------------------------------------------------------------------
def lagrange_poly(nodes, i):
    """ascending coefficients of the i-th Lagrange basis polynomial on integer nodes."""
    p = [Fr(1)]
    for j in nodes:
        if j == nodes[i]:
            continue
        q = [Fr(0)] * (len(p) + 1)
        for k, cf in enumerate(p):
            q[k + 1] += cf
            q[k] -= cf * j
        d = Fr(nodes[i] - j)
        p = [cf / d for cf in q]
    return p


def ref_stencil(order, n):
    """(weights, cond): exact weights and, per weight, the conditioning of the library's evaluation
    (sum of |coefficient| * |x|^k of the integrated polynomial at both limits)."""
    m = order - n
    nodes = list(range(order))
    ws, conds = [], []
    for i in range(order):
        p = lagrange_poly(nodes, i)
        prim = [cf / (k + 1) for k, cf in enumerate(p)]  # coefficient of x^(k+1)

        def val(x):
            return sum(cf * Fr(x) ** (k + 1) for k, cf in enumerate(prim))

        def aval(x):
            return sum(abs(cf) * abs(Fr(x)) ** (k + 1) for k, cf in enumerate(prim))

        ws.append(val(m) - val(m - 1))
        conds.append(aval(m) + aval(m - 1))
    return ws, conds


def stencil_tol(order, conds):
    # coefficients: small exact integers, one division by the denominator, one by (order-i): 2 eps;
    # evaluate_polynomial: one product + one addition per term: (order+1) eps on the running sum;
    # final subtraction 1 eps.  Bound: (order+4) eps * cond; factor 2 of head room.
    return [2.0 * (order + 4) * EPS * float(cd) + 4 * EPS for cd in conds]


def run_stencils(unit):
    from ocean_science_utilities.tools.time_integration import integration_stencil

    c = Collector()
    for order in range(1, 9):
        for n in range(1, order + 1):
            m = order - n
            ws, conds = ref_stencil(order, n)
            # the mathematics, decided exactly
            assert sum(ws) == 1, (order, n)
            for p in range(order):
                exact = (Fr(m) ** (p + 1) - Fr(m - 1) ** (p + 1)) / (p + 1)
                assert sum(w * Fr(k) ** p for k, w in enumerate(ws)) == exact, (order, n, p)
            key = {"part": "stencil", "order": order, "n": n}
            c.evaluations += 1
            c.case(key)
            c.cat("stencil_pairs")
            if order >= 2:
                c.nontriv((order, n))
            try:
                w = integration_stencil(order, n)
            except Exception as exc:  # noqa
                c.violation(dict(key, check="raises"), f"integration_stencil({order},{n}) raised {type(exc).__name__}: {exc}")
                continue
            w = np.asarray(w)
            if w.shape != (order,):
                c.violation(dict(key, check="length"), f"integration_stencil({order},{n}) has shape {w.shape}")
                continue
            tol = stencil_tol(order, conds)
            wl = [Fr(float(x)) if math.isfinite(float(x)) else None for x in w]
            if any(x is None for x in wl):
                c.violation(dict(key, check="finite"), f"integration_stencil({order},{n}) = {w.tolist()}")
                continue
            errs = [abs(float(a - b)) for a, b in zip(wl, ws)]
            if any(e > t for e, t in zip(errs, tol)):
                i = int(np.argmax([e / t for e, t in zip(errs, tol)]))
                c.violation(
                    dict(key, check="weights"),
                    f"integration_stencil({order},{n})[{i}] = {float(w[i])!r}, Lagrange integral = {ws[i]} "
                    f"(|err| {errs[i]:.3g} > bound {tol[i]:.3g})",
                    library=w.tolist(), reference=[str(x) for x in ws],
                )
            s = sum(wl)
            if abs(float(s - 1)) > sum(tol):
                c.violation(dict(key, check="sum"), f"weights of ({order},{n}) sum to {float(s)!r}")
            for p in range(order):
                exact = (Fr(m) ** (p + 1) - Fr(m - 1) ** (p + 1)) / (p + 1)
                got = sum(x * Fr(k) ** p for k, x in enumerate(wl))
                bound = sum(t * float(k) ** p for k, t in enumerate(tol))
                c.cat("stencil_monomial_moments")
                if abs(float(got - exact)) > bound:
                    c.violation(
                        dict(key, check="monomial", degree=p),
                        f"stencil ({order},{n}) integrates x^{p} over the step to {float(got)!r}, exact {exact}",
                    )
            if (order, n) in ((4, 1), (8, 3), (3, 3)):
                c.sample({"order": order, "n": n, "library": w.tolist(), "exact": [str(x) for x in ws]})
    return c.result()


# ------------------------------------------------------------------------------------------
# grids
# ------------------------------------------------------------------------------------------
def positions(nt, tier):
    allp = list(range(1, nt))
    if nt <= 200:
        return allp
    return sorted(set(allp[:8]) | set(allp[-8:]) | {nt // 4, nt // 2, 3 * nt // 4})


def grid_specs(nt, tier):
    """Every grid is a dict (json-able); factor[k] multiplies the base step k (k = 1..nt-1)."""
    specs = [{"family": "uniform"}]
    pos = positions(nt, tier)
    big = nt > 200
    if nt >= 3:
        for j in pos:
            for amp in ((0.005, 0.011, -0.02, 9.0) if big else (0.005, 0.011, -0.011, 0.02, -0.02, 0.5, 9.0)):
                specs.append({"family": "single", "pos": j, "amp": amp})
        pair_pos = pos if (nt <= 20 or big) else [j for j in pos if j <= 12 or j >= nt - 20]
        for j in pair_pos:
            for g in range(1, 4 if big else 7):
                if j + g <= nt - 1:
                    for amp in (0.02, 0.5):
                        specs.append({"family": "pair", "pos": j, "gap": g, "amp": amp})
        for period in (2, 3, 4):
            for phase in range(period):
                for amp in (0.02, 0.5):
                    specs.append({"family": "periodic", "period": period, "phase": phase, "amp": amp})
        for j in pos:
            if j >= 2:
                for amp in ((0.5,) if big else (0.02, 0.5)):
                    specs.append({"family": "change", "pos": j, "amp": amp})
        specs.append({"family": "periodic_sub", "period": 2, "phase": 0, "amp": 0.005})
        # two deviations of *different* size (e.g. a long first interval / gap and a later 2 % jitter):
        # a jitter test whose threshold is taken from some other step than the current one only shows here
        first = pos if nt <= 20 else pos[:3]
        for j1 in first:
            for j2 in pos:
                if j2 <= j1 or (nt > 20 and j2 - j1 > 12 and j2 not in pos[-8:]):
                    continue
                for amp1, amp2 in ((9.0, 0.02), (0.5, 0.02), (0.02, 9.0)):
                    specs.append({"family": "mixed", "pos": j1, "pos2": j2, "amp": amp1, "amp2": amp2})
        # near-nominal wobble after a run of nominal steps: L consecutive steps alternate -0.6 % / +0.6 % (or
        # +/-) around the nominal step.  Every step is within 1 % of the nominal one, but consecutive steps
        # differ by 1.2 %, so a jitter test against anything but the neighbouring step misses it.
        seen = set()
        for j in pos:
            for length in ((2, 5) if big else (2, 3, 5)):
                length = min(length, nt - j)
                if length < 2 or (j, length) in seen:
                    continue
                seen.add((j, length))
                for sign in (-1, 1):
                    specs.append({"family": "wobble", "pos": j, "length": length, "sign": sign, "amp": 0.006})
    return specs


def grid_factor(spec, nt):
    f = np.ones(nt)
    f[0] = np.nan
    fam = spec["family"]
    if fam == "single":
        f[spec["pos"]] *= 1 + spec["amp"]
    elif fam == "pair":
        f[spec["pos"]] *= 1 + spec["amp"]
        f[spec["pos"] + spec["gap"]] *= 1 + spec["amp"]
    elif fam in ("periodic", "periodic_sub"):
        for k in range(1, nt):
            if k % spec["period"] == spec["phase"]:
                f[k] *= 1 + spec["amp"]
    elif fam == "change":
        f[spec["pos"]:] *= 1 + spec["amp"]
    elif fam == "mixed":
        f[spec["pos"]] *= 1 + spec["amp"]
        f[spec["pos2"]] *= 1 + spec["amp2"]
    elif fam == "wobble":
        for i in range(spec["length"]):
            f[spec["pos"] + i] *= 1 + spec["sign"] * (-1) ** i * spec["amp"]
    return f


def make_time(spec, nt, dt0):
    f = grid_factor(spec, nt)
    t = np.zeros(nt)
    for k in range(1, nt):  # plain accumulation, as a logger would produce it
        t[k] = t[k - 1] + dt0 * f[k]
    return t


# ------------------------------------------------------------------------------------------
# step classification (reference; depends on the time axis only)
# ------------------------------------------------------------------------------------------
MUST_TRAP_END, MUST_TRAP_JIT, MUST_STENCIL, EITHER, FREE = 0, 1, 2, 3, 4


def classify(t, order, n):
    nt = len(t)
    dt = np.empty(nt)
    dt[0] = np.nan
    dt[1:] = np.diff(t)
    m = order - n
    cls = np.empty(nt, dtype=int)
    cls[0] = -1
    for ii in range(1, nt):
        lo, hi = ii - m, ii + n - 1
        if lo < 0 or hi > nt - 1:
            cls[ii] = MUST_TRAP_END
            continue
        a, b = min(lo + 1, ii), max(hi, ii)
        touched = dt[a:b + 1]
        spread = touched.max() / touched.min() - 1.0
        # jitter = change from one time step to the next, among the steps under the stencil, relative to the
        # smaller of the two (so it exceeds 1 % whichever step it is referred to)
        jit = 0.0
        if len(touched) > 1:
            jit = float(np.max(np.abs(np.diff(touched)) / np.minimum(touched[1:], touched[:-1])))
        if jit > 0.0105:
            cls[ii] = MUST_TRAP_JIT
        elif spread > 1e-9:
            cls[ii] = FREE
        else:
            a2, b2 = ii - order - 2, ii + n + 1
            if a2 >= 1 and b2 <= nt - 1:
                far = dt[a2:b2 + 1]
                if far.max() / far.min() - 1.0 <= 1e-9:
                    cls[ii] = MUST_STENCIL
                    continue
            cls[ii] = EITHER
    return dt, cls


def expected_rows(nt, order, n, w):
    """trap[ii, i], sten[ii, i]: weight of signal[i] in step ii (row 0 unused); sten rows of steps
    where the stencil is unavailable are NaN."""
    trap = np.zeros((nt, nt))
    sten = np.zeros((nt, nt))
    m = order - n
    for ii in range(1, nt):
        trap[ii, ii - 1] = 0.5
        trap[ii, ii] = 0.5
        lo, hi = ii - m, ii + n - 1
        if lo < 0 or hi > nt - 1:
            sten[ii, :] = np.nan
        else:
            sten[ii, lo:hi + 1] = w
    return trap, sten


_ROWS = {}


def rows_for(nt, order, n):
    k = (nt, order, n)
    if k not in _ROWS:
        ws, conds = ref_stencil(order, n)
        w = np.array([float(x) for x in ws])
        wtol = max(stencil_tol(order, conds))
        _ROWS.clear()  # keep one (large for nt=2000)
        _ROWS[k] = (w, wtol) + expected_rows(nt, order, n, w)
    return _ROWS[k]


def exact_monomial_increments(t, p):
    """integral of tau^p over every step, exactly (Fractions of the float nodes), as floats."""
    tau = [Fr(float(x)) for x in t]
    pw = [x ** (p + 1) for x in tau]
    return np.array([0.0] + [float((pw[i] - pw[i - 1]) / (p + 1)) for i in range(1, len(t))])


# ------------------------------------------------------------------------------------------
# integrate
# ------------------------------------------------------------------------------------------
def units(tier):
    us = [{"name": "stencils", "kind": "stencils", "cost": 5}]
    for tag, order, n in CONFIGS:
        for dt0 in DT0:
            for nt in LENGTHS[tier]:
                if nt >= 200 and tag == "default":
                    continue  # identical to 4_1 apart from the default arguments
                shards = 4 if nt >= 2000 else 1  # grids of one unit are dealt round-robin over the shards
                for k in range(shards):
                    us.append({
                        "name": f"integrate:{tag}:dt{dt0}:nt{nt}" + (f":shard{k}" if shards > 1 else ""),
                        "kind": "integrate", "tag": tag, "order": order, "n": n, "dt0": dt0, "nt": nt,
                        "shard": k, "shards": shards, "cost": nt * nt // (10 * shards) + 1,
                    })
    return us


def run_integrate(unit):
    from ocean_science_utilities.tools.time_integration import integrate

    c = Collector()
    tier, tag, order, n, dt0, nt = unit["tier"], unit["tag"], unit["order"], unit["n"], unit["dt0"], unit["nt"]
    use_defaults = tag == "default"
    w, wtol, TRAP, STEN = rows_for(nt, order, n)
    sum_idx = list(range(nt)) if nt <= 200 else sorted(set(range(0, nt, 32)) | {1, 2, nt - 2, nt - 1})
    base = {"order": order, "n": n, "config": tag}

    def call(t, s, start):
        c.evaluations += 1
        if use_defaults:
            c.cat("default_argument_calls")
            if start == 0.0:
                return integrate(t, s)
            return integrate(t, s, start_value=start)
        return integrate(t, s, order, n, start)

    for gi, spec in enumerate(grid_specs(nt, tier)):
        if gi % unit.get("shards", 1) != unit.get("shard", 0):
            continue
        fam = spec["family"]
        key = dict(base, grid=fam)
        t = make_time(spec, nt, dt0)
        dt, cls = classify(t, order, n)
        c.case({"u": unit["name"], "g": spec})
        c.cat("grids_" + ("periodic" if fam == "periodic_sub" else fam))
        detail = {"grid": spec, "nt": nt, "dt0": dt0, "time_head": t[:24].tolist()}
        try:
            # ---- impulse responses: the weights used at every step ------------------------
            O = np.empty((nt, nt))
            for i in range(nt):
                e = np.zeros(nt)
                e[i] = 1.0
                O[i] = call(t, e, 0.0)
            if not np.all(np.isfinite(O)):
                c.violation(dict(key, check="finite"), "impulse response not finite", **detail)
                continue
            if np.any(O[:, 0] != 0.0):
                c.violation(dict(key, check="start_value"), "out[0] != 0 for start_value 0", **detail)
            R = np.zeros((nt, nt))  # R[ii, i] weight of signal[i] at step ii
            R[1:, :] = (np.diff(O, axis=1) / dt[None, 1:]).T
            atol = 1e-12 + wtol
            is_trap = np.all(np.abs(R - TRAP) <= atol, axis=1)
            with np.errstate(invalid="ignore"):
                is_sten = np.all(np.abs(R - STEN) <= atol, axis=1)  # NaN rows -> False
            for code, name in ((MUST_TRAP_END, "steps_must_trap_ends"), (MUST_TRAP_JIT, "steps_must_trap_jitter"),
                               (MUST_STENCIL, "steps_must_stencil"), (EITHER, "steps_either"), (FREE, "steps_free")):
                c.cat(name, int(np.sum(cls[1:] == code)))
            if fam == "wobble":
                c.cat("steps_must_trap_wobble", int(np.sum(cls[1:] == MUST_TRAP_JIT)))
            steps = np.arange(nt)
            bad_trap = steps[((cls == MUST_TRAP_END) | (cls == MUST_TRAP_JIT)) & ~is_trap]
            bad_sten = steps[(cls == MUST_STENCIL) & ~is_sten]
            bad_either = steps[(cls == EITHER) & ~(is_trap | is_sten)]

            def show(ii):
                nz = np.nonzero(np.abs(R[ii]) > 1e-13)[0]
                return {"step": int(ii), "dt_around": dt[max(1, ii - order):ii + n + 1].tolist(),
                        "signal_indices": nz.tolist(), "weights_used": R[ii, nz].tolist()}

            if len(bad_trap):
                ii = int(bad_trap[0])
                why = "stencil would reach outside the record" if cls[ii] == MUST_TRAP_END else \
                    "stencil touches time steps differing by more than 1 %"
                c.violation(dict(key, check="must_trapezoid"),
                            f"integrate(order={order}, n={n}) does not use the trapezoidal rule at step {ii} ({why}); "
                            f"grid {spec}, nt={nt}, dt0={dt0}", bad_steps=bad_trap[:20].tolist(), **show(ii), **detail)
            if len(bad_sten):
                ii = int(bad_sten[0])
                c.violation(dict(key, check="must_stencil"),
                            f"integrate(order={order}, n={n}) does not use the ({order},{n}) stencil at step {ii} of a "
                            f"uniformly sampled stretch; grid {spec}, nt={nt}, dt0={dt0}",
                            bad_steps=bad_sten[:20].tolist(), expected_weights=w.tolist(), **show(ii), **detail)
            if len(bad_either):
                ii = int(bad_either[0])
                c.violation(dict(key, check="neither_rule"),
                            f"integrate(order={order}, n={n}) step {ii} uses neither the trapezoid nor the stencil weights; "
                            f"grid {spec}, nt={nt}, dt0={dt0}", bad_steps=bad_either[:20].tolist(), **show(ii), **detail)
            # (2,1) is the trapezoid itself: nothing to discriminate there
            if order != 2 and np.any(np.isin(cls[1:], (MUST_TRAP_JIT, MUST_STENCIL))):
                c.nontriv((tag, dt0, nt, tuple(sorted(spec.items()))))

            # ---- monomials x start values: start, superposition, exact cubic ----------------
            absO = np.abs(O)
            tau = t - t[0]
            outs = {}
            for p in range(6):
                s = tau ** p
                scale = np.maximum.accumulate(np.abs(s) @ absO)
                pred = s @ O
                for start in STARTS:
                    out = call(t, s, start)
                    if start != 0.0:
                        c.cat("start_nonzero_calls")
                    if out.shape != s.shape:
                        c.violation(dict(key, check="shape"), f"output shape {out.shape}", **detail)
                        continue
                    if out[0] != start:
                        c.violation(dict(key, check="start_value"),
                                    f"integrate(..., start_value={start})[0] = {out[0]!r}", degree=p, **detail)
                    tol = 4 * (nt + 16) * EPS * (scale + abs(start))
                    c.cat("superposition_checks")
                    d = np.abs(out - (start + pred))
                    if not np.all(d <= tol):
                        ii = int(np.argmax(d - tol))
                        c.violation(dict(key, check="linearity"),
                                    f"integrate(t^{p}, start={start}) differs from start + superposition of impulse "
                                    f"responses at index {ii}: {out[ii]!r} vs {start + pred[ii]!r}", **detail)
                    if start == 0.0:
                        outs[p] = out
                if order == 4 and n == 1 and p <= 3 and p in outs:
                    out = outs[p]
                    exact = exact_monomial_increments(tau, p)
                    inc = np.zeros(nt)
                    inc[1:] = np.diff(out)
                    ws_abs = np.zeros(nt)
                    for ii in range(1, nt):
                        ws_abs[ii] = np.sum(np.abs(s[max(0, ii - 3):ii + 1])) * dt[ii]
                    aout = np.abs(out)
                    tol = np.zeros(nt)
                    tol[1:] = 4 * EPS * (aout[1:] + aout[:-1]) + 64 * EPS * ws_abs[1:]
                    trapv = np.zeros(nt)
                    trapv[1:] = 0.5 * (s[1:] + s[:-1]) * dt[1:]
                    ms = cls == MUST_STENCIL
                    c.cat("cubic_exact_steps", int(np.sum(ms)))
                    bad = steps[ms & ~(np.abs(inc - exact) <= tol)]
                    ei = cls == EITHER
                    bad2 = steps[ei & ~((np.abs(inc - exact) <= tol) | (np.abs(inc - trapv) <= tol))]
                    if len(bad):
                        ii = int(bad[0])
                        c.violation(dict(key, check="cubic_exact", degree=p),
                                    f"default stencil: increment of t^{p} at step {ii} is {inc[ii]!r}, exact integral "
                                    f"{exact[ii]!r} (uniform stretch)", bad_steps=bad[:20].tolist(), **detail)
                    if len(bad2):
                        ii = int(bad2[0])
                        c.violation(dict(key, check="cubic_exact_or_trapezoid", degree=p),
                                    f"default stencil: increment of t^{p} at step {ii} is {inc[ii]!r}: neither exact "
                                    f"({exact[ii]!r}) nor trapezoid ({trapv[ii]!r})", **detail)
            # ---- sums and scalings --------------------------------------------------------------
            if 3 in outs and 2 in outs:
                s3 = tau ** 3
                sc3 = np.maximum.accumulate(np.abs(s3) @ absO)
                for i in sum_idx:
                    s = s3.copy()
                    s[i] += 2.0
                    out = call(t, s, 5.0)
                    c.cat("start_nonzero_calls")
                    c.cat("superposition_checks")
                    want = 5.0 + outs[3] + 2.0 * O[i]
                    tol = 4 * (nt + 16) * EPS * (sc3 + 2.0 * np.maximum.accumulate(absO[i]) + 5.0)
                    if out[0] != 5.0:
                        c.violation(dict(key, check="start_value"), f"out[0] = {out[0]!r} for start_value 5.0", **detail)
                    if not np.all(np.abs(out - want) <= tol):
                        c.violation(dict(key, check="linearity"),
                                    f"integrate(t^3 + 2*impulse({i})) != integrate(t^3) + 2*integrate(impulse({i}))", **detail)
                out = call(t, -3.5 * tau ** 2, 0.0)
                c.cat("superposition_checks")
                sc2 = np.maximum.accumulate(np.abs(tau ** 2) @ absO)
                if not np.all(np.abs(out + 3.5 * outs[2]) <= 4 * (nt + 16) * EPS * 3.5 * sc2):
                    c.violation(dict(key, check="linearity"), "integrate(-3.5 * t^2) != -3.5 * integrate(t^2)", **detail)
            if fam in ("uniform", "single") and len(c.samples) < 2 and nt >= 9 and spec.get("pos", 5) == 5:
                c.sample({"config": tag, "grid": spec, "nt": nt, "dt0": dt0,
                          "step_classes": cls[1:].tolist() if nt <= 20 else "omitted",
                          "integral_of_t3": outs.get(3, np.zeros(0))[:10].tolist()})
        except Exception as exc:  # library exception on an input inside the domain
            import traceback

            tb = traceback.extract_tb(exc.__traceback__)
            if tb and tb[-1].filename.startswith("/verif/"):
                raise
            c.violation(dict(key, check="raises"), f"integrate raised {type(exc).__name__}: {exc}",
                        traceback=traceback.format_exc()[-1500:], **detail)
    return c.result()


def run_unit(unit):
    if unit["kind"] == "stencils":
        return run_stencils(unit)
    return run_integrate(unit)


def write_repro(v, path):
    d = v.get("detail", {})
    k = v.get("key", {})
    if "grid" not in d or "order" not in k:
        return
    with open(path, "w") as fp:
        fp.write(
            "import numpy as np\n"
            "from ocean_science_utilities.tools.time_integration import integrate\n"
            f"# {v.get('what')}\n"
            f"spec = {d['grid']!r}; nt = {d['nt']}; dt0 = {d['dt0']}; order, n = {k['order']}, {k['n']}\n"
            "import sys; sys.path.insert(0, '/verif')\n"
            "from mc.props.c20 import make_time\n"
            "t = make_time(spec, nt, dt0)\n"
            "O = np.array([integrate(t, np.eye(nt)[i], order, n, 0.0) for i in range(nt)])\n"
            "W = (np.diff(O, axis=1) / np.diff(t)[None, :]).T   # W[ii-1, i] = weight of signal[i] at step ii\n"
            "np.set_printoptions(precision=5, linewidth=200)\n"
            "for ii, r in enumerate(W, 1):\n"
            "    nz = np.nonzero(r)[0]; print(ii, round(t[ii]-t[ii-1], 6), nz, r[nz])\n"
        )
