"""Shared harness helpers: building spectrum objects in the layouts the properties quantify
over, small numeric helpers. Reference models live in mc/refmodels and do not import this."""
import hashlib
import json
from datetime import datetime, timezone, timedelta

import numpy as np

T0 = datetime(2022, 1, 1, tzinfo=timezone.utc)


def times(n):
    return np.array([np.datetime64((T0 + timedelta(hours=i)).replace(tzinfo=None), "ns") for i in range(n)])


def _space(layout_shape):
    """time / latitude / longitude / dims for a leading shape () / (nt,) / (nt,nx)."""
    if len(layout_shape) == 0:
        return dict(time=T0, latitude=12.5, longitude=-120.0), ()
    if len(layout_shape) == 1:
        nt = layout_shape[0]
        return (
            dict(
                time=times(nt),
                latitude=10.0 + np.arange(nt) * 0.5,
                longitude=-120.0 + np.arange(nt) * 0.25,
            ),
            ("time",),
        )
    if len(layout_shape) == 2:
        nt, nx = layout_shape
        return (
            dict(
                time=times(nt),
                latitude=10.0 + np.arange(nx) * 0.5,
                longitude=-120.0 + np.arange(nt * nx).reshape(nt, nx) * 0.25,
            ),
            ("time", "latitude"),
        )
    raise ValueError(layout_shape)


def make_1d(f, E, a1=None, b1=None, a2=None, b2=None, depth=np.inf, flat=False):
    """E has shape (*lead, nf) with len(lead) in 0,1,2.  depth broadcastable to lead."""
    from ocean_science_utilities.wavespectra.spectrum import create_1d_spectrum

    E = np.asarray(E, dtype=float)
    lead = E.shape[:-1]
    sp, dims = _space(lead)
    dep = np.broadcast_to(np.asarray(depth, dtype=float), lead).copy() if lead else float(depth)
    kw = {}
    for n, v in (("a1", a1), ("b1", b1), ("a2", a2), ("b2", b2)):
        if v is not None:
            kw[n] = np.asarray(v, dtype=float)
    s = create_1d_spectrum(
        np.asarray(f, dtype=float), E, sp["time"], sp["latitude"], sp["longitude"],
        depth=dep, dims=dims + ("frequency",), **kw,
    )
    return s.flatten() if flat else s


def make_2d(f, d, E, depth=np.inf, flat=False):
    """E has shape (*lead, nf, nd)."""
    from ocean_science_utilities.wavespectra.spectrum import create_2d_spectrum

    E = np.asarray(E, dtype=float)
    lead = E.shape[:-2]
    sp, dims = _space(lead)
    dep = np.broadcast_to(np.asarray(depth, dtype=float), lead).copy() if lead else float(depth)
    s = create_2d_spectrum(
        np.asarray(f, dtype=float), np.asarray(d, dtype=float), E, sp["time"], sp["latitude"],
        sp["longitude"], dims=dims + ("frequency", "direction"), depth=dep,
    )
    return s.flatten() if flat else s


def reshape_lead(arr, layout, trailing):
    """Put a batch of n members (n, *trailing) into the leading shape of `layout`:
    'time' -> (n,), 'time_lat' -> (n//k, k) with k the largest of 4,3,2,1 dividing n,
    'flat' -> as time_lat (flattened afterwards by make_*)."""
    n = arr.shape[0]
    if layout == "time":
        return arr
    for k in (4, 3, 2, 1):
        if n % k == 0:
            return arr.reshape((n // k, k) + tuple(trailing))
    raise AssertionError


def digest(items) -> str:
    h = hashlib.sha256()
    for it in items:
        h.update(json.dumps(it, sort_keys=True, default=str).encode())
    return h.hexdigest()[:32]


def close(a, b, rtol=1e-12, atol=0.0):
    """NaN-aware closeness for scalars / arrays: NaN must match NaN, inf must match inf."""
    a = np.asarray(a, dtype=float)
    b = np.asarray(b, dtype=float)
    with np.errstate(invalid="ignore"):
        both_nan = np.isnan(a) & np.isnan(b)
        same_inf = np.isinf(a) & np.isinf(b) & (np.sign(a) == np.sign(b))
        fin = np.isfinite(a) & np.isfinite(b)
        ok = fin & (np.abs(np.where(fin, a - b, 0.0)) <= atol + rtol * np.where(fin, np.maximum(np.abs(a), np.abs(b)), 0.0))
    return both_nan | same_inf | ok


def angle_diff(a, b, period=360.0):
    """|a-b| on the circle."""
    d = (np.asarray(a, dtype=float) - np.asarray(b, dtype=float)) % period
    return np.minimum(d, period - d)


class Collector:
    """Per-unit result accumulator."""

    MAX_LISTED = 40

    def __init__(self):
        self.evaluations = 0
        self.nontrivial = set()
        self.nontrivial_count = 0
        self.categories = {}
        self.violations = []
        self.violations_total = 0
        self.samples = []
        self.extra = {}
        self._dig = hashlib.sha256()

    def cat(self, name, n=1):
        if n:
            self.categories[name] = self.categories.get(name, 0) + int(n)

    def nontriv(self, key=None, n=None):
        if n is not None:
            self.nontrivial_count += int(n)
        else:
            self.nontrivial.add(key)

    def case(self, key):
        self._dig.update(json.dumps(key, sort_keys=True, default=str).encode())

    _known_entries = None

    @classmethod
    def _is_known(cls, key):
        """True when the key matches a 'known' entry of KNOWN_FINDINGS.json (any property).  Only used to cap
        the two groups separately, so that many instances of a known finding can never crowd a new violation
        out of the listed ones; the verdict itself is taken by the runner."""
        if cls._known_entries is None:
            try:
                import os

                path = os.path.join(os.path.dirname(os.path.dirname(os.path.abspath(__file__))), "KNOWN_FINDINGS.json")
                with open(path) as fp:
                    cls._known_entries = [e for e in json.load(fp).get("findings", []) if e.get("status") == "known"]
            except Exception:
                cls._known_entries = []
        if not cls._known_entries:
            return False
        from mc.runner import _match

        try:
            return any(_match(e, key) for e in cls._known_entries)
        except Exception:
            return False

    def violation(self, key, what, **detail):
        self.violations_total += 1
        known = self._is_known(key) if isinstance(key, dict) else False
        n_same = sum(1 for v in self.violations if v.get("_known", False) == known)
        if n_same < self.MAX_LISTED:
            self.violations.append({"key": key, "what": what, "detail": detail, "_known": known})

    def sample(self, s):
        if len(self.samples) < 3:
            self.samples.append(s)

    def result(self):
        return {
            "evaluations": self.evaluations,
            "distinct_nontrivial": len(self.nontrivial) + self.nontrivial_count,
            "digest": self._dig.hexdigest()[:32],
            "categories": self.categories,
            "violations": self.violations,
            "violations_total": self.violations_total,
            "samples": self.samples,
            "extra": self.extra,
        }
