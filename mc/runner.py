"""
Runner for the bounded exhaustive checks (see DESIGN.md section 1).

    python -m mc.runner C07 [--tier quick|thorough] [--replay FILE] [--workers N]

Exit codes
    0  the property held on everything explored (known findings are printed, not failed)
    1  a violation that KNOWN_FINDINGS.json does not list  ("VIOLATION property=<id> replay=<path>")
    2  the harness failed its own self-checks (vacuity, determinism, crash in harness code)

A property module (mc/props/cNN.py) provides

    ID, LEVEL, RULE, ASSUMPTIONS, REQUIRED_CATEGORIES (tier -> list) or list
    units(tier)            -> list of json-able dicts, each with a unique "name" (and optional "cost")
    run_unit(unit)         -> dict(evaluations, distinct_nontrivial, digest, categories, violations,
                                   samples, extra)
    finalize(coverage, results, tier)   optional, may add keys to the coverage dict
"""
import argparse
import hashlib
import importlib
import json
import os
import random
import sys
import time
import traceback

VERIF = os.path.dirname(os.path.dirname(os.path.abspath(__file__)))
REPO = os.environ.get("VERIF_REPO", "/repo")
SRC = os.path.join(REPO, "src")


# ----------------------------------------------------------------------------------------
# environment: import the library from the current working tree, hygienic numba cache
# ----------------------------------------------------------------------------------------
def tree_hash() -> str:
    h = hashlib.sha256()
    root = os.path.join(SRC, "ocean_science_utilities")
    for dirpath, dirnames, filenames in sorted(os.walk(root)):
        dirnames.sort()
        for fn in sorted(filenames):
            if fn.endswith(".py"):
                p = os.path.join(dirpath, fn)
                h.update(os.path.relpath(p, root).encode())
                with open(p, "rb") as fp:
                    h.update(fp.read())
    return h.hexdigest()[:24]


def setup_environment(prune=False) -> str:
    """Set the process environment *before* numba / the library is imported."""
    th = tree_hash()
    base = os.path.join(VERIF, ".cache", "numba")
    cache = os.path.join(base, th)
    os.makedirs(cache, exist_ok=True)
    # disk hygiene, done by the parent process only: drop caches of trees that have not been used
    # for more than six hours once there are more than 40 of them (never the one in use; several
    # checks / scratch worktrees may run concurrently, so recently used siblings are kept)
    if prune:
        try:
            os.utime(cache, None)
            now = time.time()
            sibs = [d for d in os.listdir(base) if d != th]
            if len(sibs) > 40:
                import shutil

                for d in sibs:
                    p = os.path.join(base, d)
                    if now - os.path.getmtime(p) > 6 * 3600:
                        shutil.rmtree(p, ignore_errors=True)
        except OSError:
            pass
    os.environ["NUMBA_CACHE_DIR"] = cache
    os.environ.setdefault("NUMBA_NUM_THREADS", "1")
    os.environ.setdefault("OMP_NUM_THREADS", "1")
    os.environ.setdefault("OPENBLAS_NUM_THREADS", "1")
    os.environ.setdefault("MKL_NUM_THREADS", "1")
    os.environ["PYTHONDONTWRITEBYTECODE"] = "1"
    os.environ["OSU_VERIF"] = "1"
    sys.dont_write_bytecode = True
    if SRC in sys.path:
        sys.path.remove(SRC)
    sys.path.insert(0, SRC)
    if os.path.realpath(SRC) != "/repo/src":
        # a scratch worktree is under test (VERIF_REPO): the library consists of namespace
        # packages, so the editable install's /repo/src must not contribute portions
        sys.path[:] = [p for p in sys.path if os.path.realpath(p or ".") != "/repo/src"]
    if VERIF not in sys.path:
        sys.path.insert(0, VERIF)
    return th


def assert_library_from_tree():
    import ocean_science_utilities.tools.math as _m

    f = os.path.realpath(_m.__file__)
    if not f.startswith(os.path.realpath(SRC) + os.sep):
        raise SystemExit(f"HARNESS-ERROR: library imported from {f}, not from {SRC}")


# ----------------------------------------------------------------------------------------
# worker side
# ----------------------------------------------------------------------------------------
_MOD = None


def _worker_init(mod_name):
    global _MOD
    setup_environment()
    import warnings

    warnings.simplefilter("ignore")
    _MOD = importlib.import_module(mod_name)
    assert_library_from_tree()


def _in_library(tb) -> bool:
    """True if the innermost frame of the traceback is library (or third party) code, i.e.
    the exception was raised below the harness, by the code under test."""
    frames = traceback.extract_tb(tb)
    if not frames:
        return False
    inner = os.path.realpath(frames[-1].filename)
    return not inner.startswith(os.path.realpath(VERIF) + os.sep)


def _run_unit(unit):
    t0 = time.time()
    try:
        res = _MOD.run_unit(unit)
        res["unit"] = unit["name"]
        res["wall_s"] = time.time() - t0
        return res
    except Exception as exc:  # noqa
        tb = traceback.format_exc()
        lib = _in_library(exc.__traceback__)
        return {
            "unit": unit["name"],
            "crash": True,
            "in_library": lib,
            "exception": f"{type(exc).__name__}: {exc}",
            "traceback": tb,
            "wall_s": time.time() - t0,
        }


# ----------------------------------------------------------------------------------------
# known findings
# ----------------------------------------------------------------------------------------
def load_known(prop_id):
    path = os.path.join(VERIF, "KNOWN_FINDINGS.json")
    if not os.path.exists(path):
        return []
    with open(path) as fp:
        data = json.load(fp)
    return [
        e
        for e in data.get("findings", [])
        if e.get("property") == prop_id and e.get("status") == "known"
    ]


def _match(entry, key) -> bool:
    for k, v in entry.get("match", {}).items():
        if k not in key:
            return False
        kv = key[k]
        if isinstance(v, list) and not isinstance(kv, list):
            if kv not in v:
                return False
        elif isinstance(v, dict):
            # numeric interval {"min":..,"max":..}
            try:
                if "min" in v and not kv >= v["min"]:
                    return False
                if "max" in v and not kv <= v["max"]:
                    return False
            except TypeError:
                return False
        elif kv != v:
            return False
    return True


# ----------------------------------------------------------------------------------------
# main
# ----------------------------------------------------------------------------------------
def jsonable(x):
    import numpy as np

    if isinstance(x, dict):
        return {str(k): jsonable(v) for k, v in x.items()}
    if isinstance(x, (list, tuple, set, frozenset)):
        return [jsonable(v) for v in x]
    if isinstance(x, (np.integer,)):
        return int(x)
    if isinstance(x, (np.floating,)):
        x = float(x)
    if isinstance(x, float):
        if x != x:
            return "nan"
        if x in (float("inf"), float("-inf")):
            return "inf" if x > 0 else "-inf"
        return x
    if isinstance(x, (np.bool_,)):
        return bool(x)
    if isinstance(x, np.ndarray):
        return jsonable(x.tolist())
    if isinstance(x, (str, int, bool)) or x is None:
        return x
    return repr(x)


def key_hash(obj) -> str:
    return hashlib.sha256(
        json.dumps(jsonable(obj), sort_keys=True).encode()
    ).hexdigest()[:16]


def main(argv=None):
    ap = argparse.ArgumentParser()
    ap.add_argument("prop")
    ap.add_argument("--tier", default=os.environ.get("VERIF_TIER", "quick"))
    ap.add_argument("--replay", default=None)
    ap.add_argument("--workers", type=int, default=int(os.environ.get("VERIF_WORKERS", "16")))
    ap.add_argument("--only", default=None, help="run only units whose name contains this")
    ap.add_argument("--no-evidence", action="store_true")
    args = ap.parse_args(argv)
    tier = args.tier if args.tier in ("quick", "thorough") else "quick"
    try:
        seed = int(os.environ.get("VERIF_SEED", "0"))
    except ValueError:
        seed = 0
    os.environ["PYTHONHASHSEED"] = "0"
    t0 = time.time()
    th = setup_environment(prune=True)
    prop = args.prop.upper()
    mod_name = f"mc.props.{prop.lower()}"
    mod = importlib.import_module(mod_name)

    if args.replay:
        return replay(mod, mod_name, prop, args.replay)

    units = list(mod.units(tier))
    names = [u["name"] for u in units]
    if len(set(names)) != len(names):
        print("HARNESS-ERROR: duplicate unit names")
        return 2
    if args.only:
        units = [u for u in units if args.only in u["name"]]
    # the enumerated set does not depend on the seed; only the order does
    set_digest = hashlib.sha256(
        json.dumps(sorted(json.dumps(jsonable(u), sort_keys=True) for u in units)).encode()
    ).hexdigest()
    rnd = random.Random(seed)
    rnd.shuffle(units)
    units.sort(key=lambda u: -u.get("cost", 1))  # stable: big units first, ties shuffled
    for u in units:
        u.setdefault("seed", seed)
        u.setdefault("tier", tier)

    results = []
    nworkers = max(1, min(args.workers, len(units)))
    if nworkers == 1 or os.environ.get("VERIF_INPROCESS"):
        _worker_init(mod_name)
        for u in units:
            results.append(_run_unit(u))
    else:
        import concurrent.futures as cf
        import multiprocessing as mp

        ctx = mp.get_context("spawn")
        with cf.ProcessPoolExecutor(
            max_workers=nworkers, mp_context=ctx, initializer=_worker_init, initargs=(mod_name,)
        ) as ex:
            futs = [ex.submit(_run_unit, u) for u in units]
            for f in futs:
                try:
                    results.append(f.result())
                except Exception as exc:  # worker died
                    results.append(
                        {
                            "unit": "?",
                            "crash": True,
                            "in_library": False,
                            "exception": f"worker failure: {type(exc).__name__}: {exc}",
                            "traceback": "",
                        }
                    )

    return report(mod, prop, tier, seed, th, units, results, set_digest, t0, args)


def report(mod, prop, tier, seed, th, units, results, set_digest, t0, args):
    unit_by_name = {u["name"]: u for u in units}
    harness_errors = []
    violations = []
    evaluations = 0
    distinct_nontrivial = 0
    categories = {}
    samples = []
    extra = {}
    digests = []
    for r in sorted(results, key=lambda r: r["unit"]):
        if r.get("crash"):
            if r.get("in_library"):
                violations.append(
                    {
                        "unit": r["unit"],
                        "key": {"unit": r["unit"], "kind": "exception-in-library"},
                        "what": "library raised on an input inside the property's domain: "
                        + r["exception"],
                        "detail": {"traceback": r["traceback"][-3000:]},
                    }
                )
            else:
                harness_errors.append(f"unit {r['unit']}: {r['exception']}\n{r['traceback']}")
            continue
        evaluations += int(r.get("evaluations", 0))
        distinct_nontrivial += int(r.get("distinct_nontrivial", 0))
        for k, v in r.get("categories", {}).items():
            categories[k] = categories.get(k, 0) + int(v)
        for k, v in r.get("extra", {}).items():
            if isinstance(v, (int, float)):
                extra[k] = extra.get(k, 0) + v
            elif isinstance(v, list):
                extra.setdefault(k, [])
                extra[k] = sorted(set(extra[k]) | set(map(str, v)))[:200]
        for s in r.get("samples", [])[:2]:
            if len(samples) < 6:
                samples.append(s)
        digests.append((r["unit"], r.get("digest", "")))
        for v in r.get("violations", []):
            v = dict(v)
            v["unit"] = r["unit"]
            violations.append(v)
        n_more = int(r.get("violations_total", len(r.get("violations", [])))) - len(
            r.get("violations", [])
        )
        if n_more > 0:
            extra["violations_not_listed"] = extra.get("violations_not_listed", 0) + n_more

    # ---- vacuity self check --------------------------------------------------------------
    req = getattr(mod, "REQUIRED_CATEGORIES", [])
    if isinstance(req, dict):
        req = req.get(tier, [])
    if not args.only:
        for c in req:
            if categories.get(c, 0) == 0:
                harness_errors.append(f"vacuity: required category '{c}' has count 0")

    # ---- known findings -------------------------------------------------------------------
    known = load_known(prop)
    known_hits = {i: 0 for i in range(len(known))}
    unknown = []
    for v in violations:
        for i, e in enumerate(known):
            if _match(e, v.get("key", {})):
                known_hits[i] += 1
                break
        else:
            unknown.append(v)

    for i, e in enumerate(known):
        if known_hits[i]:
            print(f"KNOWN-FINDING: property={prop} {e['what']} (matched {known_hits[i]} case(s) in this run)")
        else:
            print(f"note: known finding not exercised/reproduced in this run: {e['what']}")

    # ---- replay artefacts -------------------------------------------------------------------
    replay_dir = os.path.join(VERIF, "replays", prop)
    printed = 0
    seen_groups = set()
    for v in unknown:
        h = key_hash([v.get("unit"), v.get("key")])
        os.makedirs(replay_dir, exist_ok=True)
        path = os.path.join(replay_dir, h + ".json")
        with open(path, "w") as fp:
            json.dump(
                jsonable(
                    {
                        "property": prop,
                        "tier": tier,
                        "unit": unit_by_name.get(v.get("unit"), {"name": v.get("unit")}),
                        "key": v.get("key"),
                        "what": v.get("what"),
                        "detail": v.get("detail"),
                        "replay_cmd": f"./check {prop} --replay replays/{prop}/{h}.json",
                    }
                ),
                fp,
                indent=1,
            )
        if hasattr(mod, "write_repro"):
            try:
                mod.write_repro(v, os.path.join(replay_dir, h + "_repro.py"))
            except Exception:
                pass
        group = v.get("what", "")[:60]
        if printed < 25 and (group not in seen_groups or printed < 8):
            print(f"VIOLATION property={prop} replay={path}")
            print(f"    {v.get('what')}  key={json.dumps(jsonable(v.get('key')))[:300]}")
            printed += 1
            seen_groups.add(group)
    if len(unknown) > printed:
        print(f"    ... {len(unknown) - printed} further violation(s) written to {replay_dir}")

    # ---- evidence -----------------------------------------------------------------------------
    wall = time.time() - t0
    coverage = {
        "evaluations": int(evaluations),
        "distinct_nontrivial": int(distinct_nontrivial),
        "rule": getattr(mod, "RULE", ""),
        "samples": jsonable(samples),
        "exhaustive": True,
        "units": len(units),
        "categories": categories,
        "enumerated_set_digest": set_digest,
        "result_digest": hashlib.sha256(json.dumps(digests).encode()).hexdigest(),
        "library_tree_hash": th,
        "violations_unknown": len(unknown),
        "violations_known": sum(known_hits.values()),
    }
    coverage.update(jsonable(extra))
    if hasattr(mod, "finalize"):
        try:
            mod.finalize(coverage, results, tier)
        except Exception as exc:
            harness_errors.append(f"finalize failed: {exc!r}")
    if args.only:
        coverage["exhaustive"] = False
        coverage["partial_run_filter"] = args.only
    evidence = {
        "property_id": prop,
        "tier": tier,
        "seed": seed,
        "level": mod.LEVEL,
        "coverage": coverage,
        "assumptions": list(getattr(mod, "ASSUMPTIONS", [])),
        "wall_s": round(wall, 2),
        "violations": len(unknown),
    }
    if not args.no_evidence and not args.only:
        os.makedirs(os.path.join(VERIF, "evidence"), exist_ok=True)
        with open(os.path.join(VERIF, "evidence", prop + ".json"), "w") as fp:
            json.dump(evidence, fp, indent=1, sort_keys=True)

    summary = {k: coverage[k] for k in ("evaluations", "distinct_nontrivial", "units")}
    for k in ("states", "transitions", "traces_validated_against_impl", "schedules", "executions"):
        if k in coverage:
            summary[k] = coverage[k]
    print(
        f"{prop} tier={tier} seed={seed} {summary} categories={categories} "
        f"violations={len(unknown)} known={sum(known_hits.values())} wall={wall:.1f}s"
    )
    if harness_errors:
        for e in harness_errors:
            print("HARNESS-ERROR:", e)
        return 1 if unknown else 2
    return 1 if unknown else 0


def replay(mod, mod_name, prop, path):
    with open(path) as fp:
        rec = json.load(fp)
    unit = rec["unit"]
    _worker_init(mod_name)
    r = _run_unit(unit)
    if r.get("crash"):
        print(r["traceback"])
        if r.get("in_library"):
            print(f"VIOLATION property={prop} replay={path}")
            return 1
        return 2
    want = json.dumps(jsonable(rec.get("key")), sort_keys=True)
    hits = [
        v
        for v in r.get("violations", [])
        if json.dumps(jsonable(v.get("key")), sort_keys=True) == want
    ]
    if hits:
        for v in hits[:3]:
            print(json.dumps(jsonable(v), indent=1)[:4000])
        print(f"VIOLATION property={prop} replay={path}")
        return 1
    print(f"replay: violation not reproduced ({len(r.get('violations', []))} other violations in unit)")
    return 0


if __name__ == "__main__":
    sys.exit(main())
